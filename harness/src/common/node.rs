//! One nun-db node inside the harness process.
use futures::channel::mpsc::{channel, Receiver, Sender};
use futures::task::noop_waker;
use nundb::bo::{ClusterRole, Databases, ValueStatus};
use nundb::disk_ops;
use std::collections::BTreeMap;
use std::future::Future;
use std::pin::Pin;
use std::sync::atomic::Ordering;
use std::sync::Arc;
use std::task::{Context, Poll};

pub const USER: &str = "admin";
pub const PWD: &str = "pwd";

pub struct Node {
    pub dbs: Arc<Databases>,
    pub dir: String,
    pub addr: String,
    /// what nun-db enqueues for its replication loop
    pub repl_in: Receiver<String>,
    /// what nun-db enqueues for its supervisor
    pub sup_in: Receiver<String>,
    repl_fwd: Option<Sender<String>>,
    repl_fut: Option<Pin<Box<dyn Future<Output = ()> + Send>>>,
    sup_fwd: Option<Sender<String>>,
    sup_fut: Option<Pin<Box<dyn Future<Output = ()> + Send>>>,
    /// every message that was enqueued for the replication loop, in order
    pub repl_log: Vec<String>,
    pub sup_log: Vec<String>,
    pub keep_logs: bool,
}

pub struct NodeOpts {
    pub dir: String,
    pub addr: String,
    pub process_id: u128,
    /// run the real replication loop (oplog writes, fan-out) on `pump`
    pub real_loop: bool,
    /// run the real supervisor on `pump_supervisor`
    pub real_supervisor: bool,
    /// mimic src/bin/main.rs start-up (load key map, oplog validity, load dbs)
    pub load_from_disk: bool,
    /// the address the node binds to when it differs from the (external) address its peers know it by (--tcp-address
    /// 0.0.0.0:3014 --external-address node-a:3014, the usual container set-up); None = both are `addr`
    pub bind_addr: Option<String>,
}

impl NodeOpts {
    pub fn simple(dir: &str) -> NodeOpts {
        NodeOpts {
            dir: dir.to_string(),
            addr: "127.0.0.1:3014".to_string(),
            process_id: 1000,
            real_loop: false,
            real_supervisor: false,
            load_from_disk: false,
            bind_addr: None,
        }
    }
}

fn poll_once(fut: &mut Pin<Box<dyn Future<Output = ()> + Send>>) -> bool {
    let waker = noop_waker();
    let mut cx = Context::from_waker(&waker);
    match fut.as_mut().poll(&mut cx) {
        Poll::Ready(()) => true,
        Poll::Pending => false,
    }
}

impl Node {
    pub fn enter(&self) {
        nundb::verif::set_dir(Some(self.dir.clone()));
    }

    /// Start-up sequence of src/bin/main.rs:69-99 (start_db), without the network threads.
    pub fn start(opts: NodeOpts) -> Node {
        nundb::verif::set_dir(Some(opts.dir.clone()));
        let (repl_tx, repl_in) = channel::<String>(100);
        let (sup_tx, sup_in) = channel::<String>(100);
        let (keys_map, is_valid) = if opts.load_from_disk {
            let keys_map = disk_ops::load_keys_map_from_disk();
            let is_valid = disk_ops::is_oplog_valid();
            if !is_valid {
                disk_ops::Oplog::clean_op_log_metadata_files();
            }
            (keys_map, is_valid)
        } else {
            (std::collections::HashMap::new(), true)
        };
        let dbs = Arc::new(Databases::new(
            USER.to_string(),
            PWD.to_string(),
            opts.bind_addr.clone().unwrap_or(opts.addr.clone()),
            opts.addr.clone(),
            sup_tx,
            repl_tx,
            keys_map,
            opts.process_id,
            is_valid,
        ));
        if opts.load_from_disk {
            Databases::load_all_dbs(&dbs);
        }
        let (repl_fwd, repl_fut) = if opts.real_loop {
            let (tx, rx) = channel::<String>(1000);
            let fut: Pin<Box<dyn Future<Output = ()> + Send>> =
                Box::pin(nundb::replication_ops::start_replication_thread(rx, dbs.clone()));
            (Some(tx), Some(fut))
        } else {
            (None, None)
        };
        let (sup_fwd, sup_fut) = if opts.real_supervisor {
            let (tx, rx) = channel::<String>(1000);
            let fut: Pin<Box<dyn Future<Output = ()> + Send>> = Box::pin(
                nundb::replication_ops::start_replication_supervisor(rx, dbs.clone(), Arc::new(opts.addr.clone())),
            );
            (Some(tx), Some(fut))
        } else {
            (None, None)
        };
        let mut n = Node {
            dbs,
            dir: opts.dir,
            addr: opts.addr,
            repl_in,
            sup_in,
            repl_fwd,
            repl_fut,
            sup_fwd,
            sup_fut,
            repl_log: vec![],
            sup_log: vec![],
            keep_logs: true,
        };
        // first poll opens the oplog and the flag file in this node's directory
        if let Some(f) = n.repl_fut.as_mut() {
            poll_once(f);
        }
        if let Some(f) = n.sup_fut.as_mut() {
            poll_once(f);
        }
        n
    }

    pub fn set_role(&self, role: ClusterRole) {
        self.dbs.node_state.store(role as usize, Ordering::SeqCst);
    }

    /// Take one message nun-db enqueued for the replication loop (without running the loop).
    pub fn take_repl(&mut self) -> Option<String> {
        match self.repl_in.try_next() {
            Ok(Some(m)) => Some(m),
            _ => None,
        }
    }

    /// Feed one message to the real replication loop and poll it until it waits again.
    pub fn feed_repl(&mut self, m: String) {
        self.enter();
        if self.keep_logs {
            self.repl_log.push(m.clone());
        }
        if let (Some(tx), Some(fut)) = (self.repl_fwd.as_mut(), self.repl_fut.as_mut()) {
            let _watch = super::hang::guard("replication-loop", &m);
            tx.try_send(m).expect("forward channel full");
            poll_once(fut);
        }
    }

    /// Move everything enqueued so far through the replication loop (or discard it).
    pub fn pump(&mut self) -> usize {
        let mut n = 0;
        while let Some(m) = self.take_repl() {
            self.feed_repl(m);
            n += 1;
        }
        n
    }

    pub fn take_sup(&mut self) -> Option<String> {
        match self.sup_in.try_next() {
            Ok(Some(m)) => Some(m),
            _ => None,
        }
    }

    pub fn feed_sup(&mut self, m: String) {
        self.enter();
        if self.keep_logs {
            self.sup_log.push(m.clone());
        }
        if let (Some(tx), Some(fut)) = (self.sup_fwd.as_mut(), self.sup_fut.as_mut()) {
            let _watch = super::hang::guard("supervisor", &m);
            tx.try_send(m).expect("forward channel full");
            poll_once(fut);
        }
    }

    pub fn pump_sup(&mut self) -> usize {
        let mut n = 0;
        while let Some(m) = self.take_sup() {
            self.feed_sup(m);
            n += 1;
        }
        n
    }

    /// The timer action: snapshot queue + oplog pruning.
    pub fn declutter(&mut self) {
        self.enter();
        self.pump();
        let _watch = super::hang::guard("snapshot-timer", "declutter");
        disk_ops::verif_declutter(&self.dbs);
    }

    pub fn safe_shutdown(&mut self) {
        self.enter();
        self.pump();
        nundb::db_ops::safe_shutdown(&self.dbs);
    }
}

#[derive(Clone, Debug, PartialEq)]
pub struct KeyDump {
    pub value: String,
    pub version: i32,
    pub state: ValueStatus,
}

/// db -> key -> (value, version, state), read at a quiescent point.
pub fn dump_db(dbs: &Arc<Databases>, db: &str) -> Option<BTreeMap<String, KeyDump>> {
    let map = dbs.map.read().unwrap_or_else(|e| e.into_inner());
    let d = map.get(db)?;
    let m = d.map.read().unwrap_or_else(|e| e.into_inner());
    Some(
        m.iter()
            .map(|(k, v)| (k.clone(), KeyDump { value: v.value.clone(), version: v.version, state: v.state }))
            .collect(),
    )
}

pub fn dump_all(dbs: &Arc<Databases>) -> String {
    let names: Vec<String> = {
        let map = dbs.map.read().unwrap_or_else(|e| e.into_inner());
        let mut n: Vec<String> = map.keys().cloned().collect();
        n.sort();
        n
    };
    let mut out = String::new();
    for n in names {
        let (id, strat, conns) = {
            let map = dbs.map.read().unwrap_or_else(|e| e.into_inner());
            let d = map.get(&n).unwrap();
            (d.metadata.id, d.metadata.consensus_strategy.to_string(), d.connections_count())
        };
        out.push_str(&format!("db {} id={} strategy={} connections={}\n", n, id, strat, conns));
        let watch: Vec<(String, usize)> = {
            let map = dbs.map.read().unwrap_or_else(|e| e.into_inner());
            let d = map.get(&n).unwrap();
            let w = d.watchers.map.read().unwrap_or_else(|e| e.into_inner());
            let mut v: Vec<(String, usize)> = w.iter().map(|(k, s)| (k.clone(), s.len())).filter(|x| x.1 > 0).collect();
            v.sort();
            v
        };
        for (k, v) in dump_db(dbs, &n).unwrap() {
            out.push_str(&format!("  {} = {:?} v{} {:?}\n", k, v.value, v.version, v.state));
        }
        for (k, c) in watch {
            out.push_str(&format!("  watch {} x{}\n", k, c));
        }
    }
    {
        let cs = dbs.cluster_state.lock().unwrap_or_else(|e| e.into_inner());
        let members = cs.members.lock().unwrap_or_else(|e| e.into_inner());
        let mut m: Vec<String> = members.values().map(|m| format!("{}:{}", m.name, m.role)).collect();
        m.sort();
        out.push_str(&format!("members {}\n", m.join(",")));
    }
    out.push_str(&format!("role {}\n", dbs.get_role()));
    out.push_str(&format!("to_snapshot {:?}\n", dbs.to_snapshot.read().unwrap_or_else(|e| e.into_inner()).clone()));
    out.push_str(&format!("pending {}\n", dbs.pending_opps.read().unwrap_or_else(|e| e.into_inner()).len()));
    out
}

/// Are any of the node's locks poisoned?
pub fn poisoned(dbs: &Arc<Databases>) -> Vec<String> {
    let mut p = vec![];
    if dbs.map.is_poisoned() {
        p.push("dbs.map".to_string());
        return p;
    }
    if dbs.pending_opps.is_poisoned() {
        p.push("pending_opps".into());
    }
    if dbs.keys_map.is_poisoned() {
        p.push("keys_map".into());
    }
    if dbs.id_keys_map.is_poisoned() {
        p.push("id_keys_map".into());
    }
    if dbs.id_name_db_map.is_poisoned() {
        p.push("id_name_db_map".into());
    }
    if dbs.to_snapshot.is_poisoned() {
        p.push("to_snapshot".into());
    }
    if dbs.cluster_state.is_poisoned() {
        p.push("cluster_state".into());
    } else if dbs.cluster_state.lock().unwrap().members.is_poisoned() {
        p.push("cluster_state.members".into());
    }
    if dbs.query_ema.is_poisoned() {
        p.push("query_ema".into());
    }
    if dbs.replication_ema.is_poisoned() {
        p.push("replication_ema".into());
    }
    let map = dbs.map.read().unwrap();
    for (n, d) in map.iter() {
        if d.map.is_poisoned() {
            p.push(format!("db[{}].map", n));
        }
        if d.watchers.map.is_poisoned() {
            p.push(format!("db[{}].watchers", n));
        }
        if d.connections.is_poisoned() {
            p.push(format!("db[{}].connections", n));
        }
    }
    p
}
