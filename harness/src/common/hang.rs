//! Watchdog for node code the harness runs inline (the replication loop and the supervisor are polled on the
//! harness's own thread in Engine N and in C10/C16): a message that the service thread never finishes handling — a
//! loop that does not end, a lock that is never released — would otherwise hang the check until the process-wide
//! watchdog calls it INCONCLUSIVE. A step that has not returned after `VERIF_HANG_S` (default 90 s, orders of
//! magnitude above any step on a loaded machine) is a verdict: the node is wedged by that message. The thread cannot
//! be interrupted, so the monitor reports, writes the evidence and ends the process.
use super::evidence::Evidence;
use super::kf::Verdicts;
use serde_json::json;
use std::collections::BTreeMap;
use std::sync::atomic::{AtomicU64, Ordering};
use std::sync::{Mutex, Once};
use std::time::{Duration, Instant};

lazy_static::lazy_static! {
    static ref ACTIVE: Mutex<BTreeMap<u64, (Instant, String, String)>> = Mutex::new(BTreeMap::new());
    static ref CONTEXT: Mutex<Option<(String, String)>> = Mutex::new(None);
}
static NEXT: AtomicU64 = AtomicU64::new(1);
static STARTED: Once = Once::new();
pub static STEPS_WATCHED: AtomicU64 = AtomicU64::new(0);

pub struct HangGuard(u64);

impl Drop for HangGuard {
    fn drop(&mut self) {
        ACTIVE.lock().unwrap().remove(&self.0);
    }
}

/// Names the check on whose behalf a hang is reported (property id, tier).
pub fn install(property: &str, tier: &str) {
    *CONTEXT.lock().unwrap() = Some((property.to_string(), tier.to_string()));
}

fn limit() -> Duration {
    Duration::from_secs(std::env::var("VERIF_HANG_S").ok().and_then(|x| x.parse().ok()).unwrap_or(90))
}

/// Marks the start of one inline step of a node thread; drop the guard when the step returns.
pub fn guard(thread: &str, message: &str) -> HangGuard {
    STARTED.call_once(|| {
        std::thread::spawn(|| loop {
            std::thread::sleep(Duration::from_millis(500));
            let hit = { ACTIVE.lock().unwrap().values().find(|(t, _, _)| t.elapsed() > limit()).cloned() };
            if let Some((t0, thread, message)) = hit {
                fire(&thread, &message, t0.elapsed());
            }
        });
    });
    let id = NEXT.fetch_add(1, Ordering::SeqCst);
    STEPS_WATCHED.fetch_add(1, Ordering::Relaxed);
    ACTIVE.lock().unwrap().insert(id, (Instant::now(), thread.to_string(), message.chars().take(300).collect()));
    HangGuard(id)
}

fn fire(thread: &str, message: &str, waited: Duration) -> ! {
    let ctx = CONTEXT.lock().unwrap().clone();
    let word = message.split_whitespace().next().unwrap_or("").to_string();
    match ctx {
        Some((prop, tier)) => {
            let v = Verdicts::load(&prop);
            v.report(
                json!({"check": "liveness", "problem": "node-thread-never-finished-handling-a-message", "thread": thread, "message_word": word}),
                json!({"thread": thread, "message": message, "waited_seconds": waited.as_secs(),
                       "explanation": "the harness polls this service thread inline; the step did not return: the thread spins or blocks for good and everything queued behind it is never handled"}),
            );
            let mut ev = Evidence::new(&prop, &tier, "exploration");
            ev.rule = format!("aborted: the node's {} never finished handling '{}' (waited {} s); see the replay", thread, word, waited.as_secs());
            ev.violations = v.violation_count();
            ev.write();
            super::cleanup_scratch();
            let code = v.finish(&tier);
            println!("{} {}: aborted, the node's {} never finished handling a '{}' message, {} violations", prop, tier, thread, word, v.violation_count());
            std::process::exit(code);
        }
        None => {
            println!("INCONCLUSIVE reason=an inline step of the node's {} did not return within {} s ('{}')", thread, waited.as_secs(), word);
            super::cleanup_scratch();
            std::process::exit(2);
        }
    }
}
