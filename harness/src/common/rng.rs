/// splitmix64: tiny, stable across crate versions.
#[derive(Clone)]
pub struct Rng(pub u64);

impl Rng {
    pub fn new(seed: u64) -> Rng {
        Rng(seed.wrapping_mul(0x9E3779B97F4A7C15).wrapping_add(0x1234567))
    }
    pub fn next(&mut self) -> u64 {
        self.0 = self.0.wrapping_add(0x9E3779B97F4A7C15);
        let mut z = self.0;
        z = (z ^ (z >> 30)).wrapping_mul(0xBF58476D1CE4E5B9);
        z = (z ^ (z >> 27)).wrapping_mul(0x94D049BB133111EB);
        z ^ (z >> 31)
    }
    pub fn below(&mut self, n: usize) -> usize {
        if n == 0 {
            0
        } else {
            (self.next() % n as u64) as usize
        }
    }
    pub fn range(&mut self, lo: usize, hi_incl: usize) -> usize {
        lo + self.below(hi_incl - lo + 1)
    }
    pub fn chance(&mut self, num: usize, den: usize) -> bool {
        self.below(den) < num
    }
    pub fn shuffle<T>(&mut self, v: &mut Vec<T>) {
        for i in (1..v.len()).rev() {
            let j = self.below(i + 1);
            v.swap(i, j);
        }
    }
    pub fn pick<'a, T>(&mut self, v: &'a [T]) -> &'a T {
        &v[self.below(v.len())]
    }
    pub fn fork(&mut self) -> Rng {
        Rng(self.next())
    }
}
