pub mod evidence;
pub mod hang;
pub mod kf;
pub mod node;
pub mod rng;
pub mod sched;
pub mod session;

use std::sync::atomic::{AtomicUsize, Ordering};

pub fn verif_root() -> String {
    std::env::var("VERIF_ROOT").unwrap_or_else(|_| "/verif".to_string())
}

pub fn seed() -> u64 {
    std::env::var("VERIF_SEED").ok().and_then(|s| s.parse::<u64>().ok()).unwrap_or(1)
}

static SCRATCH_N: AtomicUsize = AtomicUsize::new(0);

/// Base scratch directory of this process (removed by `cleanup_scratch`).
pub fn scratch_base() -> String {
    let base = std::env::var("VERIF_SCRATCH").unwrap_or_else(|_| "/tmp".to_string());
    format!("{}/nunverif-{}", base, std::process::id())
}

pub fn fresh_dir(tag: &str) -> String {
    let n = SCRATCH_N.fetch_add(1, Ordering::SeqCst);
    let d = format!("{}/{}-{}", scratch_base(), tag, n);
    std::fs::create_dir_all(&d).unwrap();
    d
}

pub fn cleanup_scratch() {
    let _ = std::fs::remove_dir_all(scratch_base());
}

pub fn fnv(s: &str) -> u64 {
    let mut h: u64 = 0xcbf29ce484222325;
    for b in s.as_bytes() {
        h ^= *b as u64;
        h = h.wrapping_mul(0x100000001b3);
    }
    h
}

pub fn workers() -> usize {
    std::env::var("VERIF_JOBS").ok().and_then(|s| s.parse().ok()).unwrap_or_else(|| {
        std::thread::available_parallelism().map(|n| n.get()).unwrap_or(4).min(16)
    })
}

lazy_static::lazy_static! {
    /// every panic of the process (any thread), as "location | message"
    pub static ref PANIC_LOG: std::sync::Mutex<Vec<String>> = std::sync::Mutex::new(vec![]);
}

/// Silence the default panic message for panics we catch on purpose, but remember all of them.
pub fn quiet_panics() {
    std::panic::set_hook(Box::new(|info| {
        let loc = info.location().map(|l| format!("{}:{}", l.file(), l.line())).unwrap_or_default();
        let msg = if let Some(s) = info.payload().downcast_ref::<&str>() {
            s.to_string()
        } else if let Some(s) = info.payload().downcast_ref::<String>() {
            s.clone()
        } else {
            String::new()
        };
        if let Ok(mut l) = PANIC_LOG.lock() {
            if l.len() < 10_000 {
                l.push(format!("{} | {}", loc, msg));
            }
        }
        if std::env::var("VERIF_SHOW_PANICS").is_ok() {
            eprintln!("panic: {}", info);
        }
    }));
}

pub fn take_panics() -> Vec<String> {
    std::mem::take(&mut *PANIC_LOG.lock().unwrap())
}

/// Threads that nun-db spawns itself have no per-thread directory override: give the
/// process-global default (NUN_DBS_DIR, read once) an existing scratch directory.
pub fn init_default_dir() {
    let d = format!("{}/default-dbs", scratch_base());
    std::fs::create_dir_all(&d).unwrap();
    if std::env::var("NUN_DBS_DIR").is_err() {
        std::env::set_var("NUN_DBS_DIR", &d);
    }
}

pub fn panic_msg(e: &Box<dyn std::any::Any + Send>) -> String {
    if let Some(s) = e.downcast_ref::<&str>() {
        s.to_string()
    } else if let Some(s) = e.downcast_ref::<String>() {
        s.clone()
    } else {
        "<non-string panic>".to_string()
    }
}

/// A child process that runs nun-db's loader on files a (possibly broken) snapshot left: its address space is capped, so
/// that a loader that takes garbage for a length, or never stops appending, ends with an allocation failure (an abort the
/// parent reports as the loader's failure) instead of eating the machine's memory - which once got the whole check
/// killed by the kernel (exit 137, no verdict) under a seeded change. 2 GiB is far above anything a loader of these
/// datasets needs (kilobytes), including the address space the allocator reserves per thread.
pub fn cap_child_memory(cmd: &mut std::process::Command) {
    cap_child_memory_gib(cmd, 2)
}

/// The same with a chosen cap (children that run an async runtime and the S3 client reserve far more address space
/// per thread than they ever touch).
pub fn cap_child_memory_gib(cmd: &mut std::process::Command, gib: u64) {
    use std::os::unix::process::CommandExt;
    unsafe {
        cmd.pre_exec(move || {
            let lim = libc::rlimit { rlim_cur: gib << 30, rlim_max: gib << 30 };
            libc::setrlimit(libc::RLIMIT_AS, &lim);
            Ok(())
        });
    }
}
