use futures::channel::mpsc::Receiver;
use nundb::bo::{Client, Databases, Response};
use nundb::process_request::process_request;
use std::sync::Arc;

pub struct Session {
    pub client: Client,
    pub rx: Receiver<String>,
}

#[derive(Clone, Debug, PartialEq)]
pub struct Reply {
    pub resp: String,
    pub pushed: Vec<String>,
}

impl Reply {
    pub fn is_error(&self) -> bool {
        self.resp.starts_with("Error") || self.resp.starts_with("VersionError")
    }
    pub fn to_json(&self) -> serde_json::Value {
        serde_json::json!({"resp": self.resp, "pushed": self.pushed})
    }
}

pub fn resp_str(r: &Response) -> String {
    match r {
        Response::Ok {} => "Ok".to_string(),
        Response::Set { key, value } => format!("Set {} {}", key, value),
        Response::Value { key, value, version } => format!("Value {} {} {}", key, version, value),
        Response::Error { msg } => format!("Error {}", msg),
        Response::VersionError { msg, key, old_version, version, .. } => {
            format!("VersionError {} key={} old={} new={}", msg, key, old_version, version)
        }
    }
}

impl Session {
    pub fn new() -> Session {
        let (client, rx) = Client::new_empty_and_receiver();
        Session { client, rx }
    }

    pub fn drain(&mut self) -> Vec<String> {
        let mut out = vec![];
        loop {
            match self.rx.try_next() {
                Ok(Some(m)) => out.push(m),
                _ => break,
            }
        }
        out
    }

    pub fn call_raw(&mut self, dbs: &Arc<Databases>, line: &str) -> Response {
        process_request(line, dbs, &mut self.client)
    }

    pub fn call(&mut self, dbs: &Arc<Databases>, line: &str) -> Reply {
        let r = process_request(line, dbs, &mut self.client);
        Reply { resp: resp_str(&r), pushed: self.drain() }
    }

    /// The disconnect sequence every transport performs for an ordinary client.
    pub fn disconnect(mut self, dbs: &Arc<Databases>) {
        process_request("unwatch-all", dbs, &mut self.client);
        self.client.left(dbs);
    }
}
