use serde_json::{json, Value};
use std::time::Instant;

pub struct Evidence {
    pub property: String,
    pub tier: String,
    pub level: String,
    pub start: Instant,
    pub evaluations: u64,
    pub distinct_nontrivial: u64,
    pub rule: String,
    pub samples: Vec<Value>,
    pub extra: serde_json::Map<String, Value>,
    pub assumptions: Vec<String>,
    pub violations: u64,
    pub exhaustive: Option<bool>,
}

impl Evidence {
    pub fn new(property: &str, tier: &str, level: &str) -> Evidence {
        Evidence {
            property: property.to_string(),
            tier: tier.to_string(),
            level: level.to_string(),
            start: Instant::now(),
            evaluations: 0,
            distinct_nontrivial: 0,
            rule: String::new(),
            samples: vec![],
            extra: serde_json::Map::new(),
            assumptions: vec![],
            violations: 0,
            exhaustive: None,
        }
    }

    pub fn set(&mut self, k: &str, v: Value) {
        self.extra.insert(k.to_string(), v);
    }

    pub fn sample(&mut self, v: Value) {
        if self.samples.len() < 8 {
            self.samples.push(v);
        }
    }

    pub fn write(&self) {
        let mut cov = serde_json::Map::new();
        cov.insert("evaluations".into(), json!(self.evaluations));
        cov.insert("distinct_nontrivial".into(), json!(self.distinct_nontrivial));
        cov.insert("rule".into(), json!(self.rule));
        cov.insert("samples".into(), json!(self.samples));
        if let Some(e) = self.exhaustive {
            cov.insert("exhaustive".into(), json!(e));
        }
        for (k, v) in &self.extra {
            cov.insert(k.clone(), v.clone());
        }
        let tier = if self.tier == "thorough" { "thorough" } else { "quick" };
        let doc = json!({
            "property_id": self.property,
            "tier": tier,
            "seed": super::seed(),
            "level": self.level,
            "coverage": Value::Object(cov),
            "assumptions": self.assumptions,
            "wall_s": self.start.elapsed().as_secs_f64(),
            "violations": self.violations,
        });
        let dir = format!("{}/evidence", super::verif_root());
        let _ = std::fs::create_dir_all(&dir);
        let path = format!("{}/{}.json", dir, self.property);
        let tmp = format!("{}.tmp{}", path, std::process::id());
        std::fs::write(&tmp, serde_json::to_string_pretty(&doc).unwrap()).unwrap();
        std::fs::rename(&tmp, &path).unwrap();
    }
}
