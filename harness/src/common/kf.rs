//! Known findings and verdict reporting.
//!
//! A checker reports every mismatch through `Verdicts::report` with a
//! *signature* (a flat JSON object describing the minimal failing
//! observation, never a seed or an ordinal). A mismatch whose signature equals
//! an `open` entry of /verif/known_findings.json is downgraded to a
//! KNOWN-FINDING line; everything else is a VIOLATION with a replay file.
use serde_json::{json, Value};
use std::collections::BTreeMap;
use std::sync::Mutex;

pub struct KnownFinding {
    pub id: String,
    pub property: String,
    pub status: String,
    pub signature: Value,
    pub what: String,
}

pub struct Verdicts {
    pub property: String,
    known: Vec<KnownFinding>,
    inner: Mutex<Inner>,
}

struct Inner {
    known_seen: BTreeMap<String, u64>,
    violations: Vec<(String, Value)>, // (signature string, replay doc)
    violation_sigs: BTreeMap<String, u64>,
    inconclusive: Vec<String>,
}

impl Verdicts {
    pub fn load(property: &str) -> Verdicts {
        let path = format!("{}/known_findings.json", super::verif_root());
        let mut known = vec![];
        if let Ok(txt) = std::fs::read_to_string(&path) {
            let doc: Value = serde_json::from_str(&txt).expect("known_findings.json is not valid JSON");
            if let Some(arr) = doc.get("findings").and_then(|a| a.as_array()) {
                for e in arr {
                    known.push(KnownFinding {
                        id: e["id"].as_str().unwrap_or("").to_string(),
                        property: e["property"].as_str().unwrap_or("").to_string(),
                        status: e["status"].as_str().unwrap_or("").to_string(),
                        signature: e["signature"].clone(),
                        what: e["what"].as_str().unwrap_or("").to_string(),
                    });
                }
            }
        }
        Verdicts {
            property: property.to_string(),
            known,
            inner: Mutex::new(Inner {
                known_seen: BTreeMap::new(),
                violations: vec![],
                violation_sigs: BTreeMap::new(),
                inconclusive: vec![],
            }),
        }
    }

    /// Is this signature an open known finding of this property?
    pub fn is_known(&self, sig: &Value) -> Option<&KnownFinding> {
        self.known
            .iter()
            .find(|k| k.property == self.property && k.status == "open" && &k.signature == sig)
    }

    /// Report a mismatch. Returns true if it was a known finding.
    pub fn report(&self, sig: Value, replay: Value) -> bool {
        let mut inner = self.inner.lock().unwrap();
        if let Some(k) = self.is_known(&sig) {
            *inner.known_seen.entry(k.id.clone()).or_insert(0) += 1;
            true
        } else {
            let s = sig.to_string();
            let n = inner.violation_sigs.entry(s.clone()).or_insert(0);
            *n += 1;
            if *n == 1 && inner.violations.len() < 60 {
                inner.violations.push((s, json!({"signature": sig, "case": replay})));
            }
            false
        }
    }

    pub fn inconclusive(&self, why: &str) {
        let mut inner = self.inner.lock().unwrap();
        if inner.inconclusive.len() < 50 {
            inner.inconclusive.push(why.to_string());
        }
    }

    /// Everything reported so far as (signature, replay) documents: a child process that runs part of a check under
    /// another environment hands its reports to the parent this way (the parent matches them against the known findings).
    pub fn reports_json(&self) -> Vec<Value> {
        let inner = self.inner.lock().unwrap();
        inner.violations.iter().map(|(_, doc)| doc.clone()).collect()
    }

    pub fn violation_count(&self) -> u64 {
        self.inner.lock().unwrap().violation_sigs.values().sum()
    }

    pub fn inconclusive_count(&self) -> usize {
        self.inner.lock().unwrap().inconclusive.len()
    }

    pub fn known_seen(&self) -> BTreeMap<String, u64> {
        self.inner.lock().unwrap().known_seen.clone()
    }

    /// Print the verdict lines, write replay files, return the exit code.
    pub fn finish(&self, tier: &str) -> i32 {
        let inner = self.inner.lock().unwrap();
        for (id, n) in &inner.known_seen {
            let k = self.known.iter().find(|k| &k.id == id).unwrap();
            println!("KNOWN-FINDING: property={} {} [{}; seen {} times]", self.property, k.what, id, n);
        }
        let dir = format!("{}/out/replays", super::verif_root());
        let _ = std::fs::create_dir_all(&dir);
        let mut code = 0;
        for (s, doc) in &inner.violations {
            let path = format!("{}/{}-{:016x}.json", dir, self.property, super::fnv(s));
            let mut d = doc.clone();
            d["property"] = json!(self.property);
            d["tier"] = json!(tier);
            d["seed"] = json!(super::seed());
            d["occurrences"] = json!(inner.violation_sigs.get(s).cloned().unwrap_or(1));
            let _ = std::fs::write(&path, serde_json::to_string_pretty(&d).unwrap());
            println!("VIOLATION property={} replay={}", self.property, path);
            println!("  signature: {}", s);
            code = 1;
        }
        if code == 0 && !inner.inconclusive.is_empty() {
            for w in inner.inconclusive.iter().take(5) {
                println!("NOTE inconclusive-case property={} reason={}", self.property, w);
            }
        }
        code
    }
}
