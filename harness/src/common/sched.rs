//! Engine S: run a few client threads against one shared `Databases` with the
//! interleaving chosen at hook granularity (token passing), or free-running
//! with injected delays.
use super::rng::Rng;
use std::cell::RefCell;
use std::sync::{Arc, Condvar, Mutex};
use std::time::{Duration, Instant};

thread_local! {
    /// (logical thread id, scheduler) of a thread that takes part in a controlled run
    static CTX: RefCell<Option<(usize, Arc<Sched>)>> = RefCell::new(None);
}

#[derive(Clone, Debug, PartialEq)]
pub enum Ev {
    /// thread, op index, rendered op
    Call(usize, usize, String),
    /// thread, op index, rendered reply
    Ret(usize, usize, String),
    /// thread reached hook site
    Site(usize, String),
}

struct State {
    /// threads allowed to run (normally at most one; more only while one of them is blocked on a
    /// lock that a parked thread holds)
    granted: Vec<bool>,
    parked: Vec<bool>,
    blocked_grants: u64,
    finished: Vec<bool>,
    events: Vec<Ev>,
    decisions: Vec<usize>,
    aborted: bool,
}

pub struct Sched {
    st: Mutex<State>,
    cv: Condvar,
}


impl Sched {
    fn park(&self, tid: usize, site: &str) {
        let mut st = self.st.lock().unwrap();
        if st.aborted {
            return;
        }
        st.events.push(Ev::Site(tid, site.to_string()));
        st.parked[tid] = true;
        st.granted[tid] = false;
        self.cv.notify_all();
        while !st.granted[tid] && !st.aborted {
            st = self.cv.wait(st).unwrap();
        }
        st.parked[tid] = false;
    }

    fn finish(&self, tid: usize) {
        let mut st = self.st.lock().unwrap();
        st.finished[tid] = true;
        st.granted[tid] = false;
        self.cv.notify_all();
    }

    pub fn log(&self, ev: Ev) {
        self.st.lock().unwrap().events.push(ev);
    }
}

static INSTALL: std::sync::Once = std::sync::Once::new();

fn install_callback() {
    INSTALL.call_once(install_callback_inner);
}

/// (Re)install the token-passing callback, e.g. after a free-running phase replaced it.
pub fn install_callback_inner() {
    nundb::verif::set_point_callback(Some(Arc::new(|site: &str| {
        let ctx = CTX.with(|t| t.borrow().clone());
        if let Some((tid, s)) = ctx {
            s.park(tid, site);
        }
    })));
}

lazy_static::lazy_static! {
    /// Called (with the events and decisions so far) when a controlled run is stuck for good: every unfinished thread has
    /// been let go and none has come back to a scheduling point for 20 s, i.e. the code under test deadlocked. The scoped
    /// threads can never be joined then, so a handler that wants a verdict has to report and end the process itself.
    pub static ref ON_STUCK: Mutex<Option<Arc<dyn Fn(&[Ev], &[usize]) + Send + Sync>>> = Mutex::new(None);
}

pub struct Outcome {
    pub events: Vec<Ev>,
    pub decisions: Vec<usize>,
    /// watchdog fired: a thread did not come back to a scheduling point (inconclusive)
    pub stuck: bool,
    /// how often a second thread was let go because the running one was blocked on a lock
    pub blocked_grants: u64,
}

pub enum Policy {
    Random,
    /// PCT-like: fixed random priorities with `d` priority change points
    Pct(usize),
}

/// Runs `bodies` (one closure per logical client) under token passing.
/// Each body receives `&Sched` for logging call/return events; bodies call
/// `yield_point` before every operation.
pub fn run_controlled<F>(bodies: Vec<F>, rng: &mut Rng, policy: Policy) -> Outcome
where
    F: FnOnce(usize, &Sched) + Send,
{
    let n = bodies.len();
    let sched = Arc::new(Sched {
        st: Mutex::new(State {
            granted: vec![false; n],
            parked: vec![false; n],
            blocked_grants: 0,
            finished: vec![false; n],
            events: vec![],
            decisions: vec![],
            aborted: false,
        }),
        cv: Condvar::new(),
    });
    install_callback();
    let mut stuck = false;
    // PCT priorities
    let mut prio: Vec<usize> = (0..n).collect();
    for i in (1..n).rev() {
        let j = rng.below(i + 1);
        prio.swap(i, j);
    }
    let change_points: Vec<usize> = match policy {
        Policy::Pct(d) => (0..d).map(|_| rng.below(60)).collect(),
        Policy::Random => vec![],
    };
    std::thread::scope(|s| {
        for (tid, body) in bodies.into_iter().enumerate() {
            let sched = sched.clone();
            s.spawn(move || {
                CTX.with(|t| *t.borrow_mut() = Some((tid, sched.clone())));
                sched.park(tid, "start");
                let r = std::panic::catch_unwind(std::panic::AssertUnwindSafe(|| body(tid, &sched)));
                if let Err(e) = r {
                    sched.log(Ev::Ret(tid, usize::MAX, format!("THREAD-PANIC {}", super::panic_msg(&e))));
                }
                CTX.with(|t| *t.borrow_mut() = None);
                sched.finish(tid);
            });
        }
        // controller
        let mut step = 0usize;
        loop {
            let mut st = sched.st.lock().unwrap();
            let started = Instant::now();
            let deadline = started + Duration::from_secs(20);
            let mut blocked_mode = false;
            loop {
                let running = (0..n).filter(|i| !st.finished[*i] && !st.parked[*i]).count();
                if running == 0 {
                    break;
                }
                // a running thread that does not come back to a scheduling point is waiting for a
                // lock held by a parked thread: let another parked thread go on as well
                let any_parked = (0..n).any(|i| st.parked[i] && !st.finished[i]);
                if any_parked && started.elapsed() > Duration::from_millis(60) {
                    blocked_mode = true;
                    break;
                }
                if Instant::now() > deadline {
                    stuck = true;
                    break;
                }
                let (g, _) = sched.cv.wait_timeout(st, Duration::from_millis(20)).unwrap();
                st = g;
            }
            if stuck {
                let handler = ON_STUCK.lock().unwrap().clone();
                if let Some(h) = handler {
                    let (e, d) = (st.events.clone(), st.decisions.clone());
                    drop(st);
                    h(&e, &d);
                    st = sched.st.lock().unwrap();
                }
                st.aborted = true;
                sched.cv.notify_all();
                break;
            }
            let ready: Vec<usize> = (0..n).filter(|i| !st.finished[*i] && st.parked[*i]).collect();
            if ready.is_empty() {
                if (0..n).all(|i| st.finished[i]) {
                    break;
                }
                continue;
            }
            if blocked_mode {
                st.blocked_grants += 1;
            }
            let pick = match policy {
                Policy::Random => ready[rng.below(ready.len())],
                Policy::Pct(_) => {
                    if change_points.contains(&step) {
                        // demote the currently highest-priority ready thread
                        let top = *ready.iter().max_by_key(|t| prio[**t]).unwrap();
                        prio[top] = 0;
                        for (i, p) in prio.iter_mut().enumerate() {
                            if i != top {
                                *p += 1;
                            }
                        }
                    }
                    *ready.iter().max_by_key(|t| prio[**t]).unwrap()
                }
            };
            st.decisions.push(pick);
            st.granted[pick] = true;
            st.parked[pick] = false;
            step += 1;
            sched.cv.notify_all();
        }
    });
    let st = sched.st.lock().unwrap();
    Outcome { events: st.events.clone(), decisions: st.decisions.clone(), stuck, blocked_grants: st.blocked_grants }
}

/// A scheduling point placed by the harness itself (before every client operation).
pub fn yield_point(sched: &Sched, tid: usize, name: &str) {
    sched.park(tid, name);
}

/// Free-running mode: the hook injects seeded yields / short sleeps on the calling thread.
pub fn install_delay_injection(seed: u64) {
    let ctr = std::sync::atomic::AtomicU64::new(seed);
    nundb::verif::set_point_callback(Some(Arc::new(move |_site: &str| {
        let x = ctr.fetch_add(0x9E3779B97F4A7C15, std::sync::atomic::Ordering::Relaxed);
        let mut z = x;
        z = (z ^ (z >> 30)).wrapping_mul(0xBF58476D1CE4E5B9);
        z = (z ^ (z >> 27)).wrapping_mul(0x94D049BB133111EB);
        z ^= z >> 31;
        match z % 16 {
            0..=5 => std::thread::yield_now(),
            6 => std::thread::sleep(Duration::from_micros(z % 200)),
            _ => {}
        }
    })));
}

pub fn clear_callback() {
    nundb::verif::set_point_callback(None);
}

/// Hash of the (thread, site) sequence = identity of an interleaving.
pub fn schedule_hash(events: &[Ev]) -> u64 {
    let mut s = String::new();
    for e in events {
        match e {
            Ev::Site(t, site) => {
                s.push_str(&format!("{}@{};", t, site));
            }
            Ev::Call(t, i, _) => s.push_str(&format!("{}c{};", t, i)),
            Ev::Ret(t, i, _) => s.push_str(&format!("{}r{};", t, i)),
        }
    }
    super::fnv(&s)
}
