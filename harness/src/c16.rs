//! C16 — after any restart the oplog is either discarded or still decodes correctly;
//! database and key identifiers stay unique.
//! (A) generated histories of create-db / first write of a new key / write of a known key /
//! snapshot of a subset / declutter / clean shutdown / restart, in-process; after every restart
//! every record of every oplog file is decoded through the restarted node's id maps and compared
//! with what the writer intended; id uniqueness is checked at every quiescent point.
//! (B) the same decode check after a kill at every system-call boundary of key-id registration,
//! flag update, key-map write and oplog append (Engine K).
use crate::common::evidence::Evidence;
use crate::common::kf::Verdicts;
use crate::common::node::{Node, NodeOpts};
use crate::common::rng::Rng;
use crate::common::session::Session;
use crate::common::*;
use crate::crash::*;
use nundb::bo::ClusterRole;
use serde_json::json;
use std::collections::{BTreeMap, BTreeSet};
use std::sync::Mutex;

#[derive(Clone, Debug)]
pub enum Op {
    CreateDb(usize),
    Write(usize, usize), // db, key index
    Remove(usize, usize),
    Snapshot(Vec<usize>),
    Declutter,
    CleanShutdownRestart,
    KillRestart,
    /// clean shutdown, then the saved key map is cut short before the start (a disk that filled up, a damaged copy of the
    /// data directory - not something a kill produces, see DESIGN 7.6 round 11): the node may refuse to start; if it
    /// starts, the usual alternative holds (log discarded, or every record decodes)
    DamagedKeyMapRestart,
}

const DBN: [&str; 4] = ["da", "db", "dc", "dd"];

/// (db name, key name or None for create-db / snapshot records)
type Intent = BTreeMap<u64, Vec<(String, Option<String>)>>;

fn record_intent(msg: &str, intent: &mut Intent) {
    // "rp <id> <command>"
    let mut p = msg.splitn(3, ' ');
    if p.next() != Some("rp") {
        return;
    }
    let id: u64 = match p.next().and_then(|x| x.parse().ok()) {
        Some(i) => i,
        None => return,
    };
    let cmd = p.next().unwrap_or("");
    let w: Vec<&str> = cmd.split(' ').collect();
    match w.first().cloned() {
        Some("replicate") | Some("replicate-increment") | Some("replicate-remove") if w.len() >= 3 => {
            intent.entry(id).or_default().push((w[1].to_string(), Some(w[2].to_string())));
        }
        Some("create-db") if w.len() >= 2 => {
            intent.entry(id).or_default().push((w[1].to_string(), None));
        }
        Some("replicate-snapshot") if w.len() >= 2 => {
            for d in w[1].split('|') {
                intent.entry(id).or_default().push((d.to_string(), None));
            }
        }
        _ => {}
    }
}

fn scan_oplog(dir: &str) -> Vec<(u64, u64, u64, u8)> {
    let mut files: Vec<(u64, String)> = vec![];
    if let Ok(rd) = std::fs::read_dir(format!("{}/oplog", dir)) {
        for e in rd.flatten() {
            let n = e.file_name().to_string_lossy().to_string();
            if n.ends_with(".op") {
                let ts: u64 = n.trim_start_matches("oplog-nun-").trim_end_matches(".op").parse().unwrap_or(0);
                files.push((ts, format!("{}/oplog/{}", dir, n)));
            }
        }
    }
    files.sort();
    files.push((u64::MAX, format!("{}/oplog-nun.op", dir)));
    let mut out = vec![];
    for (_, f) in files {
        let bytes = std::fs::read(&f).unwrap_or_default();
        for c in bytes.chunks(25) {
            if c.len() == 25 {
                out.push((u64::from_le_bytes(c[0..8].try_into().unwrap()), u64::from_le_bytes(c[8..16].try_into().unwrap()), u64::from_le_bytes(c[16..24].try_into().unwrap()), c[24]));
            }
        }
    }
    out
}

/// Decode every record of the log the node will use through its id maps. Returns problems.
pub fn decode_check(node: &Node, intent: &Intent, after: &str, persisted: &BTreeSet<String>) -> Vec<(serde_json::Value, serde_json::Value)> {
    let mut problems = vec![];
    let recs = scan_oplog(&node.dir);
    let id_keys = node.dbs.id_keys_map.read().unwrap().clone();
    let id_dbs = node.dbs.id_name_db_map.read().unwrap().clone();
    for (time, key_id, db_id, op) in recs {
        let Some(ints) = intent.get(&time) else { continue };
        let db_name = id_dbs.get(&db_id);
        let is_key_op = op == 0 || op == 1;
        let matching = ints.iter().find(|(d, k)| {
            Some(d) == db_name && (!is_key_op || k.as_ref() == id_keys.get(&key_id))
        });
        if matching.is_some() {
            continue;
        }
        // classify
        let db_ok = ints.iter().any(|(d, _)| Some(d) == db_name);
        let problem = if !db_ok {
            if db_name.is_none() { "record-decodes-to-no-database" } else { "record-decodes-to-another-database" }
        } else if id_keys.get(&key_id).is_none() {
            "record-decodes-to-no-key"
        } else {
            "record-decodes-to-another-key"
        };
        // was the database the record was written for ever persisted (snapshot completed) before this restart?
        let intended_db_persisted = ints.iter().all(|(d, _)| persisted.contains(d));
        let sig = json!({"check": "oplog-ids", "problem": problem, "after": after, "record_kind": match op { 0 => "update", 1 => "remove", 2 => "create-db", _ => "snapshot" }, "intended_database_was_snapshotted": intended_db_persisted});
        problems.push((sig, json!({"record": [time, key_id, db_id, op], "intended": ints, "decoded_db": db_name, "decoded_key": id_keys.get(&key_id), "id_name_db_map": id_dbs.iter().map(|(k, v)| (k.to_string(), v.clone())).collect::<BTreeMap<_, _>>()})));
        if problems.len() >= 3 {
            break;
        }
    }
    problems
}

/// Unique database ids / key ids right now?
pub fn uniqueness_check(node: &Node, when: &str) -> Option<(serde_json::Value, serde_json::Value)> {
    let map = node.dbs.map.read().unwrap();
    let mut seen: BTreeMap<usize, String> = BTreeMap::new();
    for (n, d) in map.iter() {
        if let Some(other) = seen.insert(d.metadata.id, n.clone()) {
            let admin = n == "$admin" || other == "$admin";
            return Some((json!({"check": "oplog-ids", "problem": "two-databases-share-an-id", "when": when, "involves_admin_db": admin}), json!({"id": d.metadata.id, "databases": [other, n]})));
        }
    }
    let km = node.dbs.keys_map.read().unwrap();
    let mut ks: BTreeMap<u64, String> = BTreeMap::new();
    for (k, id) in km.iter() {
        if let Some(other) = ks.insert(*id, k.clone()) {
            return Some((json!({"check": "oplog-ids", "problem": "two-keys-share-an-id", "when": when}), json!({"id": id, "keys": [other, k]})));
        }
    }
    None
}

fn start_node(dir: &str) -> Node {
    let mut o = NodeOpts::simple(dir);
    o.load_from_disk = true;
    o.real_loop = true;
    let n = Node::start(o);
    n.set_role(ClusterRole::Primary);
    n
}

pub static REFUSED_DAMAGED: std::sync::atomic::AtomicU64 = std::sync::atomic::AtomicU64::new(0);
pub static STARTED_DAMAGED: std::sync::atomic::AtomicU64 = std::sync::atomic::AtomicU64::new(0);

pub struct Stats {
    pub histories: u64,
    pub restarts: u64,
    pub records_decoded: u64,
    pub logs_discarded: u64,
    pub shapes: BTreeSet<String>,
    pub samples: Vec<serde_json::Value>,
}

fn run_history(ops: &[Op], dir: &str, v: &Verdicts, st: &Mutex<Stats>) {
    let mut node = Some(start_node(dir));
    let mut adm = Session::new();
    adm.call(&node.as_ref().unwrap().dbs, "auth admin pwd");
    let mut intent: Intent = BTreeMap::new();
    let mut consumed = 0usize;
    let mut trace = vec![];
    let mut shape = vec![];
    let mut restarts = 0u64;
    let mut decoded = 0u64;
    let mut discarded = 0u64;
    let mut ops_v = ops.to_vec();
    ops_v.push(Op::KillRestart);
    let mut pending_snap: BTreeSet<String> = BTreeSet::new();
    let mut persisted: BTreeSet<String> = BTreeSet::new();
    'h: for op in &ops_v {
        let n = node.as_mut().unwrap();
        let dbs = n.dbs.clone();
        match op {
            Op::CreateDb(d) => {
                let r = adm.call(&dbs, &format!("create-db {} t", DBN[*d]));
                trace.push(json!([format!("create-db {}", DBN[*d]), r.resp]));
                shape.push("create-db");
            }
            Op::Write(d, k) | Op::Remove(d, k) => {
                if !dbs.has_db(DBN[*d]) {
                    continue;
                }
                adm.call(&dbs, &format!("use-db {} t", DBN[*d]));
                let known = dbs.keys_map.read().unwrap().contains_key(&format!("key{}", k));
                let line = if let Op::Write(..) = op { format!("set key{} v{}", k, trace.len()) } else { format!("remove key{}", k) };
                let r = adm.call(&dbs, &line);
                trace.push(json!([format!("{}: {}", DBN[*d], line), r.resp]));
                shape.push(if known { "write-known-key" } else { "write-new-key" });
            }
            Op::Snapshot(ds) => {
                let names: Vec<&str> = ds.iter().filter(|d| dbs.has_db(DBN[**d])).map(|d| DBN[*d]).collect();
                if names.is_empty() {
                    continue;
                }
                let r = adm.call(&dbs, &format!("snapshot false {}", names.join("|")));
                trace.push(json!([format!("snapshot false {}", names.join("|")), r.resp]));
                for n in &names {
                    pending_snap.insert(n.to_string());
                }
                shape.push("snapshot-subset");
            }
            Op::Declutter => {
                n.declutter();
                persisted.append(&mut pending_snap);
                trace.push(json!(["declutter"]));
                shape.push("declutter");
            }
            Op::CleanShutdownRestart | Op::KillRestart | Op::DamagedKeyMapRestart => {
                n.pump();
                for m in &n.repl_log[consumed..] {
                    record_intent(m, &mut intent);
                }
                if let Op::CleanShutdownRestart | Op::DamagedKeyMapRestart = op {
                    n.safe_shutdown();
                    persisted.append(&mut pending_snap);
                    shape.push(if let Op::DamagedKeyMapRestart = op { "clean-stop-then-damaged-key-map" } else { "clean-restart" });
                } else {
                    pending_snap.clear();
                    shape.push("kill-restart");
                }
                node = None;
                let mut damaged = false;
                if let Op::DamagedKeyMapRestart = op {
                    let f = format!("{}/keys-nun.keys", dir);
                    if let Ok(bytes) = std::fs::read(&f) {
                        if bytes.len() >= 12 {
                            let _ = std::fs::write(&f, &bytes[..bytes.len() / 2 + 1]);
                            damaged = true;
                        }
                    }
                }
                let res = std::panic::catch_unwind(|| start_node(dir));
                let n2 = match res {
                    Ok(n2) => n2,
                    Err(_) if damaged => {
                        // refusing to start on a key map that cannot be read is the loud outcome
                        REFUSED_DAMAGED.fetch_add(1, std::sync::atomic::Ordering::Relaxed);
                        break 'h;
                    }
                    Err(e) => {
                        v.report(json!({"check": "oplog-ids", "problem": "restart-fails", "after": shape.last().unwrap()}), json!({"ops": format!("{:?}", ops), "trace": trace, "msg": panic_msg(&e)}));
                        break 'h;
                    }
                };
                if damaged {
                    STARTED_DAMAGED.fetch_add(1, std::sync::atomic::Ordering::Relaxed);
                }
                consumed = 0;
                restarts += 1;
                trace.push(json!([format!("{:?}", op), format!("oplog valid after restart: {}", n2.dbs.is_oplog_valid.load(std::sync::atomic::Ordering::SeqCst))]));
                let recs = scan_oplog(dir).len();
                if recs == 0 {
                    discarded += 1;
                } else {
                    decoded += recs as u64;
                }
                let mut stop = false;
                for (sig, rp) in decode_check(&n2, &intent, shape.last().unwrap(), &persisted) {
                    let mut rp = rp;
                    rp["ops"] = json!(format!("{:?}", ops));
                    rp["trace"] = json!(trace);
                    if !v.report(sig, rp) {
                        stop = true;
                    }
                }
                node = Some(n2);
                adm = Session::new();
                adm.call(&node.as_ref().unwrap().dbs, "auth admin pwd");
                if stop {
                    break 'h;
                }
            }
        }
        if let Some(n) = node.as_mut() {
            n.pump();
            for m in &n.repl_log[consumed..] {
                record_intent(m, &mut intent);
            }
            consumed = n.repl_log.len();
            if let Some((sig, rp)) = uniqueness_check(n, "quiescent-point") {
                let mut rp = rp;
                rp["ops"] = json!(format!("{:?}", ops));
                rp["trace"] = json!(trace);
                if !v.report(sig, rp) {
                    break 'h;
                }
            }
        }
    }
    let mut s = st.lock().unwrap();
    s.histories += 1;
    s.restarts += restarts;
    s.records_decoded += decoded;
    s.logs_discarded += discarded;
    // shape: compressed
    shape.dedup();
    s.shapes.insert(shape.join(">"));
    if s.samples.len() < 3 && restarts > 1 {
        s.samples.push(json!({"ops": format!("{:?}", ops), "trace": trace}));
    }
}

fn random_op(r: &mut Rng) -> Op {
    match r.below(20) {
        0..=3 => Op::CreateDb(r.below(4)),
        4..=10 => Op::Write(r.below(4), r.below(6)),
        11 => Op::Remove(r.below(4), r.below(6)),
        12..=14 => {
            let n = r.range(1, 2);
            Op::Snapshot((0..n).map(|_| r.below(4)).collect())
        }
        15..=16 => Op::Declutter,
        17 => Op::CleanShutdownRestart,
        18 if r.chance(1, 3) => Op::DamagedKeyMapRestart,
        _ => Op::KillRestart,
    }
}

// ------------------------------------------------------------------ (B) kills
/// Child: `nunverif c16-child x <variant> <dir>`; prints INTENT lines, then the window.
pub fn child(args: &[String]) -> i32 {
    let variant: usize = args[3].parse().unwrap();
    let dir = args[4].clone();
    let mut node = start_node(&dir);
    let dbs = node.dbs.clone();
    let mut adm = Session::new();
    adm.call(&dbs, "auth admin pwd");
    let mut run = |node: &mut Node, adm: &mut Session, lines: &[&str]| {
        for l in lines {
            adm.call(&dbs, l);
            node.pump();
        }
    };
    // valid state on disk: two databases, two known keys, key map saved, flag valid
    run(&mut node, &mut adm, &["create-db da t", "create-db db t", "use-db da t", "set key0 a", "set key1 b", "snapshot false da|db"]);
    node.declutter();
    use std::io::Write;
    let emit = |node: &Node| {
        let mut intent: Intent = BTreeMap::new();
        for m in &node.repl_log {
            record_intent(m, &mut intent);
        }
        println!("INTENT {}", json!(intent.iter().map(|(k, v)| (k.to_string(), v.clone())).collect::<BTreeMap<_, _>>()));
        std::io::stdout().flush().ok();
    };
    match variant {
        0 => {
            // first write of new keys goes through the loop: flag invalidation + oplog append
            adm.call(&dbs, "set key7 n");
            adm.call(&dbs, "use-db db t");
            adm.call(&dbs, "set key8 m");
            // (the messages are queued; their ids are known before the loop handles them)
            let mut queued = vec![];
            while let Some(m) = node.take_repl() {
                queued.push(m);
            }
            let mut intent: Intent = BTreeMap::new();
            for m in node.repl_log.iter().chain(queued.iter()) {
                record_intent(m, &mut intent);
            }
            println!("INTENT {}", json!(intent.iter().map(|(k, v)| (k.to_string(), v.clone())).collect::<BTreeMap<_, _>>()));
            std::io::stdout().flush().ok();
            let _ = std::fs::remove_file("/MARK-BEGIN");
            for m in queued {
                node.feed_repl(m);
            }
            let _ = std::fs::remove_file("/MARK-END");
        }
        1 => {
            // new keys are registered, then the key map is saved and the flag set valid by a snapshot
            run(&mut node, &mut adm, &["set key7 n", "set key8 m", "snapshot false da"]);
            emit(&node);
            let _ = std::fs::remove_file("/MARK-BEGIN");
            node.declutter();
            let _ = std::fs::remove_file("/MARK-END");
        }
        _ => {
            // clean shutdown after new keys and a new database
            run(&mut node, &mut adm, &["create-db dc t", "use-db dc t", "set key9 z", "set key0 y"]);
            emit(&node);
            let _ = std::fs::remove_file("/MARK-BEGIN");
            node.safe_shutdown();
            let _ = std::fs::remove_file("/MARK-END");
        }
    }
    0
}

/// Loader after a kill: `nunverif c16-load x <intent-json> <dir>` prints problems as JSON.
pub fn load_child(args: &[String]) -> i32 {
    let intent_json: BTreeMap<String, Vec<(String, Option<String>)>> = serde_json::from_str(&args[3]).unwrap_or_default();
    let intent: Intent = intent_json.into_iter().map(|(k, v)| (k.parse().unwrap_or(0), v)).collect();
    let node = start_node(&args[4]);
    let mut out = vec![];
    let persisted: BTreeSet<String> = ["da".to_string(), "db".to_string()].into_iter().collect();
    for (sig, rp) in decode_check(&node, &intent, "kill", &persisted) {
        out.push(json!({"sig": sig, "replay": rp}));
    }
    if let Some((sig, rp)) = uniqueness_check(&node, "after-kill-restart") {
        out.push(json!({"sig": sig, "replay": rp}));
    }
    println!("RESULT {}", json!({"problems": out, "records": scan_oplog(&args[4]).len(), "valid": node.dbs.is_oplog_valid.load(std::sync::atomic::Ordering::SeqCst)}));
    0
}

fn kills(v: &Verdicts, thorough: bool) -> (u64, u64, BTreeSet<String>, Vec<serde_json::Value>) {
    let mut judged = 0u64;
    let mut outside = 0u64;
    let mut distinct = BTreeSet::new();
    let mut samples = vec![];
    if !strace_available() {
        v.inconclusive("strace is not available");
        return (0, 0, distinct, samples);
    }
    struct P {
        variant: usize,
        kind: String,
        n: usize,
    }
    let mut points = vec![];
    for variant in 0..3usize {
        let dir = fresh_dir(&format!("c16-ref-{}", variant));
        let log = format!("{}.strace", dir);
        let r = run_child("c16-child", &variant.to_string(), &dir, None, &log);
        let (calls, b, e, _) = parse_log(&log);
        if !r.status_ok || b.is_none() || e.is_none() {
            v.inconclusive(&format!("reference run of kill variant {} failed", variant));
            continue;
        }
        let mut per_kind: BTreeMap<String, (usize, usize)> = BTreeMap::new();
        for c in &calls[b.unwrap() + 1..e.unwrap()] {
            let ent = per_kind.entry(c.kind.clone()).or_insert((c.ordinal, c.ordinal));
            ent.0 = ent.0.min(c.ordinal);
            ent.1 = ent.1.max(c.ordinal);
        }
        for (k, (lo, hi)) in per_kind {
            for n in lo.saturating_sub(1).max(1)..=hi + 1 {
                for _ in 0..(if thorough { 3 } else { 1 }) {
                    points.push(P { variant, kind: k.clone(), n });
                }
            }
        }
    }
    let res = Mutex::new((&mut judged, &mut outside, &mut distinct, &mut samples));
    let next = std::sync::atomic::AtomicUsize::new(0);
    std::thread::scope(|sc| {
        for w in 0..workers() {
            let (next, points, res, v) = (&next, &points, &res, &v);
            sc.spawn(move || loop {
                let i = next.fetch_add(1, std::sync::atomic::Ordering::SeqCst);
                if i >= points.len() {
                    break;
                }
                let p = &points[i];
                let dir = fresh_dir(&format!("c16-k{}", w));
                let log = format!("{}.strace", dir);
                let r = run_child("c16-child", &p.variant.to_string(), &dir, Some((&p.kind, p.n)), &log);
                let (calls, b, e, killed) = parse_log(&log);
                let in_window = killed && b.is_some() && e.is_none() && b.unwrap() + 1 < calls.len();
                if !in_window {
                    *res.lock().unwrap().1 += 1;
                    let _ = std::fs::remove_dir_all(&dir);
                    let _ = std::fs::remove_file(&log);
                    continue;
                }
                let intent = r.stdout.lines().find(|l| l.starts_with("INTENT ")).map(|l| l[7..].to_string()).unwrap_or("{}".into());
                let killed_call = calls.last().unwrap().clone();
                let exe = std::env::current_exe().unwrap();
                let mut cmd = std::process::Command::new(exe);
                cmd.args(["c16-load", "x", &intent, &dir]);
                cap_child_memory(&mut cmd);
                let out = cmd.output().unwrap();
                let stdout = String::from_utf8_lossy(&out.stdout).to_string();
                let result = stdout.lines().find(|l| l.starts_with("RESULT ")).and_then(|l| serde_json::from_str::<serde_json::Value>(&l[7..]).ok());
                {
                    let mut g = res.lock().unwrap();
                    *g.0 += 1;
                    g.2.insert(format!("v{}|{}:{}|{}", p.variant, killed_call.kind, killed_call.role, calls.len() - 1 - (b.unwrap() + 1)));
                    if g.3.len() < 3 {
                        g.3.push(json!({"variant": p.variant, "killed_on_entry_to": killed_call.line, "loader_says": result}));
                    }
                }
                let variant_name = ["loop-registers-new-keys", "snapshot-saves-key-map", "clean-shutdown"][p.variant];
                match result {
                    None => {
                        let err = String::from_utf8_lossy(&out.stderr).to_string();
                        let how = if err.contains("memory allocation") { "abort-alloc" } else { "panic" };
                        v.report(json!({"check": "oplog-ids", "problem": "restart-fails", "after": "kill", "variant": variant_name, "killed_before": format!("{}:{}", killed_call.kind, killed_call.role), "how": how}),
                            json!({"inject": format!("{}:when={}", p.kind, p.n), "killed_on_entry_to": killed_call.line, "stderr": err.lines().filter(|l| l.contains("panicked") || l.contains("alloc")).collect::<Vec<_>>()}));
                    }
                    Some(doc) => {
                        for pr in doc["problems"].as_array().cloned().unwrap_or_default() {
                            let mut sig = pr["sig"].clone();
                            sig["variant"] = json!(variant_name);
                            sig["killed_before"] = json!(format!("{}:{}", killed_call.kind, killed_call.role));
                            let mut rp = pr["replay"].clone();
                            rp["inject"] = json!(format!("{}:when={}", p.kind, p.n));
                            rp["killed_on_entry_to"] = json!(killed_call.line);
                            rp["window_calls_completed"] = json!(calls[b.unwrap() + 1..calls.len() - 1].iter().map(|c| c.line.clone()).collect::<Vec<_>>());
                            v.report(sig, rp);
                        }
                    }
                }
                let _ = std::fs::remove_dir_all(&dir);
                let _ = std::fs::remove_file(&log);
            });
        }
    });
    drop(res);
    (judged, outside, distinct, samples)
}


/// (A) of the check: systematic + random histories on this process's configuration. Returns the number of systematic cases.
fn histories(v: &Verdicts, st: &Mutex<Stats>, n_random: usize) -> usize {
    let mut rng = Rng::new(seed());
    let mut cases: Vec<Vec<Op>> = vec![];
    // systematic: create 1-3 dbs, write, snapshot a subset, restart (clean|kill), create another db, write
    for ndb in 1..=3usize {
        for subset in 0..(1usize << ndb) {
            for clean in [false, true] {
                let mut ops: Vec<Op> = (0..ndb).map(Op::CreateDb).collect();
                for d in 0..ndb {
                    ops.push(Op::Write(d, d));
                    ops.push(Op::Write(d, 5));
                }
                let ds: Vec<usize> = (0..ndb).filter(|d| subset & (1 << d) != 0).collect();
                if !ds.is_empty() {
                    ops.push(Op::Snapshot(ds));
                    ops.push(Op::Declutter);
                }
                ops.push(if clean { Op::CleanShutdownRestart } else { Op::KillRestart });
                ops.push(Op::CreateDb(3));
                ops.push(Op::Write(3, 4));
                ops.push(Op::Write(0, 3));
                ops.push(Op::Snapshot(vec![3]));
                ops.push(Op::Declutter);
                cases.push(ops);
            }
        }
    }
    let systematic = cases.len();
    for _ in 0..n_random {
        let len = rng.range(4, 24);
        cases.push((0..len).map(|_| random_op(&mut rng)).collect());
    }
    let next = std::sync::atomic::AtomicUsize::new(0);
    std::thread::scope(|sc| {
        for w in 0..workers() {
            let (next, v, st, cases) = (&next, v, st, &cases);
            sc.spawn(move || {
                let dir = fresh_dir(&format!("c16-w{}", w));
                loop {
                    let i = next.fetch_add(1, std::sync::atomic::Ordering::SeqCst);
                    if i >= cases.len() {
                        break;
                    }
                    let _ = std::fs::remove_dir_all(&dir);
                    std::fs::create_dir_all(&dir).unwrap();
                    run_history(&cases[i], &dir, v, st);
                }
            });
        }
    });
    systematic
}

/// The same histories in a child process whose operation log rotates after every second record
/// (NUN_MAX_OP_LOG_SIZE is read once per process): discarding, decoding and id re-use are judged with rotated
/// segments on disk. Returns (histories, restarts, records decoded) of the child.
fn small_log_part(v: &Verdicts, tier: &str) -> (u64, u64, u64) {
    let exe = std::env::current_exe().unwrap();
    let out = std::process::Command::new(&exe)
        .args(["c16-small", tier, &seed().to_string()])
        .env("NUN_MAX_OP_LOG_SIZE", "500")
        .env("VERIF_SEED", seed().to_string())
        .output();
    let Ok(o) = out else {
        v.inconclusive("small-log child could not be started");
        return (0, 0, 0);
    };
    let txt = String::from_utf8_lossy(&o.stdout).to_string();
    let Some(doc) = txt.lines().rev().find_map(|l| serde_json::from_str::<serde_json::Value>(l).ok()) else {
        v.inconclusive(&format!("small-log child gave no result: {}", String::from_utf8_lossy(&o.stderr).lines().last().unwrap_or("")));
        return (0, 0, 0);
    };
    for r in doc["reports"].as_array().cloned().unwrap_or_default() {
        let mut sig = r["signature"].clone();
        sig["operation_log"] = json!("rotates-after-two-records");
        v.report(sig, r["case"].clone());
    }
    (doc["histories"].as_u64().unwrap_or(0), doc["restarts"].as_u64().unwrap_or(0), doc["records_decoded"].as_u64().unwrap_or(0))
}

pub fn small_child(args: &[String]) -> i32 {
    quiet_panics();
    let thorough = args.get(2).map(|s| s == "thorough").unwrap_or(false);
    let v = Verdicts::load("C16-small-log-child");
    let st = Mutex::new(Stats { histories: 0, restarts: 0, records_decoded: 0, logs_discarded: 0, shapes: BTreeSet::new(), samples: vec![] });
    histories(&v, &st, if thorough { 20_000 } else { 1_500 });
    let s = st.into_inner().unwrap();
    cleanup_scratch();
    println!("{}", json!({"histories": s.histories, "restarts": s.restarts, "records_decoded": s.records_decoded, "reports": v.reports_json()}));
    0
}

pub fn run(tier: &str) -> i32 {
    quiet_panics();
    let thorough = tier == "thorough";
    let v = Verdicts::load("C16");
    let mut ev = Evidence::new("C16", tier, "fault_enumeration");
    let st = Mutex::new(Stats { histories: 0, restarts: 0, records_decoded: 0, logs_discarded: 0, shapes: BTreeSet::new(), samples: vec![] });
    let systematic = histories(&v, &st, if thorough { 60_000 } else { 4_000 });
    let n_random = if thorough { 60_000 } else { 4_000 };
    let small = small_log_part(&v, tier);
    let (judged, outside, kdistinct, ksamples) = kills(&v, thorough);
    let s = st.into_inner().unwrap();
    ev.evaluations = s.histories + judged;
    ev.distinct_nontrivial = s.shapes.len() as u64 + kdistinct.len() as u64;
    ev.rule = format!("(A) {} systematic histories (1-3 databases, every subset snapshotted, clean or abrupt restart, then a new database and new keys) + {} random histories of 4-24 steps over 4 databases x 6 keys; writer intent = the rp messages fed to the real replication loop; after every restart every oplog record is decoded through the restarted node's id maps; id uniqueness checked at every quiescent point. (B) {} kill points (every write/pwrite/openat/rename/unlink boundary inside: the loop registering two new keys; the snapshot that saves the key map and sets the flag; a clean shutdown), each followed by a fresh-process restart + decode check ({} kills outside the window discarded). distinct_nontrivial = distinct compressed history shapes + distinct (variant, killed call:role, calls completed) kill points", systematic, n_random, judged, outside);
    ev.samples = s.samples.iter().cloned().chain(ksamples.into_iter()).take(6).collect();
    ev.set("restarts_checked", json!(s.restarts));
    ev.set("records_decoded_after_restart", json!(s.records_decoded));
    ev.set("restarts_that_found_the_log_discarded_or_empty", json!(s.logs_discarded));
    ev.set("kill_points_judged", json!(judged));
    ev.set("child_with_a_log_that_rotates_after_two_records", json!({"histories": small.0, "restarts_checked": small.1, "records_decoded_after_restart": small.2}));
    ev.set("restarts_on_a_key_map_cut_short", json!({"start_refused": REFUSED_DAMAGED.load(std::sync::atomic::Ordering::Relaxed), "started_and_judged": STARTED_DAMAGED.load(std::sync::atomic::Ordering::Relaxed)}));
    ev.set("known_findings_seen", json!(v.known_seen()));
    // Engine R: the start-up sequence of src/bin/main.rs itself, across two restarts of a real process
    let real = crate::realparts::c16_real(&v, if thorough { 64 } else { 8 }, seed());
    ev.set("real_processes", real.to_json());
    ev.violations = v.violation_count();
    ev.assumptions = vec![
        "restart mirrors src/bin/main.rs (load key map, read flag, clean metadata if invalid, create dbs, load all dbs)".into(),
        "create-db and snapshot records carry fixed key ids (1, 2): only their database id is decoded".into(),
    ];
    ev.write();
    cleanup_scratch();
    let code = v.finish(tier);
    if code == 0 && (s.restarts < 1000 || judged < 30 || v.inconclusive_count() > 0) {
        println!("INCONCLUSIVE property=C16 reason=coverage floor not met ({} restarts, {} kill points)", s.restarts, judged);
        return 2;
    }
    println!("C16 {}: {} histories, {} restarts, {} records decoded, {} shapes; {} kill points judged ({} outside); {} violations", tier, s.histories, s.restarts, s.records_decoded, s.shapes.len(), judged, outside, v.violation_count());
    code
}
