//! C13 — arbiter databases never apply or lose a conflicting write silently.
//! Single node: generated sequences of plain / versioned writes on 1-2 keys
//! interleaved with arbiter connect / disconnect and resolves (the scripted
//! arbiter answers the notices it received, echoing op id and version); a
//! ConflictQueueModel is checked after every step. Cluster (Engine N): the same
//! with the arbiter attached to the primary or to a secondary; at quiescence
//! every replica must hold the resolved value and nothing may be pending.
use crate::c02::mem_node;
use crate::c04::form_cluster;
use crate::cluster::*;
use crate::common::evidence::Evidence;
use crate::common::kf::Verdicts;
use crate::common::rng::Rng;
use crate::common::session::Session;
use crate::common::*;
use serde_json::json;
use std::collections::{BTreeMap, BTreeSet, VecDeque};
use std::sync::Mutex;

#[derive(Clone, Debug)]
pub enum Op {
    Set(usize),            // plain write to key i
    SetSafe(usize, i32),   // versioned write relative to the current reported version: -1 (stale), 0 (current), +1
    /// plain write (false) / versioned write with the version last reported (true) whose value is the one the key
    /// holds right now: a client re-asserting or retrying; while a conflict is pending it is a later write like any other
    SetSame(usize, bool),
    ArbiterConnect,
    ArbiterDisconnect,
    /// the arbiter answers the oldest (true) or newest (false) unanswered notice it holds
    Resolve(bool),
    /// the arbiter answers the newest notice it holds wherever that conflict stands in its key's queue (out of order)
    ResolveNewest,
    Get(usize),
}

const KEYS: [&str; 2] = ["alpha", "bravo"];

#[derive(Clone, Debug)]
struct Notice {
    opid: String,
    db: String,
    version: String,
    key: String,
    proposed: String,
    raw: String,
}

fn parse_notice(l: &str) -> Option<Notice> {
    // resolve <opid> <db> <version> <key> <old value or conflict key> <value>
    let p: Vec<&str> = l.trim().split(' ').collect();
    if p.len() >= 7 && p[0] == "resolve" {
        Some(Notice { opid: p[1].into(), db: p[2].into(), version: p[3].into(), key: p[4].into(), proposed: p[6..].join(" "), raw: l.trim().to_string() })
    } else {
        None
    }
}

struct KeyModel {
    value: Option<String>,
    /// unresolved conflicts in order: proposed values
    queue: VecDeque<String>,
}

pub struct Stats {
    pub sequences: u64,
    pub steps: u64,
    pub shapes: BTreeSet<String>,
    pub conflicts: u64,
    pub resolves: u64,
    pub samples: Vec<serde_json::Value>,
    pub cluster_runs: u64,
    pub inconclusive: u64,
}

fn run_sequence(ops: &[Op], v: &Verdicts, st: &Mutex<Stats>) {
    let (mut node, mut adm) = mem_node(&[("arb", "arbiter")]);
    let dbs = node.dbs.clone();
    let mut writer = Session::new();
    writer.call(&dbs, "use-db arb tok");
    let mut arbiter: Option<Session> = None;
    let mut arbiter_ever = false;
    let mut inbox: VecDeque<Notice> = VecDeque::new(); // notices the current arbiter holds and has not answered
    let mut model: BTreeMap<String, KeyModel> = KEYS.iter().map(|k| (k.to_string(), KeyModel { value: None, queue: VecDeque::new() })).collect();
    let mut trace: Vec<serde_json::Value> = vec![];
    let mut shape: Vec<&'static str> = vec![];
    let mut uniq = 0;
    let mut conflicts = 0u64;
    let mut resolves = 0u64;
    let desc: Vec<String> = ops.iter().map(|o| format!("{:?}", o)).collect();
    let fail = |v: &Verdicts, problem: &str, ctx: &str, detail: String, trace: &Vec<serde_json::Value>| {
        v.report(json!({"check": "arbiter", "mode": "single-node", "problem": problem, "context": ctx}), json!({"ops": desc, "trace": trace, "detail": detail}));
    };
    let cur = |s: &mut Session, k: &str| -> (String, i32) {
        match s.call_raw(&dbs, &format!("get-safe {}", k)) {
            nundb::bo::Response::Value { value, version, .. } => {
                s.drain();
                (value, version)
            }
            _ => {
                s.drain();
                ("?".into(), 0)
            }
        }
    };
    'ops: for op in ops {
        match op {
            Op::Get(i) => {
                let (val, ver) = cur(&mut writer, KEYS[*i]);
                let m = &model[KEYS[*i]];
                let want = m.value.clone().unwrap_or("<Empty>".into());
                trace.push(json!({"get-safe": KEYS[*i], "value": val, "version": ver}));
                if val != want {
                    fail(v, "key-does-not-hold-the-modelled-value", if m.queue.is_empty() { "no-conflict-pending" } else { "conflict-pending" }, format!("{}: holds {:?}, model {:?}", KEYS[*i], val, want), &trace);
                    break 'ops;
                }
                if m.queue.is_empty() && ver == -2 {
                    fail(v, "key-still-in-conflict-resolution-although-nothing-is-pending", "no-conflict-pending", format!("{} version -2", KEYS[*i]), &trace);
                    break 'ops;
                }
            }
            Op::Set(i) | Op::SetSafe(i, _) | Op::SetSame(i, _) => {
                uniq += 1;
                let k = KEYS[*i];
                let (before_val, before_ver) = cur(&mut writer, k);
                // queued proposals are told apart by their values: the held value is proposed again only if it is not
                // queued already
                let same = match (op, &model[k].value) {
                    (Op::SetSame(..), Some(held)) if !model[k].queue.contains(held) => Some(held.clone()),
                    _ => None,
                };
                let value = same.clone().unwrap_or(format!("w{}", uniq));
                let (line, versioned_conflict) = match op {
                    Op::Set(_) | Op::SetSame(_, false) => (format!("set {} {}", k, value), false),
                    Op::SetSame(_, true) => (format!("set-safe {} {} {}", k, before_ver.max(0), value), model[k].value.is_some() && before_ver == -2),
                    Op::SetSafe(_, rel) => {
                        let ver = if before_ver < 0 { 0 } else { (before_ver + rel).max(0) };
                        (format!("set-safe {} {} {}", k, ver, value), model[k].value.is_some() && (before_ver == -2 || ver < before_ver))
                    }
                    _ => unreachable!(),
                };
                let in_conflict = !model[k].queue.is_empty();
                let r = writer.call(&dbs, &line);
                node.pump();
                let (after_val, after_ver) = cur(&mut writer, k);
                trace.push(json!({"line": line, "reply": r.resp, "before": [before_val, before_ver], "after": [after_val, after_ver]}));
                let expect_conflict = in_conflict || versioned_conflict;
                let ctx = if in_conflict && same.is_some() { "key-already-in-conflict/write-of-the-value-it-holds" } else if in_conflict { "key-already-in-conflict" } else if versioned_conflict { "stale-versioned-write" } else { "ordinary-write" };
                shape.push(if !expect_conflict { "write-ok" } else if !arbiter_ever { "conflict-no-arbiter" } else if arbiter.is_some() { "conflict-arbiter-connected" } else { "conflict-arbiter-away" });
                if !expect_conflict {
                    // an ordinary accepted write
                    if r.resp != "Ok" || after_val != value {
                        fail(v, "non-conflicting-write-not-applied", ctx, format!("reply {} value after {:?}", r.resp, after_val), &trace);
                        break 'ops;
                    }
                    model.get_mut(k).unwrap().value = Some(value);
                    continue;
                }
                // a conflicting write
                if r.resp == "Ok" {
                    fail(v, "conflicting-write-applied-silently", ctx, format!("reply Ok, key now {:?}", after_val), &trace);
                    break 'ops;
                }
                if after_val != before_val {
                    fail(v, "conflicting-write-changed-the-key", ctx, format!("{:?} -> {:?}", before_val, after_val), &trace);
                    break 'ops;
                }
                if !arbiter_ever {
                    // refused with an error, nothing recorded
                    if !r.resp.starts_with("Error An conflitct") {
                        fail(v, "conflict-without-arbiter-not-refused", ctx, r.resp.clone(), &trace);
                        break 'ops;
                    }
                    continue;
                }
                conflicts += 1;
                if !r.resp.starts_with("Error $$conflitct unresolved $conflicts_") {
                    fail(v, "conflict-neither-refused-nor-recorded", ctx, r.resp.clone(), &trace);
                    break 'ops;
                }
                let ckey = r.resp.rsplit(' ').next().unwrap_or("").to_string();
                let rec = adm_get(&mut adm, &dbs, &ckey);
                if !rec.ends_with(&format!(" {}", value)) || !rec.starts_with("resolve ") {
                    fail(v, "conflict-record-missing-or-wrong", ctx, format!("{} = {:?}", ckey, rec), &trace);
                    break 'ops;
                }
                model.get_mut(k).unwrap().queue.push_back(value.clone());
                // delivered to the connected arbiter
                if let Some(a) = arbiter.as_mut() {
                    let got: Vec<Notice> = a.drain().iter().filter_map(|l| parse_notice(l)).collect();
                    let mine: Vec<&Notice> = got.iter().filter(|n| n.proposed == value && n.key == k).collect();
                    if mine.len() != 1 {
                        fail(v, "conflict-not-delivered-to-the-connected-arbiter", ctx, format!("arbiter received {:?}", got.iter().map(|n| n.raw.clone()).collect::<Vec<_>>()), &trace);
                        break 'ops;
                    }
                    for n in got {
                        inbox.push_back(n);
                    }
                }
            }
            Op::ArbiterConnect => {
                if arbiter.is_some() {
                    continue;
                }
                let mut a = Session::new();
                a.call(&dbs, "use-db arb tok");
                let r = a.call(&dbs, "arbiter");
                // a (re)connecting arbiter is sent exactly the unresolved conflicts
                let got: Vec<Notice> = r.pushed.iter().filter_map(|l| parse_notice(l)).collect();
                let mut want: Vec<String> = model.values().flat_map(|m| m.queue.iter().cloned()).collect();
                let mut have: Vec<String> = got.iter().map(|n| n.proposed.clone()).collect();
                want.sort();
                have.sort();
                trace.push(json!({"arbiter": "connect", "received": got.iter().map(|n| n.raw.clone()).collect::<Vec<_>>()}));
                shape.push(if want.is_empty() { "arbiter-connect-nothing-pending" } else { "arbiter-connect-with-pending" });
                if want != have {
                    fail(v, if have.len() > want.len() { "new-arbiter-sent-resolved-or-duplicate-conflicts" } else { "new-arbiter-not-sent-an-unresolved-conflict" }, if arbiter_ever { "arbiter-reconnect" } else { "first-arbiter" }, format!("unresolved by model {:?}, received {:?}", want, have), &trace);
                    break 'ops;
                }
                inbox = got.into_iter().collect();
                arbiter = Some(a);
                arbiter_ever = true;
            }
            Op::ArbiterDisconnect => {
                if let Some(a) = arbiter.take() {
                    a.disconnect(&dbs);
                    inbox.clear();
                    trace.push(json!({"arbiter": "disconnect"}));
                    shape.push("arbiter-disconnect");
                }
            }
            Op::Resolve(_) | Op::ResolveNewest => {
                let Some(a) = arbiter.as_mut() else { continue };
                // queue order: the arbiter answers the notice of the conflict at the head of a key's queue;
                // out of order: the newest notice of a conflict that is still queued, wherever it stands
                let pos = match op {
                    Op::Resolve(true) => inbox.iter().position(|n| model[&n.key].queue.front() == Some(&n.proposed)),
                    Op::Resolve(false) => inbox.iter().rposition(|n| model[&n.key].queue.front() == Some(&n.proposed)),
                    _ => inbox.iter().rposition(|n| model[&n.key].queue.contains(&n.proposed)),
                };
                let Some(pos) = pos else { continue };
                let n = inbox.remove(pos).unwrap();
                let out_of_order = model[&n.key].queue.front() != Some(&n.proposed);
                let line = format!("resolve {} {} {} {} {}", n.opid, n.db, n.key, n.version, n.proposed);
                let r = a.call(&dbs, &line);
                node.pump();
                resolves += 1;
                let m = model.get_mut(&n.key).unwrap();
                m.queue.retain(|x| x != &n.proposed);
                m.value = Some(n.proposed.clone());
                let (val, ver) = cur(&mut writer, &n.key);
                trace.push(json!({"line": line, "reply": r.resp, "after": [val, ver], "still_queued": m.queue.len()}));
                shape.push(if out_of_order { "resolve-out-of-order" } else if m.queue.is_empty() { "resolve-last" } else { "resolve-with-more-queued" });
                // further notices may have been pushed to the arbiter by the resolve itself
                for l in r.pushed.iter().filter_map(|l| parse_notice(l)) {
                    inbox.push_back(l);
                }
                if val != n.proposed {
                    fail(v, "key-does-not-hold-the-last-resolution", if m.queue.is_empty() { "nothing-else-queued" } else { "more-queued" }, format!("{} holds {:?}, resolved to {:?}", n.key, val, n.proposed), &trace);
                    break 'ops;
                }
                if m.queue.is_empty() {
                    if ver == -2 {
                        fail(v, "key-still-in-conflict-resolution-although-nothing-is-pending", "after-last-resolve", format!("{} version -2", n.key), &trace);
                        break 'ops;
                    }
                    // nothing pending for the key any more
                    let pending = adm_keys(&mut adm, &dbs, &format!("$conflicts_{}", n.key));
                    let unresolved: Vec<&String> = pending.iter().filter(|k| !adm_get(&mut adm, &dbs, k).starts_with("resolved")).collect();
                    if !unresolved.is_empty() {
                        fail(v, "unresolved-conflict-record-left-after-all-resolutions", "after-last-resolve", format!("{:?}", unresolved), &trace);
                        break 'ops;
                    }
                } else if ver != -2 {
                    // later writes must keep queueing behind the remaining conflicts
                    fail(v, "key-left-conflict-resolution-with-conflicts-still-queued", "more-queued", format!("{} version {}", n.key, ver), &trace);
                    break 'ops;
                }
            }
        }
    }
    let mut s = st.lock().unwrap();
    s.sequences += 1;
    s.steps += ops.len() as u64;
    s.conflicts += conflicts;
    s.resolves += resolves;
    shape.dedup();
    s.shapes.insert(shape.join(">"));
    if s.samples.len() < 3 && resolves > 0 && conflicts > 1 {
        s.samples.push(json!({"ops": desc, "trace": trace}));
    }
}

fn adm_get(adm: &mut Session, dbs: &std::sync::Arc<nundb::bo::Databases>, k: &str) -> String {
    adm.call(dbs, "use-db arb tok");
    match adm.call_raw(dbs, &format!("get {}", k)) {
        nundb::bo::Response::Value { value, .. } => {
            adm.drain();
            value
        }
        _ => {
            adm.drain();
            String::new()
        }
    }
}

fn adm_keys(adm: &mut Session, dbs: &std::sync::Arc<nundb::bo::Databases>, pat: &str) -> Vec<String> {
    adm.call(dbs, "use-db arb tok");
    match adm.call_raw(dbs, &format!("keys {}", pat)) {
        nundb::bo::Response::Value { value, .. } => {
            adm.drain();
            value.split(',').filter(|x| !x.is_empty()).map(|x| x.to_string()).collect()
        }
        _ => vec![],
    }
}

fn random_op(r: &mut Rng) -> Op {
    let k = r.below(2);
    match r.below(14) {
        0..=1 => Op::Set(k),
        2 => if r.chance(1, 2) { Op::SetSame(k, r.chance(1, 2)) } else { Op::Set(k) },
        3..=6 => Op::SetSafe(k, *r.pick(&[-1, -1, 0, 1])),
        7..=8 => Op::ArbiterConnect,
        9 => Op::ArbiterDisconnect,
        10..=12 => if r.chance(1, 3) { Op::ResolveNewest } else { Op::Resolve(r.chance(3, 4)) },
        _ => Op::Get(k),
    }
}

// ------------------------------------------------------------------ cluster part
fn cluster_run(n: usize, arbiter_at: usize, writer_at: usize, pre_writes_at_a_secondary: usize, seed0: u64, nconf: usize, v: &Verdicts, st: &Mutex<Stats>) {
    let Some(mut c) = form_cluster(n, seed0, "c13") else {
        st.lock().unwrap().inconclusive += 1;
        v.inconclusive("cluster formation failed");
        return;
    };
    c.budget = 4000;
    c.open_session("w", 0);
    for l in ["auth admin pwd", "create-db arb tok arbiter", "use-db arb tok", "set alpha base1", "set alpha base2"] {
        c.send("w", l);
    }
    let _ = c.run_until_quiet();
    // the key's history before the conflict (round 10): plain writes that came in through a secondary. Whatever versions
    // the nodes hold for the key after them, the decision of the arbiter has to end up on every replica
    if pre_writes_at_a_secondary > 0 {
        c.open_session("pw", n - 1);
        c.send("pw", "use-db arb tok");
        for i in 0..pre_writes_at_a_secondary {
            c.send("pw", &format!("set alpha pre{}", i));
        }
        let _ = c.run_until_quiet();
    }
    c.open_session("arb", arbiter_at);
    for l in ["use-db arb tok", "arbiter"] {
        c.send("arb", l);
    }
    let _ = c.run_until_quiet();
    // conflicting versioned writes, from a session on the primary or on a secondary (the arbiter may sit on another node
    // than the writer: the write has to reach the node that holds the registration)
    let writer = if writer_at == 0 { "w" } else { "cw" };
    if writer_at != 0 {
        c.open_session("cw", writer_at);
        c.send("cw", "use-db arb tok");
        let _ = c.run_until_quiet();
    }
    for i in 0..nconf {
        c.send(writer, &format!("set-safe alpha 0 cand{}", i));
    }
    let q = c.run_until_quiet();
    let fail = |c: &Cluster, problem: &str, detail: String| {
        let mut sig = json!({"check": "arbiter", "mode": "cluster", "arbiter_at": if arbiter_at == 0 {"primary"} else {"secondary"}, "problem": problem});
        if writer_at != 0 {
            sig["writer_at"] = json!(if writer_at == arbiter_at { "the-arbiter's-secondary" } else { "a-secondary-without-the-arbiter" });
        }
        v.report(sig,
            json!({"nodes": n, "seed": seed0, "conflicts": nconf, "writer_at_node": writer_at, "plain_writes_through_a_secondary_before_the_conflict": pre_writes_at_a_secondary, "detail": detail, "datasets": (0..n).map(|i| c.dataset(i)).collect::<Vec<_>>(),
                   "links_tail": c.link_log().iter().rev().take(40).rev().map(|l| format!("[{}] n{}->n{} {}", l.0, l.1, l.2, l.3)).collect::<Vec<_>>(), "arbiter_inbox": c.replies("arb")}));
    };
    if !matches!(q, Outcome::Quiet(_)) {
        fail(&c, "no-quiescence-after-conflicting-writes", format!("{:?}", q));
        c.shutdown();
        return;
    }
    // the arbiter's notices: pushed lines of its session (they arrive asynchronously on its channel)
    c.send("arb", "get-safe alpha");
    let _ = c.run_until_quiet();
    let notices: Vec<Notice> = c.replies("arb").iter().flat_map(|r| r.2.clone()).filter_map(|l| parse_notice(&l)).collect();
    if arbiter_at == 0 && notices.len() != nconf {
        fail(&c, "conflict-not-delivered-to-the-connected-arbiter", format!("{} conflicts, {} notices", nconf, notices.len()));
        c.shutdown();
        return;
    }
    // resolve what was delivered, oldest first
    let mut last = None;
    for nn in &notices {
        c.send("arb", &format!("resolve {} {} {} {} {}", nn.opid, nn.db, nn.key, nn.version, nn.proposed));
        last = Some(nn.proposed.clone());
        let q = c.run_until_quiet();
        if !matches!(q, Outcome::Quiet(_)) {
            fail(&c, "no-quiescence-after-resolve", format!("{:?}", q));
            c.shutdown();
            return;
        }
    }
    st.lock().unwrap().cluster_runs += 1;
    if !c.panics().is_empty() {
        fail(&c, "service-thread-panicked", c.panics().join(" | "));
    } else if let Some(last) = last {
        if notices.len() == nconf {
            for i in 0..n {
                let d = c.dataset(i);
                let got = d.iter().find(|(k, _)| k.starts_with("arb ")).and_then(|(_, keys)| keys.get("alpha").cloned());
                match got {
                    Some((val, ver)) if val == last && ver != -2 => {}
                    other => {
                        fail(&c, if i == 0 { "primary-does-not-hold-the-resolved-value" } else { "replica-does-not-hold-the-resolved-value" }, format!("n{}: {:?}, last resolution {:?}", i, other, last));
                        break;
                    }
                }
                if c.pending_ops(i) != 0 {
                    fail(&c, "operations-left-pending", format!("n{} has {}", i, c.pending_ops(i)));
                    break;
                }
            }
        }
    } else if arbiter_at != 0 && nconf > 0 {
        fail(&c, "conflict-not-delivered-to-the-connected-arbiter", format!("arbiter on a secondary received no notice for {} conflicts", nconf));
    }
    c.shutdown();
}

/// A pending conflict has to survive snapshots and a restart: the key stays blocked (later writes queue behind the
/// conflict) and the next arbiter that registers is sent it. Real files, the start-up sequence of main.rs.
fn restart_part(v: &Verdicts) -> u64 {
    use crate::common::node::{Node, NodeOpts};
    let mut cases = 0u64;
    for persisted_before in [true, false] {
        for reclaim in [false, true] {
            for queued in [1usize, 2] {
                for later_versioned in [false, true] {
                    cases += 1;
                    let dir = fresh_dir("c13-restart");
                    let start = |dir: &str| -> Node {
                        let mut o = NodeOpts::simple(dir);
                        o.load_from_disk = true;
                        let n = Node::start(o);
                        n.set_role(nundb::bo::ClusterRole::Primary);
                        n
                    };
                    let mut trace: Vec<String> = vec![];
                    let node = start(&dir);
                    let dbs = node.dbs.clone();
                    let mut adm = Session::new();
                    let mut call = |s: &mut Session, dbs: &std::sync::Arc<nundb::bo::Databases>, l: &str, trace: &mut Vec<String>| -> crate::common::session::Reply {
                        let r = s.call(dbs, l);
                        trace.push(format!("{} -> {} {:?}", l, r.resp, r.pushed));
                        r
                    };
                    call(&mut adm, &dbs, "auth admin pwd", &mut trace);
                    call(&mut adm, &dbs, "create-db arb tok arbiter", &mut trace);
                    call(&mut adm, &dbs, "use-db arb tok", &mut trace);
                    call(&mut adm, &dbs, "set k one", &mut trace);
                    call(&mut adm, &dbs, "set k two", &mut trace);
                    if persisted_before {
                        call(&mut adm, &dbs, "snapshot false arb", &mut trace);
                        nundb::disk_ops::verif_declutter(&dbs);
                    }
                    let mut arbiter = Session::new();
                    call(&mut arbiter, &dbs, "use-db arb tok", &mut trace);
                    call(&mut arbiter, &dbs, "arbiter", &mut trace);
                    for q in 0..queued {
                        call(&mut adm, &dbs, &format!("set-safe k 0 proposed{}", q), &mut trace);
                    }
                    arbiter.drain();
                    // the conflict stays unresolved; the arbiter leaves; the state is snapshotted; the node restarts
                    arbiter.disconnect(&dbs);
                    call(&mut adm, &dbs, &format!("snapshot {} arb", reclaim), &mut trace);
                    nundb::disk_ops::verif_declutter(&dbs);
                    let before_value = adm_get(&mut adm, &dbs, "k");
                    drop(node);
                    if let Err(why) = crate::c06::load_probe(&dir) {
                        v.report(json!({"check": "arbiter", "mode": "restart", "problem": "restart-fails-with-a-pending-conflict"}), json!({"trace": trace, "msg": why}));
                        continue;
                    }
                    let node2 = start(&dir);
                    let dbs2 = node2.dbs.clone();
                    let mut adm2 = Session::new();
                    call(&mut adm2, &dbs2, "auth admin pwd", &mut trace);
                    call(&mut adm2, &dbs2, "use-db arb tok", &mut trace);
                    let after_value = adm_get(&mut adm2, &dbs2, "k");
                    let mut problems: Vec<(&str, String)> = vec![];
                    if after_value != before_value {
                        problems.push(("key-in-conflict-changed-by-the-restart", format!("{:?} -> {:?}", before_value, after_value)));
                    }
                    // a later write must queue behind the pending conflict (it needs an arbiter: one registers first)
                    let mut arbiter2 = Session::new();
                    call(&mut arbiter2, &dbs2, "use-db arb tok", &mut trace);
                    let reg = call(&mut arbiter2, &dbs2, "arbiter", &mut trace);
                    let notices: Vec<Notice> = reg.pushed.iter().chain(arbiter2.drain().iter()).filter_map(|l| parse_notice(l)).collect();
                    if notices.len() != queued {
                        problems.push(("arbiter-registering-after-the-restart-not-sent-the-pending-conflicts", format!("{} pending before the restart, {} notices: {:?}", queued, notices.len(), notices.iter().map(|n| n.raw.clone()).collect::<Vec<_>>())));
                    }
                    let later = call(&mut adm2, &dbs2, if later_versioned { "set-safe k 1 later" } else { "set k later" }, &mut trace);
                    if !later.resp.starts_with("Error $$conflitct unresolved") {
                        problems.push(("write-to-a-key-in-conflict-applied-after-the-restart-instead-of-queued", later.resp.clone()));
                    } else if adm_get(&mut adm2, &dbs2, "k") != before_value {
                        problems.push(("queued-write-changed-the-key-before-resolution", adm_get(&mut adm2, &dbs2, "k")));
                    }
                    for (p, d) in problems {
                        v.report(json!({"check": "arbiter", "mode": "restart", "problem": p, "key_persisted_before_the_conflict": persisted_before}), json!({"trace": trace, "detail": d, "snapshot_reclaims": reclaim, "conflicts_queued": queued}));
                    }
                    drop(node2);
                    let _ = std::fs::remove_dir_all(&dir);
                }
            }
        }
    }
    cases
}

pub fn run(tier: &str) -> i32 {
    std::env::set_var("NUN_ELECTION_TIMEOUT", "30");
    quiet_panics();
    let thorough = tier == "thorough";
    let v = Verdicts::load("C13");
    let mut ev = Evidence::new("C13", tier, "exploration");
    let st = Mutex::new(Stats { sequences: 0, steps: 0, shapes: BTreeSet::new(), conflicts: 0, resolves: 0, samples: vec![], cluster_runs: 0, inconclusive: 0 });
    let mut rng = Rng::new(seed());
    let mut cases: Vec<Vec<Op>> = vec![];
    // systematic: all sequences of length <= 4 (quick) / 5 (thorough) over a 9-step alphabet, after two base writes
    let alpha = vec![Op::Set(0), Op::SetSafe(0, -1), Op::SetSafe(0, 0), Op::ArbiterConnect, Op::ArbiterDisconnect, Op::Resolve(true), Op::ResolveNewest, Op::Get(0), Op::SetSame(0, false)];
    let depth = if thorough { 5 } else { 4 };
    let mut idx = vec![0usize; depth];
    'e: loop {
        let mut ops = vec![Op::Set(0), Op::Set(0)];
        ops.extend(idx.iter().map(|i| alpha[*i].clone()));
        ops.push(Op::ArbiterConnect);
        ops.push(Op::Resolve(true));
        ops.push(Op::Resolve(true));
        ops.push(Op::Resolve(true));
        ops.push(Op::Resolve(true));
        ops.push(Op::Get(0));
        ops.push(Op::Set(0));
        cases.push(ops);
        let mut p = 0;
        loop {
            if p == depth {
                break 'e;
            }
            idx[p] += 1;
            if idx[p] < alpha.len() {
                break;
            }
            idx[p] = 0;
            p += 1;
        }
    }
    let systematic = cases.len();
    let n_random = if thorough { 150_000 } else { 15_000 };
    for _ in 0..n_random {
        let len = rng.range(4, 14);
        let mut ops = vec![Op::Set(0), Op::Set(1), Op::Set(0)];
        ops.extend((0..len).map(|_| random_op(&mut rng)));
        cases.push(ops);
    }
    let next = std::sync::atomic::AtomicUsize::new(0);
    std::thread::scope(|sc| {
        for _ in 0..workers() {
            let (next, v, st, cases) = (&next, &v, &st, &cases);
            sc.spawn(move || loop {
                let i = next.fetch_add(1, std::sync::atomic::Ordering::SeqCst);
                if i >= cases.len() {
                    break;
                }
                run_sequence(&cases[i], v, st);
            });
        }
    });
    // cluster part
    let n_cluster = if thorough { 1200 } else { 96 };
    let next = std::sync::atomic::AtomicUsize::new(0);
    std::thread::scope(|sc| {
        for _ in 0..workers() {
            let (next, v, st) = (&next, &v, &st);
            sc.spawn(move || loop {
                let i = next.fetch_add(1, std::sync::atomic::Ordering::SeqCst);
                if i >= n_cluster {
                    break;
                }
                let mut r = Rng::new(seed().wrapping_mul(7_000_003).wrapping_add(i as u64));
                let n = 2 + (i % 2);
                let arbiter_at = if i % 4 < 2 { 0 } else { 1 };
                // every third run the conflicting writer talks to a secondary (the last node: with three nodes and the
                // arbiter on node 1 that is a secondary without the arbiter)
                let writer_at = if i % 3 == 2 { n - 1 } else { 0 };
                // every other run the key was written through a secondary before (1-3 plain sets)
                let pre = if (i / 4) % 2 == 1 { 1 + (i / 8) % 3 } else { 0 };
                cluster_run(n, arbiter_at, writer_at, pre, r.next(), 1 + (i / 4) % 3, v, st);
            });
        }
    });
    let s = st.into_inner().unwrap();
    let restart_cases = restart_part(&v);
    ev.set("pending_conflict_across_snapshot_and_restart_cases", json!(restart_cases));
    ev.evaluations = s.sequences + s.cluster_runs;
    ev.distinct_nontrivial = s.shapes.len() as u64;
    ev.rule = format!("single node: {} systematic sequences (every sequence of {} steps over {{set, stale set-safe, current set-safe, arbiter connect, arbiter disconnect, resolve the oldest, resolve the newest notice out of order, get, set of the value the key holds}} after two base writes, followed by connect + resolves + a final write) + {} random sequences of 4-14 steps over 2 keys; a scripted arbiter answers the notices it received (echoing op id and version); a conflict-queue model is checked after every step. Cluster: {} Engine N runs (2-3 nodes, arbiter on the primary or on a secondary, 1-3 conflicting writes from a session on the primary or - every third run - on a secondary, resolves oldest first). distinct_nontrivial = distinct compressed sequences of step outcomes (write-ok / conflict with no, connected or absent arbiter / connect with or without pending / resolve last or with more queued)", systematic, depth, n_random, s.cluster_runs);
    ev.samples = s.samples.clone();
    ev.set("steps", json!(s.steps));
    ev.set("conflicts_recorded", json!(s.conflicts));
    ev.set("resolutions", json!(s.resolves));
    ev.set("cluster_runs", json!(s.cluster_runs));
    ev.set("inconclusive_runs", json!(s.inconclusive));
    ev.set("known_findings_seen", json!(v.known_seen()));
    ev.violations = v.violation_count();
    ev.assumptions = vec![
        "values are single words (the notice format is space separated)".into(),
        "the scripted arbiter resolves the conflict at the head of a key's queue (oldest first, or the newest notice of a head conflict) or, out of order, the newest notice of any queued conflict; the key then holds the value of the resolution made last in time and stays in conflict resolution until every queued conflict is answered".into(),
        "'no arbiter has registered' means never registered on this database; after an arbiter left, conflicts are recorded for the next one, as the statement allows".into(),
    ];
    ev.write();
    cleanup_scratch();
    let code = v.finish(tier);
    if code == 0 && (s.shapes.len() < 200 || s.resolves < 1000 || s.cluster_runs < 20) {
        println!("INCONCLUSIVE property=C13 reason=coverage floor not met ({} shapes, {} resolves, {} cluster runs)", s.shapes.len(), s.resolves, s.cluster_runs);
        return 2;
    }
    println!("C13 {}: {} sequences, {} steps, {} conflicts, {} resolutions, {} shapes, {} cluster runs, {} violations", tier, s.sequences, s.steps, s.conflicts, s.resolves, s.shapes.len(), s.cluster_runs, v.violation_count());
    code
}
