//! Engine N: simulated cluster (placeholder until the engine lands).
use crate::common::kf::Verdicts;

pub struct C15Cluster {
    pub runs: u64,
    pub acks: u64,
}

pub fn c15_end_to_end(_v: &Verdicts, _tier: &str) -> C15Cluster {
    C15Cluster { runs: 0, acks: 0 }
}
