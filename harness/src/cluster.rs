//! Engine N: a simulated cluster of real nun-db nodes in one process.
//!
//! Real: `process_request`, the replication loop and the supervisor (polled one message at a
//! time), elections, oplog, sync, snapshots. Emulated: the byte transport only — a link is a
//! pair of FIFO queues (the member's command channel in one direction, the serving client's
//! channel in the other), with the connection set-up lines of `start_replication` and the
//! disconnect handling of `tcp_ops::handle_client` mirrored here.
//!
//! Every connection endpoint, client session and start-up timer is a sequential process on its
//! own OS thread; exactly one of them (or the controller) runs at any time (token passing). A
//! thread gives the token back when it waits for input or reaches an election hook point. The
//! controller picks the next activity with a seeded PRNG; a *tick* (letting a waiting election
//! loop or a start-up timer go on) is only taken when nothing else is enabled: messages are
//! faster than timeouts.
use crate::common::node::{Node, NodeOpts};
use crate::common::rng::Rng;
use crate::common::*;
use futures::channel::mpsc::Receiver;
use nundb::bo::{Client, ClusterMember, ClusterRole, Databases, Response};
use nundb::process_request::process_request;
use serde_json::json;
use std::cell::RefCell;
use std::collections::{BTreeMap, HashMap, VecDeque};
use std::sync::{Arc, Condvar, Mutex};
use std::time::{Duration, Instant};

pub const USER: &str = crate::common::node::USER;
pub const PWD: &str = crate::common::node::PWD;

#[derive(Clone, Debug, PartialEq)]
pub enum Status {
    Running,
    AtPoint(String),
    WaitInput,
    /// client side of a link whose peer is gone: waits for its command channel to close
    WaitClose,
    Finished,
}

#[derive(Clone, Debug)]
pub enum Input {
    Line(String),
    Eof,
    Killed,
}

#[derive(Clone, Debug, PartialEq)]
pub enum Kind {
    /// serves a connection that node `from` opened to this node
    Server { link: usize },
    /// client side of a link (the thread nun-db's supervisor spawned)
    ClientLink { link: usize },
    /// ordinary client session
    Session,
    /// transient `join` connection
    JoinConn,
    /// start-up thread: ask to join, then the initial election
    Starter,
}

pub struct ThreadSt {
    pub name: String,
    pub node: usize,
    pub kind: Kind,
    pub status: Status,
    pub granted: bool,
    pub inbox: VecDeque<Input>,
    pub killed: bool,
    /// ticks this thread was given while other activities were still enabled, since it last did something else
    pub early_ticks: u32,
    /// replies of a session thread
    pub replies: Vec<(String, String, Vec<String>)>,
}

pub struct Link {
    pub from: usize,
    pub to: usize,
    /// lines the client side sends before anything else (auth, set-primary|set-secoundary, replicate-since)
    pub pre: VecDeque<String>,
    /// the member's command channel (what the node wants to send to the peer)
    pub cmd_rx: Option<Receiver<String>>,
    pub a2b: VecDeque<String>,
    /// what the serving client pushes (acks, ok, errors)
    pub srv_rx: Option<Receiver<String>>,
    pub b2a: VecDeque<String>,
    pub server_tid: usize,
    pub client_tid: usize,
    pub open: bool,
    pub cmd_closed: bool,
    pub eof_sent_to_server: bool,
    pub eof_sent_to_client: bool,
}

pub struct SimNode {
    pub node: Option<Node>,
    pub dbs: Option<Arc<Databases>>,
    pub addr: String,
    pub dir: String,
    pub alive: bool,
    pub process_id: u128,
    pub repl_q: VecDeque<String>,
    pub sup_q: VecDeque<String>,
    pub starts: u32,
}

pub struct Inner {
    pub threads: Vec<ThreadSt>,
    pub links: Vec<Link>,
    pub nodes: Vec<SimNode>,
    pub steps: u64,
    /// every line that crossed a link: (step, from node, to node, line)
    pub link_log: Vec<(u64, usize, usize, String)>,
    pub trace: Vec<String>,
    pub decisions: Vec<u32>,
    pub stuck: Option<String>,
    /// link threads the supervisors have spawned so far (as far as the controller could tell) / that have registered
    pub expected_registrations: usize,
    pub registrations_done: usize,
    pub panics: Vec<String>,
    pub election_wins: Vec<(usize, String)>,
    pub ticks: u64,
}

pub struct Sim {
    pub inner: Mutex<Inner>,
    pub cv: Condvar,
    pub id: u64,
    /// 0: yield only at election / after-apply points; 2: also before every critical section of the key map
    /// (set, increment, remove, read) so that two sessions of one node interleave at lock granularity
    pub fine: std::sync::atomic::AtomicU8,
}

thread_local! {
    static CTX: RefCell<Option<(Arc<Sim>, usize)>> = RefCell::new(None);
}

lazy_static::lazy_static! {
    /// Databases pointer -> (sim, node index); lets the transport hook find its simulation
    static ref REGISTRY: Mutex<HashMap<usize, (Arc<Sim>, usize)>> = Mutex::new(HashMap::new());
    static ref SIM_IDS: std::sync::atomic::AtomicU64 = std::sync::atomic::AtomicU64::new(1);
}

/// also yield before set_value's critical section (between creating a change and applying it)
pub static FINE_POINTS: std::sync::atomic::AtomicBool = std::sync::atomic::AtomicBool::new(false);

struct KillToken;

fn is_tick_site(site: &str) -> bool {
    site == "election:wait_registered" || site == "election:wait_acks" || site == "election:settle" || site == "starter:initial-election"
}

static INSTALL: std::sync::Once = std::sync::Once::new();

/// Installs the global hook callbacks (point + transport) for Engine N.
fn member_sender(dbs: &Arc<Databases>, name: &str) -> Option<futures::channel::mpsc::Sender<String>> {
    let cs = dbs.cluster_state.lock().unwrap();
    let m = cs.members.lock().unwrap();
    m.get(name).and_then(|x| x.sender.clone())
}

pub fn install_hooks() {
    INSTALL.call_once(|| {});
    nundb::verif::set_point_callback(Some(Arc::new(|site: &str| {
        let ctx = CTX.with(|c| c.borrow().clone());
        if let Some((sim, tid)) = ctx {
            if site.starts_with("election_win:") {
                let mut g = sim.inner.lock().unwrap();
                let node = g.threads[tid].node;
                g.election_wins.push((node, site["election_win:".len()..].to_string()));
                let step = g.steps;
                g.trace.push(format!("[{}] n{} claims victory via {}", step, node, &site["election_win:".len()..]));
                return;
            }
            if site.starts_with("election:") || site == "replicate:after_apply" || (site == "db.map:set_value" && FINE_POINTS.load(std::sync::atomic::Ordering::Relaxed))
                || (sim.fine.load(std::sync::atomic::Ordering::Relaxed) >= 2 && matches!(site, "db.map:set_value" | "db.map:inc_value" | "db.map:remove_value" | "db.map:get_value" | "db.map:set_value_version" | "replicate:after_id"))
            {
                sim.park_point(tid, site);
            }
        }
    })));
    nundb::verif::set_transport(Some(Arc::new(|req: nundb::verif::LinkRequest| {
        let key = Arc::as_ptr(&req.dbs) as usize;
        let found = { REGISTRY.lock().unwrap().get(&key).cloned() };
        if let Some((sim, node)) = found {
            sim.client_link_main(node, req);
        }
    })));
}

impl Sim {
    pub fn new() -> Arc<Sim> {
        Arc::new(Sim {
            inner: Mutex::new(Inner {
                threads: vec![],
                links: vec![],
                nodes: vec![],
                steps: 0,
                link_log: vec![],
                trace: vec![],
                decisions: vec![],
                stuck: None,
                expected_registrations: 0,
                registrations_done: 0,
                panics: vec![],
                election_wins: vec![],
                ticks: 0,
            }),
            cv: Condvar::new(),
            id: SIM_IDS.fetch_add(1, std::sync::atomic::Ordering::SeqCst),
            fine: std::sync::atomic::AtomicU8::new(0),
        })
    }

    // ------------------------------------------------------------ thread side
    fn enter(self: &Arc<Sim>, tid: usize, dir: &str) {
        nundb::verif::set_dir(Some(dir.to_string()));
        CTX.with(|c| *c.borrow_mut() = Some((self.clone(), tid)));
    }

    fn register(self: &Arc<Sim>, name: String, node: usize, kind: Kind) -> usize {
        let mut g = self.inner.lock().unwrap();
        g.threads.push(ThreadSt { name, node, kind, status: Status::Running, granted: false, inbox: VecDeque::new(), killed: false, early_ticks: 0, replies: vec![] });
        g.threads.len() - 1
    }

    /// Give the token back and wait until the controller lets this thread go on.
    fn park(&self, tid: usize, st: Status) {
        let mut g = self.inner.lock().unwrap();
        let tick_site = matches!(&st, Status::AtPoint(s) if is_tick_site(s));
        if !tick_site {
            g.threads[tid].early_ticks = 0;
        }
        g.threads[tid].status = st;
        g.threads[tid].granted = false;
        self.cv.notify_all();
        while !g.threads[tid].granted {
            g = self.cv.wait(g).unwrap();
        }
        g.threads[tid].status = Status::Running;
    }

    fn park_point(&self, tid: usize, site: &str) {
        self.park(tid, Status::AtPoint(site.to_string()));
        let killed = { self.inner.lock().unwrap().threads[tid].killed };
        if killed {
            std::panic::resume_unwind(Box::new(KillToken));
        }
    }

    fn wait_input(&self, tid: usize) -> Input {
        loop {
            self.park(tid, Status::WaitInput);
            let mut g = self.inner.lock().unwrap();
            if g.threads[tid].killed {
                return Input::Killed;
            }
            if let Some(i) = g.threads[tid].inbox.pop_front() {
                return i;
            }
        }
    }

    fn finish(&self, tid: usize) {
        let mut g = self.inner.lock().unwrap();
        g.threads[tid].status = Status::Finished;
        g.threads[tid].granted = false;
        self.cv.notify_all();
    }

    fn node_info(&self, node: usize) -> (Option<Arc<Databases>>, String, String, bool) {
        let g = self.inner.lock().unwrap();
        let n = &g.nodes[node];
        (n.dbs.clone(), n.addr.clone(), n.dir.clone(), n.alive)
    }

    /// Body of the thread nun-db's supervisor spawned for a link (client side).
    fn client_link_main(self: &Arc<Sim>, node: usize, mut req: nundb::verif::LinkRequest) {
        let (_, own_addr, dir, _) = self.node_info(node);
        nundb::verif::set_dir(Some(dir.clone()));
        // which node is the peer? (a dead or unknown peer refuses the connection)
        let peer = {
            let g = self.inner.lock().unwrap();
            g.nodes.iter().position(|n| n.addr == req.peer_address && n.alive)
        };
        let mut pre = VecDeque::new();
        pre.push_back(format!("auth {} {}", USER, PWD));
        if req.is_primary {
            pre.push_back(format!("set-primary {}", req.own_address));
        } else {
            pre.push_back(format!("set-secoundary {}", req.own_address));
            pre.push_back(format!("replicate-since {} {}", req.own_address, nundb::disk_ops::Oplog::last_op_time()));
        }
        let Some(peer) = peer else {
            // connection refused: start_replication returns at once, and with it the receiving end of the member's
            // command queue is gone (dropped here, before the scheduler goes on, so that "the link is closed" does not
            // depend on when this OS thread gets to run its epilogue)
            let unreachable = req.peer_address.clone();
            drop(req);
            let req_peer_address = unreachable;
            let mut g = self.inner.lock().unwrap();
            let step = g.steps;
            g.trace.push(format!("[{}] n{} cannot connect to {}", step, node, req_peer_address));
            g.registrations_done += 1;
            self.cv.notify_all();
            return;
        };
        // the serving side: its client and the channel it writes to
        let (srv_client, srv_rx) = Client::new_empty_and_receiver();
        let cmd_rx = std::mem::replace(&mut req.command_receiver, futures::channel::mpsc::channel(1).1);
        let (client_tid, server_tid, link_id);
        {
            let mut g = self.inner.lock().unwrap();
            link_id = g.links.len();
            client_tid = g.threads.len();
            g.threads.push(ThreadSt { name: format!("n{}->n{} client-link", node, peer), node, kind: Kind::ClientLink { link: link_id }, status: Status::Running, granted: false, inbox: VecDeque::new(), killed: false, early_ticks: 0, replies: vec![] });
            server_tid = g.threads.len();
            g.threads.push(ThreadSt { name: format!("n{} serves n{}", peer, node), node: peer, kind: Kind::Server { link: link_id }, status: Status::Running, granted: false, inbox: VecDeque::new(), killed: false, early_ticks: 0, replies: vec![] });
            g.links.push(Link { from: node, to: peer, pre, cmd_rx: Some(cmd_rx), a2b: VecDeque::new(), srv_rx: Some(srv_rx), b2a: VecDeque::new(), server_tid, client_tid, open: true, cmd_closed: false, eof_sent_to_server: false, eof_sent_to_client: false });
            let step = g.steps;
            g.trace.push(format!("[{}] link {} opened: n{} -> n{} ({})", step, link_id, node, peer, if req.is_primary { "as primary" } else { "as secondary" }));
        }
        // the serving endpoint runs on its own thread
        let sim2 = self.clone();
        std::thread::spawn(move || sim2.server_main(server_tid, peer, srv_client));
        // wait until the server endpoint is parked, then count this registration as done
        {
            let mut g = self.inner.lock().unwrap();
            while g.threads[server_tid].status == Status::Running {
                g = self.cv.wait(g).unwrap();
            }
            g.registrations_done += 1;
            self.cv.notify_all();
        }
        self.enter(client_tid, &dir);
        let (mut client, _rx) = Client::new_empty_and_receiver();
        client.auth.store(true, std::sync::atomic::Ordering::Relaxed);
        *client.cluster_member.lock().unwrap() = Some(ClusterMember { name: own_addr.clone(), role: ClusterRole::Secoundary, sender: None });
        let dbs = req.dbs.clone();
        let r = std::panic::catch_unwind(std::panic::AssertUnwindSafe(|| {
            loop {
                match self.wait_input(client_tid) {
                    Input::Line(l) => {
                        let m = l.trim().to_string();
                        if m == "ok" || m.is_empty() {
                            continue;
                        }
                        let _ = process_request(&m, &dbs, &mut client);
                    }
                    Input::Eof => break,
                    Input::Killed => return false,
                }
            }
            true
        }));
        match r {
            Ok(true) => {
                // reader ended; the writer half ends when the member (and its sender) is dropped
                loop {
                    self.park(client_tid, Status::WaitClose);
                    let g = self.inner.lock().unwrap();
                    if g.threads[client_tid].killed || g.links[link_id].cmd_closed {
                        break;
                    }
                }
            }
            Ok(false) => {}
            Err(e) => {
                if e.downcast_ref::<KillToken>().is_none() {
                    self.inner.lock().unwrap().panics.push(format!("client-link n{}: {}", node, panic_msg(&e)));
                }
            }
        }
        CTX.with(|c| *c.borrow_mut() = None);
        self.finish(client_tid);
        // returning lets the production code after start_replication run (member removal)
    }

    /// Serving side of a connection (mirror of tcp_ops::handle_client).
    fn server_main(self: Arc<Sim>, tid: usize, node: usize, mut client: Client) {
        let (dbs, _addr, dir, _) = self.node_info(node);
        let Some(dbs) = dbs else {
            self.finish(tid);
            return;
        };
        self.enter(tid, &dir);
        let _ = client.sender.try_send("ok \n".to_string());
        let r = std::panic::catch_unwind(std::panic::AssertUnwindSafe(|| {
            loop {
                match self.wait_input(tid) {
                    Input::Line(l) => match process_request(&l, &dbs, &mut client) {
                        Response::Error { msg } => {
                            let _ = client.sender.try_send(format!("error {} \n", msg));
                        }
                        _ => {
                            let _ = client.sender.try_send("ok \n".to_string());
                        }
                    },
                    Input::Eof => {
                        // the peer went away
                        process_request("unwatch-all", &dbs, &mut client);
                        let member = { client.cluster_member.lock().unwrap().clone() };
                        if let Some(m) = member {
                            let (mut fake, _) = Client::new_empty_and_receiver();
                            fake.auth.store(true, std::sync::atomic::Ordering::Relaxed);
                            let line = match m.role {
                                ClusterRole::Primary => format!("leave {}", m.name),
                                _ => format!("replicate-leave {}", m.name),
                            };
                            let _ = process_request(&line, &dbs, &mut fake);
                        }
                        client.left(&dbs);
                        break;
                    }
                    Input::Killed => break,
                }
            }
        }));
        if let Err(e) = r {
            if e.downcast_ref::<KillToken>().is_none() {
                self.inner.lock().unwrap().panics.push(format!("server n{}: {}", node, panic_msg(&e)));
            }
        }
        CTX.with(|c| *c.borrow_mut() = None);
        self.finish(tid);
    }

    /// A client session thread: executes the lines the controller hands it.
    fn session_main(self: Arc<Sim>, tid: usize, node: usize) {
        let (dbs, _addr, dir, _) = self.node_info(node);
        let Some(dbs) = dbs else {
            self.finish(tid);
            return;
        };
        self.enter(tid, &dir);
        let mut s = crate::common::session::Session::new();
        let r = std::panic::catch_unwind(std::panic::AssertUnwindSafe(|| loop {
            match self.wait_input(tid) {
                Input::Line(l) => {
                    let rep = s.call(&dbs, &l);
                    let mut g = self.inner.lock().unwrap();
                    g.threads[tid].replies.push((l, rep.resp, rep.pushed));
                }
                Input::Eof => {
                    process_request("unwatch-all", &dbs, &mut s.client);
                    s.client.left(&dbs);
                    break;
                }
                Input::Killed => break,
            }
        }));
        if let Err(e) = r {
            if e.downcast_ref::<KillToken>().is_none() {
                self.inner.lock().unwrap().panics.push(format!("session n{}: {}", node, panic_msg(&e)));
            }
        }
        CTX.with(|c| *c.borrow_mut() = None);
        self.finish(tid);
    }

    /// A transient connection that only carries `auth` + `join`.
    fn join_conn_main(self: Arc<Sim>, tid: usize, node: usize) {
        let (dbs, _addr, dir, _) = self.node_info(node);
        let Some(dbs) = dbs else {
            self.finish(tid);
            return;
        };
        self.enter(tid, &dir);
        let (mut client, _rx) = Client::new_empty_and_receiver();
        let r = std::panic::catch_unwind(std::panic::AssertUnwindSafe(|| loop {
            match self.wait_input(tid) {
                Input::Line(l) => {
                    let _ = process_request(&l, &dbs, &mut client);
                }
                Input::Eof => {
                    process_request("unwatch-all", &dbs, &mut client);
                    client.left(&dbs);
                    break;
                }
                Input::Killed => break,
            }
        }));
        if let Err(e) = r {
            if e.downcast_ref::<KillToken>().is_none() {
                self.inner.lock().unwrap().panics.push(format!("join-conn n{}: {}", node, panic_msg(&e)));
            }
        }
        CTX.with(|c| *c.borrow_mut() = None);
        self.finish(tid);
    }

    /// Start-up thread of a node: asks the listed replicas to let it join, then (later) the initial election.
    fn starter_main(self: Arc<Sim>, tid: usize, node: usize, join: Vec<usize>) {
        let (dbs, addr, dir, _) = self.node_info(node);
        let Some(dbs) = dbs else {
            self.finish(tid);
            return;
        };
        self.enter(tid, &dir);
        // ask_to_join_all_replicas: one transient connection per replica (sorted by address)
        let mut targets: Vec<(String, usize)> = {
            let g = self.inner.lock().unwrap();
            join.iter().filter(|t| **t != node).map(|t| (g.nodes[*t].addr.clone(), *t)).collect()
        };
        targets.sort();
        for (_a, t) in targets {
            let alive = { self.inner.lock().unwrap().nodes[t].alive };
            if !alive {
                continue;
            }
            let jt = self.register(format!("n{} asks n{} to join", node, t), t, Kind::JoinConn);
            {
                let mut g = self.inner.lock().unwrap();
                g.threads[jt].inbox.push_back(Input::Line(format!("auth {} {}", USER, PWD)));
                g.threads[jt].inbox.push_back(Input::Line(format!("join {}", addr)));
                g.threads[jt].inbox.push_back(Input::Eof);
            }
            let sim2 = self.clone();
            std::thread::spawn(move || sim2.join_conn_main(jt, t));
            let mut g = self.inner.lock().unwrap();
            while g.threads[jt].status == Status::Running {
                g = self.cv.wait(g).unwrap();
            }
        }
        // start_inital_election after its 1 s sleep: a timer-class activity
        let r = std::panic::catch_unwind(std::panic::AssertUnwindSafe(|| {
            self.park_point(tid, "starter:initial-election");
            if dbs.is_eligible() {
                nundb::election_ops::start_election(&dbs);
            }
        }));
        if let Err(e) = r {
            if e.downcast_ref::<KillToken>().is_none() {
                self.inner.lock().unwrap().panics.push(format!("starter n{}: {}", node, panic_msg(&e)));
            }
        }
        CTX.with(|c| *c.borrow_mut() = None);
        self.finish(tid);
    }
}

// ================================================================ controller
pub struct Cluster {
    pub sim: Arc<Sim>,
    pub rng: Rng,
    pub base_dir: String,
    pub sessions: BTreeMap<String, usize>,
    pub budget: u64,
    pub max_quiet_steps: u64,
    pub max_early_ticks: u32,
    /// nodes that learn late that a peer's connection closed (see `kill_node_noticed_late_by`)
    pub late_eof: std::collections::BTreeSet<usize>,
    pub late_ticks: u32,
    /// every node binds to 0.0.0.0:<port> and is known to its peers by another (external) address
    pub bind_differs: bool,
    /// links (from node, to node) whose sending end does not take anything from its queue for the time being: the
    /// peer is busy or paused, the socket's buffers are full. What the node queues for that peer stays in the
    /// member's channel inside nun-db
    pub stalled: std::collections::BTreeSet<(usize, usize)>,
}

#[derive(Debug, Clone, PartialEq)]
pub enum Outcome {
    Quiet(u64),
    BudgetExceeded,
    Stuck(String),
}

impl Cluster {
    pub fn new(n: usize, seed: u64, tag: &str) -> Cluster {
        install_hooks();
        let sim = Sim::new();
        let base_dir = fresh_dir(&format!("sim-{}-{}", tag, sim.id));
        {
            let mut g = sim.inner.lock().unwrap();
            for i in 0..n {
                let dir = format!("{}/n{}", base_dir, i);
                std::fs::create_dir_all(&dir).unwrap();
                g.nodes.push(SimNode { node: None, dbs: None, addr: format!("10.0.0.{}:3014", i + 1), dir, alive: false, process_id: 0, repl_q: VecDeque::new(), sup_q: VecDeque::new(), starts: 0 });
            }
        }
        Cluster { sim, rng: Rng::new(seed), base_dir, sessions: BTreeMap::new(), budget: 6000, max_quiet_steps: 0, max_early_ticks: 4, late_eof: std::collections::BTreeSet::new(), late_ticks: 0, bind_differs: seed % 3 == 2 && std::env::var("VERIF_NO_BIND_VARIANT").is_err(), stalled: std::collections::BTreeSet::new() }
    }

    pub fn n(&self) -> usize {
        self.sim.inner.lock().unwrap().nodes.len()
    }

    pub fn dbs(&self, i: usize) -> Arc<Databases> {
        self.sim.inner.lock().unwrap().nodes[i].dbs.clone().unwrap()
    }

    pub fn addr(&self, i: usize) -> String {
        self.sim.inner.lock().unwrap().nodes[i].addr.clone()
    }

    pub fn alive(&self, i: usize) -> bool {
        self.sim.inner.lock().unwrap().nodes[i].alive
    }

    fn note(&self, s: String) {
        let mut g = self.sim.inner.lock().unwrap();
        let step = g.steps;
        g.trace.push(format!("[{}] {}", step, s));
    }

    /// Boots node i (process start). `join` = the --replicate-address list (node indices).
    pub fn start_node(&mut self, i: usize, process_id: u128, join: &[usize]) {
        let (dir, addr) = {
            let g = self.sim.inner.lock().unwrap();
            (g.nodes[i].dir.clone(), g.nodes[i].addr.clone())
        };
        let mut o = NodeOpts::simple(&dir);
        o.addr = addr.clone();
        o.process_id = process_id;
        o.real_loop = true;
        o.real_supervisor = true;
        o.load_from_disk = true;
        if self.bind_differs {
            o.bind_addr = Some(format!("0.0.0.0:{}", addr.rsplit(':').next().unwrap_or("3014")));
        }
        let mut node = Node::start(o);
        node.keep_logs = false;
        let dbs = node.dbs.clone();
        REGISTRY.lock().unwrap().insert(Arc::as_ptr(&dbs) as usize, (self.sim.clone(), i));
        {
            let mut g = self.sim.inner.lock().unwrap();
            let n = &mut g.nodes[i];
            n.node = Some(node);
            n.dbs = Some(dbs);
            n.alive = true;
            n.process_id = process_id;
            n.repl_q.clear();
            n.sup_q.clear();
            n.starts += 1;
        }
        self.note(format!("n{} starts (process id {}, joins {:?})", i, process_id, join));
        let tid = self.sim.register(format!("n{} starter", i), i, Kind::Starter);
        let sim2 = self.sim.clone();
        let j = join.to_vec();
        std::thread::spawn(move || sim2.starter_main(tid, i, j));
        self.wait_parked(tid);
    }

    fn wait_parked(&self, tid: usize) -> bool {
        let mut g = self.sim.inner.lock().unwrap();
        let deadline = Instant::now() + Duration::from_secs(30);
        while g.threads[tid].status == Status::Running {
            let (g2, _) = self.sim.cv.wait_timeout(g, Duration::from_millis(100)).unwrap();
            g = g2;
            if Instant::now() > deadline {
                g.stuck = Some(format!("thread '{}' did not return the token within 30 s", g.threads[tid].name));
                return false;
            }
        }
        true
    }

    /// kill -9 of node i.
    /// Like `kill_node`, but node `late` learns of the closed connections only after everything else that can happen
    /// has happened (messages first, then up to 7 timer ticks - less than half an election timeout): the end of a TCP
    /// connection is noticed by each peer on its own, and a delay below the election timeout is inside the premise.
    pub fn kill_node_noticed_late_by(&mut self, i: usize, late: usize) {
        self.late_eof.insert(late);
        self.late_ticks = 0;
        self.note(format!("n{} will notice late that n{} is gone", late, i));
        self.kill_node(i);
    }

    pub fn kill_node(&mut self, i: usize) {
        self.note(format!("n{} is killed", i));
        let mut to_wake = vec![];
        {
            let mut g = self.sim.inner.lock().unwrap();
            g.nodes[i].alive = false;
            if let Some(d) = g.nodes[i].dbs.as_ref() {
                REGISTRY.lock().unwrap().remove(&(Arc::as_ptr(d) as usize));
            }
            for (tid, t) in g.threads.iter_mut().enumerate() {
                if t.node == i && t.status != Status::Finished {
                    t.killed = true;
                    to_wake.push(tid);
                }
            }
            for l in g.links.iter_mut() {
                if l.from == i || l.to == i {
                    l.open = false;
                }
            }
        }
        for tid in to_wake {
            self.grant(tid);
        }
        let mut g = self.sim.inner.lock().unwrap();
        // the node object (files closed, channels dropped)
        g.nodes[i].node = None;
        g.nodes[i].dbs = None;
        g.nodes[i].repl_q.clear();
        g.nodes[i].sup_q.clear();
    }

    /// SIGINT: the node saves its key map / pending snapshots (safe_shutdown) and exits.
    pub fn clean_stop_node(&mut self, i: usize) {
        let mut node = { self.sim.inner.lock().unwrap().nodes[i].node.take().unwrap() };
        let r = std::panic::catch_unwind(std::panic::AssertUnwindSafe(|| node.safe_shutdown()));
        {
            let mut g = self.sim.inner.lock().unwrap();
            g.nodes[i].node = Some(node);
            if let Err(e) = r {
                g.panics.push(format!("safe_shutdown n{}: {}", i, panic_msg(&e)));
            }
        }
        self.note(format!("n{} shuts down cleanly", i));
        self.kill_node(i);
    }

    /// Empties the data directory of a stopped node (a new machine / lost disk).
    pub fn wipe_disk(&mut self, i: usize) {
        let dir = { self.sim.inner.lock().unwrap().nodes[i].dir.clone() };
        let _ = std::fs::remove_dir_all(&dir);
        std::fs::create_dir_all(&dir).unwrap();
        self.note(format!("n{}'s disk is wiped", i));
    }

    /// Opens a client session on node i; returns its handle.
    pub fn open_session(&mut self, name: &str, i: usize) {
        let tid = self.sim.register(format!("session {} on n{}", name, i), i, Kind::Session);
        let sim2 = self.sim.clone();
        std::thread::spawn(move || sim2.session_main(tid, i));
        self.wait_parked(tid);
        self.sessions.insert(name.to_string(), tid);
    }

    /// Queue a command for a session (executed when the scheduler picks it).
    pub fn send(&mut self, session: &str, line: &str) {
        let tid = self.sessions[session];
        let mut g = self.sim.inner.lock().unwrap();
        g.threads[tid].inbox.push_back(Input::Line(line.to_string()));
    }

    pub fn close_session(&mut self, session: &str) {
        let tid = self.sessions[session];
        let mut g = self.sim.inner.lock().unwrap();
        g.threads[tid].inbox.push_back(Input::Eof);
    }

    pub fn replies(&self, session: &str) -> Vec<(String, String, Vec<String>)> {
        let tid = self.sessions[session];
        self.sim.inner.lock().unwrap().threads[tid].replies.clone()
    }

    /// Runs one command on a session to completion right now (the session must be idle) and returns its reply.
    pub fn call(&mut self, session: &str, line: &str) -> (String, Vec<String>) {
        let tid = self.sessions[session];
        let before = { self.sim.inner.lock().unwrap().threads[tid].replies.len() };
        self.send(session, line);
        // let only this thread run until it is idle again
        for _ in 0..10_000 {
            let st = { self.sim.inner.lock().unwrap().threads[tid].status.clone() };
            match st {
                Status::WaitInput => {
                    let has = { !self.sim.inner.lock().unwrap().threads[tid].inbox.is_empty() };
                    if !has {
                        break;
                    }
                    self.grant(tid);
                }
                Status::AtPoint(_) => {
                    self.grant(tid);
                }
                _ => break,
            }
        }
        let g = self.sim.inner.lock().unwrap();
        let r = &g.threads[tid].replies;
        if r.len() > before {
            (r[r.len() - 1].1.clone(), r[r.len() - 1].2.clone())
        } else {
            ("<no reply>".to_string(), vec![])
        }
    }

    /// Let thread `tid` run until it gives the token back.
    fn grant(&self, tid: usize) -> bool {
        {
            let mut g = self.sim.inner.lock().unwrap();
            if g.threads[tid].status == Status::Finished {
                return true;
            }
            g.threads[tid].granted = true;
            g.threads[tid].status = Status::Running;
            self.sim.cv.notify_all();
        }
        self.wait_parked(tid)
    }

    /// Move what the nodes and links produced into the scheduler's queues.
    fn refresh(&self) {
        let mut g = self.sim.inner.lock().unwrap();
        let inner = &mut *g;
        for n in inner.nodes.iter_mut() {
            if !n.alive {
                continue;
            }
            if let Some(node) = n.node.as_mut() {
                while let Some(m) = node.take_repl() {
                    n.repl_q.push_back(m);
                }
                while let Some(m) = node.take_sup() {
                    n.sup_q.push_back(m);
                }
            }
        }
        for l in inner.links.iter_mut() {
            if self.stalled.contains(&(l.from, l.to)) {
                continue;
            }
            if let Some(rx) = l.cmd_rx.as_mut() {
                loop {
                    match rx.try_next() {
                        Ok(Some(m)) => l.a2b.push_back(m),
                        Ok(None) => {
                            l.cmd_closed = true;
                            break;
                        }
                        Err(_) => break,
                    }
                }
            }
            if let Some(rx) = l.srv_rx.as_mut() {
                loop {
                    match rx.try_next() {
                        // the client side ignores the plain "ok" status lines: they are not scheduled
                        Ok(Some(m)) => {
                            if m.trim() != "ok" {
                                l.b2a.push_back(m)
                            }
                        }
                        _ => break,
                    }
                }
            }
        }
    }

    /// One scheduling step. Returns false when nothing is enabled (quiescent).
    fn step(&mut self) -> bool {
        self.refresh();
        #[derive(Debug)]
        enum Act {
            DeliverToServer(usize),
            DeliverToClient(usize),
            EofToServer(usize),
            EofToClient(usize),
            FinishClient(usize),
            PumpRepl(usize),
            PumpSup(usize),
            Resume(usize),
            Tick(usize),
            SessionOp(usize),
            JoinStep(usize),
        }
        let mut acts: Vec<Act> = vec![];
        let mut ticks: Vec<Act> = vec![];
        let mut late: Vec<Act> = vec![];
        {
            let g = self.sim.inner.lock().unwrap();
            for (li, l) in g.links.iter().enumerate() {
                let srv = &g.threads[l.server_tid];
                let cli = &g.threads[l.client_tid];
                let from_alive = g.nodes[l.from].alive && !cli.killed;
                let to_alive = g.nodes[l.to].alive && !srv.killed;
                if srv.status == Status::WaitInput && to_alive {
                    if from_alive && l.open && (!l.pre.is_empty() || !l.a2b.is_empty()) {
                        acts.push(Act::DeliverToServer(li));
                    } else if (!from_alive || !l.open) && !l.eof_sent_to_server {
                        if self.late_eof.contains(&l.to) && !from_alive { late.push(Act::EofToServer(li)); } else { acts.push(Act::EofToServer(li)); }
                    }
                }
                if cli.status == Status::WaitInput && from_alive {
                    if !l.b2a.is_empty() {
                        acts.push(Act::DeliverToClient(li));
                    } else if (!to_alive || !l.open || srv.status == Status::Finished) && !l.eof_sent_to_client {
                        if self.late_eof.contains(&l.from) && !to_alive { late.push(Act::EofToClient(li)); } else { acts.push(Act::EofToClient(li)); }
                    }
                }
                if cli.status == Status::WaitClose && l.cmd_closed {
                    acts.push(Act::FinishClient(li));
                }
            }
            for (ni, n) in g.nodes.iter().enumerate() {
                if n.alive {
                    if !n.repl_q.is_empty() {
                        acts.push(Act::PumpRepl(ni));
                    }
                    if !n.sup_q.is_empty() {
                        acts.push(Act::PumpSup(ni));
                    }
                }
            }
            for (tid, t) in g.threads.iter().enumerate() {
                if t.killed {
                    continue;
                }
                match (&t.status, &t.kind) {
                    (Status::AtPoint(site), _) => {
                        if is_tick_site(site) {
                            ticks.push(Act::Tick(tid));
                        } else {
                            acts.push(Act::Resume(tid));
                        }
                    }
                    (Status::WaitInput, Kind::Session) if !t.inbox.is_empty() => acts.push(Act::SessionOp(tid)),
                    (Status::WaitInput, Kind::JoinConn) if !t.inbox.is_empty() => acts.push(Act::JoinStep(tid)),
                    _ => {}
                }
            }
        }
        // a tick is normally taken only when nothing else can happen (messages are faster than timeouts);
        // a few early ticks per wait are allowed so that a waiting election also observes intermediate states,
        // never enough of them to reach the election timeout (NUN_ELECTION_TIMEOUT / 2 ms ticks)
        let early: Vec<usize> = {
            let g = self.sim.inner.lock().unwrap();
            // (never the start-up timer: one second against milliseconds)
            // and never the 100 ms settle sleep: only the 2 ms polls of the two wait loops
            ticks.iter().filter_map(|a| if let Act::Tick(t) = a {
                let short_poll = matches!(&g.threads[*t].status, Status::AtPoint(s) if s == "election:wait_registered" || s == "election:wait_acks");
                if g.threads[*t].early_ticks < self.max_early_ticks && short_poll { Some(*t) } else { None }
            } else { None }).collect()
        };
        if !acts.is_empty() && !early.is_empty() && self.rng.chance(1, 6) {
            let t = early[self.rng.below(early.len())];
            {
                let mut g = self.sim.inner.lock().unwrap();
                g.steps += 1;
                g.ticks += 1;
                g.decisions.push(1000 + t as u32);
                g.threads[t].early_ticks += 1;
            }
            self.grant(t);
            return true;
        }
        if late.is_empty() {
            if !self.late_eof.is_empty() {
                self.late_eof.clear();
            }
            self.late_ticks = 0;
        } else if acts.is_empty() && (ticks.is_empty() || self.late_ticks >= 7) {
            // the late notices arrive now
            acts.append(&mut late);
        } else if acts.is_empty() {
            self.late_ticks += 1;
        }
        let is_tick = acts.is_empty();
        let pool = if acts.is_empty() { &mut ticks } else { &mut acts };
        if pool.is_empty() {
            return false;
        }
        let idx = self.rng.below(pool.len());
        let act = pool.swap_remove(idx);
        {
            let mut g = self.sim.inner.lock().unwrap();
            g.steps += 1;
            g.decisions.push(idx as u32);
            if is_tick {
                g.ticks += 1;
            }
        }
        match act {
            Act::DeliverToServer(li) => {
                let (tid, line) = {
                    let mut g = self.sim.inner.lock().unwrap();
                    let step = g.steps;
                    let l = &mut g.links[li];
                    let line = if let Some(p) = l.pre.pop_front() { p } else { l.a2b.pop_front().unwrap() };
                    let (from, to, tid) = (l.from, l.to, l.server_tid);
                    g.link_log.push((step, from, to, line.clone()));
                    g.threads[tid].inbox.push_back(Input::Line(line.clone()));
                    (tid, line)
                };
                let _ = line;
                self.grant(tid);
            }
            Act::DeliverToClient(li) => {
                let tid = {
                    let mut g = self.sim.inner.lock().unwrap();
                    let step = g.steps;
                    let l = &mut g.links[li];
                    let line = l.b2a.pop_front().unwrap();
                    let (from, to, tid) = (l.to, l.from, l.client_tid);
                    if line.trim() != "ok" {
                        g.link_log.push((step, from, to, line.trim_end().to_string()));
                    }
                    g.threads[tid].inbox.push_back(Input::Line(line));
                    tid
                };
                self.grant(tid);
            }
            Act::EofToServer(li) => {
                let tid = {
                    let mut g = self.sim.inner.lock().unwrap();
                    g.links[li].eof_sent_to_server = true;
                    g.links[li].open = false;
                    let tid = g.links[li].server_tid;
                    g.threads[tid].inbox.push_back(Input::Eof);
                    let step = g.steps;
                    let (f, t) = (g.links[li].from, g.links[li].to);
                    g.trace.push(format!("[{}] n{} sees the connection from n{} close", step, t, f));
                    tid
                };
                self.grant(tid);
            }
            Act::EofToClient(li) => {
                let tid = {
                    let mut g = self.sim.inner.lock().unwrap();
                    g.links[li].eof_sent_to_client = true;
                    g.links[li].open = false;
                    let tid = g.links[li].client_tid;
                    g.threads[tid].inbox.push_back(Input::Eof);
                    let step = g.steps;
                    let (f, t) = (g.links[li].from, g.links[li].to);
                    g.trace.push(format!("[{}] n{} sees its link to n{} close", step, f, t));
                    tid
                };
                self.grant(tid);
            }
            Act::FinishClient(li) => {
                let tid = { self.sim.inner.lock().unwrap().links[li].client_tid };
                self.grant(tid);
                // the production code after start_replication runs on that thread; give it a moment to finish
                std::thread::sleep(Duration::from_millis(1));
            }
            Act::PumpRepl(ni) => {
                let (m, mut node) = {
                    let mut g = self.sim.inner.lock().unwrap();
                    let m = g.nodes[ni].repl_q.pop_front().unwrap();
                    (m, g.nodes[ni].node.take().unwrap())
                };
                let r = std::panic::catch_unwind(std::panic::AssertUnwindSafe(|| node.feed_repl(m.clone())));
                let mut g = self.sim.inner.lock().unwrap();
                g.nodes[ni].node = Some(node);
                if let Err(e) = r {
                    g.panics.push(format!("replication loop n{} on '{}': {}", ni, m, panic_msg(&e)));
                }
            }
            Act::PumpSup(ni) => {
                let mut member_before: Option<Option<futures::channel::mpsc::Sender<String>>> = None;
                let mut sup_dbs: Option<(Arc<Databases>, String)> = None;
                let (m, mut node, mut expect) = {
                    let mut g = self.sim.inner.lock().unwrap();
                    let m = g.nodes[ni].sup_q.pop_front().unwrap();
                    let mut p = m.splitn(2, ' ');
                    let cmd = p.next().unwrap_or("");
                    let name = p.next().unwrap_or("").to_string();
                    let dbs = g.nodes[ni].dbs.clone().unwrap();
                    let link_cmd = matches!(cmd, "secoundary" | "primary" | "new-secoundary");
                    let expect = link_cmd && !dbs.has_cluster_memeber(&name);
                    if expect {
                        g.expected_registrations += 1;
                    }
                    // the queue of the member as it is now: if the supervisor replaces it, it has spawned a link thread
                    // for a member it already knew
                    member_before = if link_cmd && !expect { Some(member_sender(&dbs, &name)) } else { None };
                    sup_dbs = Some((dbs.clone(), name.clone()));
                    let step = g.steps;
                    g.trace.push(format!("[{}] n{} supervisor: {}", step, ni, m));
                    (m, g.nodes[ni].node.take().unwrap(), expect)
                };
                let r = std::panic::catch_unwind(std::panic::AssertUnwindSafe(|| node.feed_sup(m.clone())));
                {
                    let mut g = self.sim.inner.lock().unwrap();
                    g.nodes[ni].node = Some(node);
                    if let Err(e) = &r {
                        g.panics.push(format!("supervisor n{} on '{}': {}", ni, m, panic_msg(e)));
                        if expect {
                            g.expected_registrations = g.expected_registrations.saturating_sub(1);
                        }
                    }
                }
                if let (Some(before), Some((dbs, name)), true) = (member_before, sup_dbs, r.is_ok()) {
                    let now = member_sender(&dbs, &name);
                    let replaced = match (&before, &now) {
                        (Some(a), Some(b)) => !a.same_receiver(b),
                        (None, Some(_)) => true,
                        _ => false,
                    };
                    if replaced {
                        self.sim.inner.lock().unwrap().expected_registrations += 1;
                        expect = true;
                    }
                }
                if expect && r.is_ok() {
                    // the thread the supervisor spawned registers itself as the client side of the new link
                    let mut g = self.sim.inner.lock().unwrap();
                    let deadline = Instant::now() + Duration::from_secs(30);
                    while g.registrations_done < g.expected_registrations {
                        let (g2, _) = self.sim.cv.wait_timeout(g, Duration::from_millis(50)).unwrap();
                        g = g2;
                        if Instant::now() > deadline {
                            g.stuck = Some("a link thread spawned by the supervisor never registered".into());
                            g.registrations_done = g.expected_registrations;
                            break;
                        }
                    }
                    // and parks waiting for input
                    let tids: Vec<usize> = g.threads.iter().enumerate().filter(|(_, t)| t.status == Status::Running).map(|(i, _)| i).collect();
                    drop(g);
                    for t in tids {
                        self.wait_parked(t);
                    }
                }
            }
            Act::Resume(tid) | Act::Tick(tid) | Act::SessionOp(tid) | Act::JoinStep(tid) => {
                self.grant(tid);
            }
        }
        true
    }

    /// Run until nothing is enabled (quiescence), the step budget is exhausted or a thread is stuck.
    pub fn run_until_quiet(&mut self) -> Outcome {
        let start = { self.sim.inner.lock().unwrap().steps };
        loop {
            if let Some(s) = { self.sim.inner.lock().unwrap().stuck.clone() } {
                return Outcome::Stuck(s);
            }
            let now = { self.sim.inner.lock().unwrap().steps };
            if now - start > self.budget {
                return Outcome::BudgetExceeded;
            }
            if !self.step() {
                let n = now - start;
                self.max_quiet_steps = self.max_quiet_steps.max(n);
                return Outcome::Quiet(n);
            }
        }
    }

    /// Runs at most `k` scheduling steps.
    pub fn run_steps(&mut self, k: u64) -> bool {
        for _ in 0..k {
            if !self.step() {
                return false;
            }
        }
        true
    }

    pub fn declutter(&mut self, i: usize) {
        let mut node = { self.sim.inner.lock().unwrap().nodes[i].node.take().unwrap() };
        // whatever the timer finds queued goes through the loop first, as the loop thread would have done
        let r = std::panic::catch_unwind(std::panic::AssertUnwindSafe(|| {
            node.enter();
            nundb::disk_ops::verif_declutter(&node.dbs);
        }));
        let mut g = self.sim.inner.lock().unwrap();
        g.nodes[i].node = Some(node);
        if let Err(e) = r {
            g.panics.push(format!("declutter n{}: {}", i, panic_msg(&e)));
        }
    }

    // ------------------------------------------------------------ observation
    pub fn roles(&self) -> Vec<Option<String>> {
        let g = self.sim.inner.lock().unwrap();
        g.nodes.iter().map(|n| if n.alive { n.dbs.as_ref().map(|d| d.get_role().to_string()) } else { None }).collect()
    }

    /// For every live node: the primary named by its cluster state (None if none, "many" if several)
    pub fn views(&self) -> Vec<Option<String>> {
        let g = self.sim.inner.lock().unwrap();
        g.nodes
            .iter()
            .map(|n| {
                if !n.alive {
                    return None;
                }
                let d = n.dbs.as_ref().unwrap();
                let cs = d.cluster_state.lock().unwrap();
                let members = cs.members.lock().unwrap();
                let prims: Vec<String> = members.values().filter(|m| m.role == ClusterRole::Primary).map(|m| m.name.clone()).collect();
                Some(match prims.len() {
                    0 => "none".to_string(),
                    1 => prims[0].clone(),
                    _ => "many".to_string(),
                })
            })
            .collect()
    }

    pub fn members(&self, i: usize) -> Vec<String> {
        let g = self.sim.inner.lock().unwrap();
        let d = g.nodes[i].dbs.as_ref().unwrap();
        let cs = d.cluster_state.lock().unwrap();
        let members = cs.members.lock().unwrap();
        let mut m: Vec<String> = members.values().map(|m| format!("{}:{}{}", m.name, m.role, if m.sender.is_some() { "" } else { "(no link)" })).collect();
        m.sort();
        m
    }

    pub fn pending_ops(&self, i: usize) -> usize {
        let g = self.sim.inner.lock().unwrap();
        g.nodes[i].dbs.as_ref().map(|d| d.pending_opps.read().unwrap().len()).unwrap_or(0)
    }

    /// db -> key -> (value, version) of live keys on node i (without $connections)
    pub fn dataset(&self, i: usize) -> BTreeMap<String, BTreeMap<String, (String, i32)>> {
        let g = self.sim.inner.lock().unwrap();
        let mut out = BTreeMap::new();
        if let Some(d) = g.nodes[i].dbs.as_ref() {
            let map = d.map.read().unwrap();
            for (n, db) in map.iter() {
                if n == "$admin" {
                    continue;
                }
                let m = db.map.read().unwrap();
                let keys: BTreeMap<String, (String, i32)> = m
                    .iter()
                    .filter(|(k, v)| v.state != nundb::bo::ValueStatus::Deleted && k.as_str() != "$connections")
                    .map(|(k, v)| (k.clone(), (v.value.clone(), v.version)))
                    .collect();
                out.insert(format!("{} [{}]", n, db.metadata.consensus_strategy), keys);
            }
        }
        out
    }

    pub fn trace(&self) -> Vec<String> {
        self.sim.inner.lock().unwrap().trace.clone()
    }

    pub fn link_log(&self) -> Vec<(u64, usize, usize, String)> {
        self.sim.inner.lock().unwrap().link_log.clone()
    }

    pub fn steps(&self) -> u64 {
        self.sim.inner.lock().unwrap().steps
    }

    pub fn panics(&self) -> Vec<String> {
        self.sim.inner.lock().unwrap().panics.clone()
    }

    pub fn wins(&self) -> Vec<(usize, String)> {
        self.sim.inner.lock().unwrap().election_wins.clone()
    }

    pub fn decisions_hash(&self) -> u64 {
        let g = self.sim.inner.lock().unwrap();
        let s: String = g.decisions.iter().map(|d| format!("{},", d)).collect();
        fnv(&s)
    }

    /// Stops every thread of the simulation and removes its files.
    pub fn shutdown(mut self) {
        let n = self.n();
        for i in 0..n {
            if self.alive(i) {
                self.kill_node(i);
            }
        }
        // threads that were not tied to a live node any more
        let tids: Vec<usize> = {
            let mut g = self.sim.inner.lock().unwrap();
            let mut v = vec![];
            for (tid, t) in g.threads.iter_mut().enumerate() {
                if t.status != Status::Finished {
                    t.killed = true;
                    v.push(tid);
                }
            }
            v
        };
        for t in tids {
            self.grant(t);
        }
        let _ = std::fs::remove_dir_all(&self.base_dir);
    }
}

// ================================================================ C15 end-to-end part
pub struct C15Cluster {
    pub runs: u64,
    pub acks: u64,
}

pub fn c15_end_to_end(v: &crate::common::kf::Verdicts, tier: &str) -> C15Cluster {
    std::env::set_var("NUN_ELECTION_TIMEOUT", "30");
    let runs = if tier == "thorough" { 200 } else { 24 };
    let mut out = C15Cluster { runs: 0, acks: 0 };
    for r in 0..runs {
        let mut c = Cluster::new(3, seed() * 1000 + r, "c15");
        c.start_node(0, 100, &[]);
        if c.run_until_quiet() != Outcome::Quiet(0) && false {}
        c.start_node(1, 200, &[0, 1]);
        let _ = c.run_until_quiet();
        c.start_node(2, 300, &[0, 1, 2]);
        let q = c.run_until_quiet();
        if !matches!(q, Outcome::Quiet(_)) {
            v.inconclusive(&format!("cluster run for C15 did not become quiet: {:?}", q));
            c.shutdown();
            continue;
        }
        // a few writes on the primary, then quiescence with stable membership
        let prim = (0..3).find(|i| c.roles()[*i].as_deref() == Some("Primary"));
        if let Some(p) = prim {
            c.open_session("w", p);
            c.call("w", "auth admin pwd");
            c.call("w", "create-db d t");
            c.call("w", "use-db d t");
            for k in 0..4 {
                c.send("w", &format!("set k{} v{}", k, k));
            }
            let _ = c.run_until_quiet();
        }
        let acks = c.link_log().iter().filter(|l| l.3.starts_with("ack ")).count() as u64;
        out.acks += acks;
        out.runs += 1;
        for i in 0..3 {
            let p = c.pending_ops(i);
            if p != 0 {
                v.report(
                    json!({"check": "pending", "problem": "pending-count-not-zero-at-quiescence", "node_role": c.roles()[i].clone().unwrap_or_default()}),
                    json!({"node": i, "pending": p, "trace": c.trace(), "links": c.link_log().iter().map(|l| format!("[{}] n{}->n{} {}", l.0, l.1, l.2, l.3)).collect::<Vec<_>>()}),
                );
                break;
            }
        }
        c.shutdown();
    }
    out
}
