mod common;
mod c01;
mod c02;
mod c03;
mod c04;
mod c05;
mod c06;
mod c07;
mod c08;
mod c09;
mod c10;
mod c11;
mod crash;
mod c12;
mod c13;
mod c14;
mod c15;
mod c16;
mod cluster;
mod c17;
mod c18;
mod c19;
mod c20;
mod transports;
mod selftest;
mod real;
mod realparts;

fn main() {
    let args: Vec<String> = std::env::args().collect();
    if args.len() < 2 {
        eprintln!("usage: nunverif <property|selftest> <quick|thorough> [args]");
        std::process::exit(64);
    }
    if !["load-probe", "C12-child", "crash-child", "c16-child", "c16-load", "c18-child"].contains(&args[1].as_str()) {
        common::init_default_dir();
    }
    let tier = args.get(2).map(|s| s.as_str()).unwrap_or("quick");
    // wall-clock watchdog around the whole run: a node that wedges (a lock held forever in the code under test) must not
    // hang the check. Its firing is INCONCLUSIVE, never a verdict; the limits are far above any run on a loaded machine.
    if args[1].starts_with('C') && args[1].len() == 3 {
        let limit: u64 = std::env::var("VERIF_WATCHDOG_S").ok().and_then(|x| x.parse().ok()).unwrap_or(if tier == "thorough" { 6 * 3600 } else { 1500 });
        let prop = args[1].clone();
        common::hang::install(&prop, tier);
        std::thread::spawn(move || {
            std::thread::sleep(std::time::Duration::from_secs(limit));
            println!("INCONCLUSIVE property={} reason=watchdog: the run did not finish within {} s (a thread of the node under test or of the harness is blocked)", prop, limit);
            common::cleanup_scratch();
            std::process::exit(2);
        });
    }
    let code = std::panic::catch_unwind(|| run(&args, tier)).unwrap_or_else(|e| {
        println!("INCONCLUSIVE property={} reason=harness error: {}", args[1], common::panic_msg(&e));
        2
    });
    std::process::exit(code);
}

fn run(args: &[String], tier: &str) -> i32 {
    match args[1].as_str() {
        "selftest" => selftest::run(),
        "C01" => c01::run(tier),
        "C02" => c02::run(tier),
        "C03" => c03::run(tier),
        "C04" => c04::run(tier),
        "C05" => c05::run(tier),
        "c06-race" => {
            common::quiet_panics();
            let v = common::kf::Verdicts::load("C06");
            let n: usize = args.get(2).and_then(|x| x.parse().ok()).unwrap_or(50);
            let (a, b) = c06::snapshot_race(&v, n);
            println!("c06-race: {} rounds, {} overlapped, {} violations", a, b, v.violation_count());
            v.finish("race")
        }
        "c06-inj" => {
            common::quiet_panics();
            let v = common::kf::Verdicts::load("C06");
            let n: usize = args.get(2).and_then(|x| x.parse().ok()).unwrap_or(400);
            let (a, b, sh) = c06::snapshot_injection(&v, common::seed(), n);
            println!("c06-inj: {} cases, {} fired, {} shapes, {} violations", a, b, sh.len(), v.violation_count());
            v.finish("inj")
        }
        "c05-race" => {
            // only the free-running part of C05 (debugging aid): nunverif c05-race <attempts>
            common::quiet_panics();
            let v = common::kf::Verdicts::load("C05");
            let n: usize = args.get(2).and_then(|x| x.parse().ok()).unwrap_or(1000);
            let st = c05::sync_race(&v, n, common::seed());
            println!("c05-race: {} attempts, {} overlapped, {} keys judged, {} violations", st.attempts, st.overlapped, st.keys_judged, v.violation_count());
            v.finish("race")
        }
        "C06" => c06::run(tier),
        "C07" => c07::run(tier),
        "sim-smoke" => c07::smoke(),
        "real-smoke" => real::smoke(),
        "script" => {
            // debugging aid: nunverif script "<line>" "<line>" ... ; lines starting with "B:" / "C:" go to a second / third session
            common::quiet_panics();
            let (node, _adm) = c02::mem_node(&[("db", "none"), ("adb", "arbiter"), ("ndb", "newer")]);
            let mut sessions = vec![common::session::Session::new(), common::session::Session::new(), common::session::Session::new()];
            let mut last_conflict = String::new();
            for l in &args[2..] {
                let l = &l.replace("{last}", &last_conflict);
                let (i, line) = if let Some(r) = l.strip_prefix("B:") { (1, r) } else if let Some(r) = l.strip_prefix("C:") { (2, r) } else { (0, l.as_str()) };
                let dbs = node.dbs.clone();
                let s = &mut sessions[i];
                match std::panic::catch_unwind(std::panic::AssertUnwindSafe(|| s.call(&dbs, line))) {
                    Ok(r) => {
                        if let Some(p) = r.resp.find("$conflicts_") {
                            last_conflict = r.resp[p..].split(|c: char| c == ' ' || c == ',').next().unwrap_or("").to_string();
                        }
                        println!("[{}] {:40} -> {} {:?}", i, line, r.resp, r.pushed)
                    }
                    Err(e) => println!("[{}] {:40} -> PANIC {} ({:?})", i, line, common::panic_msg(&e), common::take_panics()),
                }
            }
            0
        }
        "slow-sub" => {
            // debugging aid: nunverif slow-sub <writes> <value bytes>
            common::quiet_panics();
            let n: usize = args.get(2).and_then(|x| x.parse().ok()).unwrap_or(2000);
            let len: usize = args.get(3).and_then(|x| x.parse().ok()).unwrap_or(4000);
            let dir = common::fresh_dir("slowsub");
            match transports::slow_tcp_subscriber(&dir, n, len) {
                Some(s) => {
                    let holes = s.received.windows(2).filter(|w| w[1] != w[0] + 1).count();
                    println!("writes {} received {} first {:?} last {:?} holes {} ended_by_server {} count {} -> {} -> {} watchers_left {} served {} panics {:?}", s.writes, s.received.len(), s.received.first(), s.received.last(), holes, s.ended_by_server, s.count_before, s.count_with, s.count_after, s.watchers_left, s.served_afterwards, s.panics);
                }
                None => println!("could not start"),
            }
            common::cleanup_scratch();
            0
        }
        "real-part" => {
            // debugging aid: nunverif real-part <C04|C05|C06|C07> <runs>
            common::quiet_panics();
            let which = args.get(2).cloned().unwrap_or_default();
            let n: usize = args.get(3).and_then(|x| x.parse().ok()).unwrap_or(8);
            let v = common::kf::Verdicts::load(&which);
            let st = match which.as_str() {
                "C04" => realparts::c04_real(&v, n, common::seed()),
                "C05" => realparts::c05_real(&v, n, common::seed()),
                "C06" => realparts::c06_real(&v, n, common::seed()),
                "C14" => realparts::c14_real(&v, n, common::seed()),
                "C10" => realparts::c10_real(&v, n > 8),
                "C16" => realparts::c16_real(&v, n, common::seed()),
                _ => realparts::c07_real(&v, n, common::seed()),
            };
            println!("{}", serde_json::to_string_pretty(&st.to_json()).unwrap());
            if std::env::var("VERIF_KEEP").is_err() {
                common::cleanup_scratch();
            }
            v.finish("real")
        }
        "C08" => c08::run(tier),
        "C09" => c09::run(tier),
        "C10" => c10::run(tier),
        "C11" => c11::run(tier),
        "crash-child" => crash::c11_child(&args),
        "C12" => c12::run(tier),
        "C12-child" => c12::child(&args),
        "C13" => c13::run(tier),
        "C14" => c14::run(tier),
        "C15" => c15::run(tier),
        "C16" => c16::run(tier),
        "c16-child" => c16::child(args),
        "c16-load" => c16::load_child(args),
        "c16-small" => c16::small_child(args),
        "c05-rotating" => c05::rotating_child(args),
        "C17" => c17::run(tier),
        "C18" => c18::run(tier),
        "c18-child" => c18::child(args),
        "C19" => c19::run(tier),
        "C20" => c20::run(tier),
        "load-probe" => c06::load_probe_child(&args[3]),
        other => {
            eprintln!("unknown sub-command {}", other);
            64
        }
    }
}
