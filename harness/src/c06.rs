//! C06 — snapshot then restart restores exactly the snapshotted state.
//! Implementation-vs-itself oracle: the dataset the node holds at the moment a
//! snapshot completes is the expected image; after every restart each
//! snapshotted database must equal the image of its last completed snapshot.
use crate::common::evidence::Evidence;
use crate::common::kf::Verdicts;
use crate::common::node::{Node, NodeOpts};
use crate::common::rng::Rng;
use crate::common::session::{resp_str, Session};
use crate::common::*;
use nundb::bo::{ClusterRole, ValueStatus};
use serde_json::json;
use std::collections::{BTreeMap, BTreeSet};
use std::sync::Mutex;

#[derive(Clone, Debug)]
pub enum Op {
    Set(usize, String, usize),  // db, key, value class
    SetSafe(usize, String, usize),
    Remove(usize, String),
    Inc(usize, String),
    Snapshot(usize, bool),
    SnapshotBoth(bool),
    Declutter,
    Restart,
}

pub const DBS: [(&str, &str); 2] = [("one", "none"), ("two", "arbiter")];

#[derive(Clone, Debug, PartialEq)]
pub struct Image {
    pub id: usize,
    pub strategy: String,
    pub keys: BTreeMap<String, (String, i32)>,
}

pub fn image_of(node: &Node, db: &str) -> Option<Image> {
    let map = node.dbs.map.read().unwrap();
    let d = map.get(db)?;
    let m = d.map.read().unwrap();
    let keys = m
        .iter()
        .filter(|(k, v)| v.state != ValueStatus::Deleted && k.as_str() != "$connections")
        .map(|(k, v)| (k.clone(), (v.value.clone(), v.version)))
        .collect();
    Some(Image { id: d.metadata.id, strategy: d.metadata.consensus_strategy.to_string(), keys })
}

/// Run the start-up sequence on `dir` in a child process; Err(reason) if it panics or aborts.
pub fn load_probe(dir: &str) -> Result<String, String> {
    let exe = std::env::current_exe().unwrap();
    let mut cmd = std::process::Command::new(exe);
    cmd.arg("load-probe").arg("x").arg(dir);
    cap_child_memory(&mut cmd);
    let out = cmd.output().map_err(|e| format!("spawn: {}", e))?;
    if out.status.success() {
        Ok(String::from_utf8_lossy(&out.stdout).to_string())
    } else {
        let err = String::from_utf8_lossy(&out.stderr);
        let first = err.lines().find(|l| l.contains("panicked") || l.contains("memory allocation") || l.contains("overflow")).unwrap_or("").to_string();
        let kind = if err.contains("memory allocation") { "abort-alloc" } else if err.contains("panicked") { "panic" } else { "died" };
        Err(format!("{}: {} {}", kind, out.status, first))
    }
}

/// Child side of `load_probe`.
pub fn load_probe_child(dir: &str) -> i32 {
    let mut o = NodeOpts::simple(dir);
    o.load_from_disk = true;
    let node = Node::start(o);
    let mut out = BTreeMap::new();
    let names: Vec<String> = node.dbs.map.read().unwrap().keys().cloned().collect();
    for n in names {
        if let Some(i) = image_of(&node, &n) {
            out.insert(n, image_json(&i));
        }
    }
    println!("{}", json!(out));
    0
}

fn image_json(i: &Image) -> serde_json::Value {
    json!({"id": i.id, "strategy": i.strategy, "keys": i.keys.iter().map(|(k, v)| (k.clone(), json!([v.0, v.1]))).collect::<BTreeMap<_, _>>()})
}

pub fn value_of_class(class: usize, n: u64) -> String {
    match class {
        0 => String::new(),
        1 => format!("{}", n % 10),
        2 => format!("v{:06}", n % 1_000_000),
        3 => format!("L{}-{}", n, "x".repeat(300)),
        4 => format!("ü{}é漢", n),
        _ => format!("{}", (n % 50) as i64 - 25),
    }
}

pub struct Stats {
    pub histories: u64,
    pub restarts_compared: u64,
    pub db_images_compared: u64,
    pub snapshots_completed: u64,
    pub transitions: BTreeSet<String>,
    pub nontrivial: BTreeSet<u64>,
    pub samples: Vec<serde_json::Value>,
}

struct Run {
    node: Option<Node>,
    dir: String,
    adm: Session,
    selected: Option<usize>,
    images: BTreeMap<String, Image>,
    counter: u64,
    real_loop: bool,
}

impl Run {
    fn start_node(dir: &str, real_loop: bool) -> Node {
        let mut o = NodeOpts::simple(dir);
        o.load_from_disk = true;
        o.real_loop = real_loop;
        let n = Node::start(o);
        n.set_role(ClusterRole::Primary);
        n
    }
    fn new(dir: &str, real_loop: bool) -> Run {
        let node = Run::start_node(dir, real_loop);
        let mut adm = Session::new();
        adm.call(&node.dbs, "auth admin pwd");
        Run { node: Some(node), dir: dir.to_string(), adm, selected: None, images: BTreeMap::new(), counter: 0, real_loop }
    }
    fn node(&mut self) -> &mut Node {
        self.node.as_mut().unwrap()
    }
    fn ensure_db(&mut self, db: usize, trace: &mut Vec<serde_json::Value>) {
        let (name, strat) = DBS[db];
        let dbs = self.node().dbs.clone();
        if !dbs.has_db(name) {
            let r = self.adm.call(&dbs, &format!("create-db {} tok-{} {}", name, name, strat));
            trace.push(json!({"line": format!("create-db {} tok-{} {}", name, name, strat), "reply": r.resp}));
            self.selected = None;
        }
        if self.selected != Some(db) {
            let r = self.adm.call(&dbs, &format!("use-db {} tok-{}", name, name));
            trace.push(json!({"line": format!("use-db {} tok-{}", name, name), "reply": r.resp}));
            self.selected = Some(db);
        }
    }
}

fn run_history(ops: &[Op], dir: &str, real_loop: bool, v: &Verdicts, stats: &Mutex<Stats>) {
    let mut run = Run::new(dir, real_loop);
    let mut trace: Vec<serde_json::Value> = vec![];
    let desc: Vec<String> = ops.iter().map(|o| format!("{:?}", o)).collect();
    let hhash = fnv(&desc.join("|"));
    let mut transitions: Vec<String> = vec![];
    let mut restarts = 0u64;
    let mut compared = 0u64;
    let mut snaps = 0u64;
    let mut ops_v: Vec<Op> = ops.to_vec();
    // every history ends with: complete pending snapshots, restart, compare
    ops_v.push(Op::Declutter);
    ops_v.push(Op::Restart);
    let mut pending_kinds: BTreeMap<String, bool> = BTreeMap::new();
    let mut aborted = false;
    'ops: for op in &ops_v {
        match op {
            Op::Set(db, k, _) | Op::SetSafe(db, k, _) | Op::Remove(db, k) | Op::Inc(db, k) => {
                run.ensure_db(*db, &mut trace);
                let name = DBS[*db].0;
                let st = {
                    let node = run.node();
                    let map = node.dbs.map.read().unwrap();
                    let m = map.get(name).unwrap().map.read().unwrap();
                    m.get(k).map(|v| format!("{:?}", v.state)).unwrap_or("absent".into())
                };
                run.counter += 1;
                let n = run.counter;
                let line = match op {
                    Op::Set(_, k, c) => format!("set {} {}", k, value_of_class(*c, n)),
                    Op::SetSafe(_, k, c) => {
                        let dbs = run.node().dbs.clone();
                        let r = run.adm.call_raw(&dbs, &format!("get-safe {}", k));
                        run.adm.drain();
                        let ver = match r {
                            nundb::bo::Response::Value { version, .. } => version,
                            _ => 0,
                        };
                        format!("set-safe {} {} {}", k, ver.max(0), value_of_class(*c, n))
                    }
                    Op::Remove(_, k) => format!("remove {}", k),
                    Op::Inc(_, k) => format!("increment {} 3", k),
                    _ => unreachable!(),
                };
                let dbs = run.node().dbs.clone();
                let r = std::panic::catch_unwind(std::panic::AssertUnwindSafe(|| run.adm.call(&dbs, &line)));
                run.node().pump();
                let word = line.split(' ').next().unwrap().to_string();
                match r {
                    Ok(r) => {
                        trace.push(json!({"db": name, "line": if line.len() > 60 { format!("{}…", &line[..60]) } else { line.clone() }, "key_state_before": st, "reply": r.resp}));
                        transitions.push(format!("{}/{}", word, st));
                    }
                    Err(e) => {
                        let sig = json!({"check": "panic", "op": word, "key_state_before": st, "panic": panic_msg(&e).split(':').next().unwrap_or("").to_string()});
                        v.report(sig, json!({"history": desc, "trace": trace}));
                        aborted = true;
                        break 'ops;
                    }
                }
            }
            Op::Snapshot(db, reclaim) => {
                run.ensure_db(*db, &mut trace);
                let name = DBS[*db].0;
                let dbs = run.node().dbs.clone();
                let line = format!("snapshot {} {}", reclaim, name);
                let r = run.adm.call(&dbs, &line);
                run.node().pump();
                trace.push(json!({"line": line, "reply": r.resp}));
                pending_kinds.insert(name.to_string(), *reclaim);
            }
            Op::SnapshotBoth(reclaim) => {
                run.ensure_db(0, &mut trace);
                run.ensure_db(1, &mut trace);
                let dbs = run.node().dbs.clone();
                let line = format!("snapshot {} {}|{}", reclaim, DBS[0].0, DBS[1].0);
                let r = run.adm.call(&dbs, &line);
                run.node().pump();
                trace.push(json!({"line": line, "reply": r.resp}));
                pending_kinds.insert(DBS[0].0.to_string(), *reclaim);
                pending_kinds.insert(DBS[1].0.to_string(), *reclaim);
            }
            Op::Declutter => {
                let queued: Vec<(String, bool)> = run.node().dbs.to_snapshot.read().unwrap().clone();
                let mut imgs = vec![];
                for (name, _) in &queued {
                    if let Some(img) = image_of(run.node(), name) {
                        imgs.push((name.clone(), img));
                    }
                }
                let res = std::panic::catch_unwind(std::panic::AssertUnwindSafe(|| run.node().declutter()));
                match res {
                    Ok(()) => {
                        for (name, img) in imgs {
                            let kinds: Vec<String> = img.keys.len().to_string().chars().map(|c| c.to_string()).collect();
                            let _ = kinds;
                            trace.push(json!({"declutter": name, "image": image_json(&img)}));
                            run.images.insert(name.clone(), img);
                            snaps += 1;
                            transitions.push(format!("snapshot-completed/{}", if *pending_kinds.get(&name).unwrap_or(&false) { "reclaim" } else { "incremental" }));
                        }
                        pending_kinds.clear();
                    }
                    Err(e) => {
                        let sig = json!({"check": "panic", "op": "snapshot-write", "panic": panic_msg(&e).split(':').next().unwrap_or("").to_string()});
                        trace.push(json!({"declutter": "PANIC", "msg": panic_msg(&e)}));
                        v.report(sig, json!({"history": desc, "trace": trace}));
                        aborted = true;
                        break 'ops;
                    }
                }
            }
            Op::Restart => {
                run.node = None; // drop everything (process death after the last completed system call)
                let dirc = run.dir.clone();
                let rl = run.real_loop;
                // an allocation failure in the loader aborts the process, so the load is first tried in a child
                if let Err(why) = load_probe(&dirc) {
                    let sig = json!({"check": "restart-fails", "how": why.split(':').next().unwrap_or("").to_string()});
                    trace.push(json!({"restart": "FAILED", "msg": why}));
                    v.report(sig, json!({"history": desc, "trace": trace, "explanation": "the start-up sequence died on the files left by completed snapshots"}));
                    aborted = true;
                    break 'ops;
                }
                let node = Run::start_node(&dirc, rl);
                run.node = Some(node);
                run.adm = Session::new();
                let dbs = run.node().dbs.clone();
                run.adm.call(&dbs, "auth admin pwd");
                run.selected = None;
                pending_kinds.clear();
                restarts += 1;
                trace.push(json!({"restart": true}));
                // compare every database against the image of its last completed snapshot
                for (name, _) in DBS.iter() {
                    let got = image_of(run.node(), name);
                    let want = run.images.get(*name).cloned();
                    compared += 1;
                    if got == want {
                        continue;
                    }
                    let (kind, detail) = match (&want, &got) {
                        (Some(_), None) => ("snapshotted-db-missing".to_string(), String::new()),
                        (None, Some(_)) => ("never-snapshotted-db-present".to_string(), String::new()),
                        (Some(w), Some(g)) => {
                            if w.id != g.id {
                                ("db-id-differs".to_string(), String::new())
                            } else if w.strategy != g.strategy {
                                ("strategy-differs".to_string(), String::new())
                            } else {
                                let mut kinds = BTreeSet::new();
                                for (k, wv) in &w.keys {
                                    match g.keys.get(k) {
                                        None => {
                                            kinds.insert("key-missing");
                                        }
                                        Some(gv) if gv.0 != wv.0 => {
                                            kinds.insert("value-differs");
                                        }
                                        Some(gv) if gv.1 != wv.1 => {
                                            kinds.insert("version-differs");
                                        }
                                        _ => {}
                                    }
                                }
                                for k in g.keys.keys() {
                                    if !w.keys.contains_key(k) {
                                        kinds.insert("removed-or-unknown-key-present");
                                    }
                                }
                                ("dataset-differs".to_string(), kinds.into_iter().collect::<Vec<_>>().join("+"))
                            }
                        }
                        _ => unreachable!(),
                    };
                    // the shortest suffix of operation kinds on the affected db since its previous completed snapshot is part of the trace, not the signature
                    let sig = json!({"check": "restore", "kind": kind, "detail": detail});
                    let replay = json!({"history": desc, "trace": trace, "db": name,
                        "expected_image": want.as_ref().map(image_json), "restored": got.as_ref().map(image_json),
                        "explanation": "database after restart differs from the dataset held when its last snapshot completed"});
                    if !v.report(sig, replay) {
                        aborted = true;
                        break 'ops;
                    }
                    // known finding: continue from what the node holds now
                    match got {
                        Some(g) => {
                            run.images.insert(name.to_string(), g);
                        }
                        None => {
                            run.images.remove(*name);
                        }
                    }
                }
                // restored == image from here on; un-snapshotted dbs are gone
            }
        }
    }
    let _ = aborted;
    let mut s = stats.lock().unwrap();
    s.histories += 1;
    s.restarts_compared += restarts;
    s.db_images_compared += compared;
    s.snapshots_completed += snaps;
    let persisted_touch = transitions.iter().any(|t| t.ends_with("/Ok") || t.ends_with("/Updated") || t.ends_with("/Deleted"));
    for t in transitions {
        s.transitions.insert(t);
    }
    if snaps > 0 && persisted_touch {
        s.nontrivial.insert(hhash);
        if s.samples.len() < 3 {
            s.samples.push(json!({"history": desc, "trace": trace}));
        }
    }
}

fn alphabet() -> Vec<Op> {
    vec![
        Op::Set(0, "k1".into(), 2),
        Op::Set(0, "k2".into(), 1),
        Op::Set(0, "k1".into(), 3),
        Op::Remove(0, "k1".into()),
        Op::Inc(0, "k2".into()),
        Op::SetSafe(0, "k1".into(), 4),
        Op::Snapshot(0, false),
        Op::Snapshot(0, true),
        Op::Declutter,
        Op::Restart,
    ]
}

fn random_op(r: &mut Rng) -> Op {
    let keys = ["k1", "k2", "k3"];
    let db = if r.chance(1, 4) { 1 } else { 0 };
    let k = r.pick(&keys).to_string();
    match r.below(24) {
        0..=5 => Op::Set(db, k, r.below(6)),
        6..=7 => Op::SetSafe(db, k, r.below(6)),
        8..=10 => Op::Remove(db, k),
        11..=13 => Op::Inc(db, k),
        14..=16 => Op::Snapshot(db, false),
        17 => Op::Snapshot(db, true),
        18 => Op::SnapshotBoth(r.chance(1, 3)),
        19..=21 => Op::Declutter,
        _ => Op::Restart,
    }
}

/// Free-running part: client sessions keep writing their own keys while the snapshot action (what the timer thread runs)
/// works on the same database; then everything stops, one more incremental snapshot completes, and the node restarts.
/// Judged: (1) after the writers stopped, memory holds every writer's last acknowledged value (a snapshot must not roll a
/// racing write back); (2) the restart restores the image of that last quiescent snapshot.
pub fn snapshot_race(v: &Verdicts, rounds: usize) -> (u64, u64) {
    use std::sync::atomic::{AtomicBool, Ordering};
    let (mut done, mut overlapped) = (0u64, 0u64);
    // injected delay: the snapshot dawdles before it marks each key as stored
    nundb::verif::set_point_callback(Some(std::sync::Arc::new(|site: &str| {
        if site == "db.map:set_value_version" && ON_SNAPSHOT_THREAD.with(|f| f.get()) {
            let until = std::time::Instant::now() + std::time::Duration::from_micros(40);
            while std::time::Instant::now() < until {
                std::hint::spin_loop();
            }
        }
    })));
    for r in 0..rounds {
        let dir = fresh_dir("c06-race");
        let node = Run::start_node(&dir, false);
        let dbs = node.dbs.clone();
        let mut adm = Session::new();
        adm.call(&dbs, "auth admin pwd");
        adm.call(&dbs, "create-db one tok-one none");
        adm.call(&dbs, "use-db one tok-one");
        const WRITERS: usize = 2;
        const KEYS: usize = 150;
        for w in 0..WRITERS {
            for i in 0..KEYS {
                adm.call(&dbs, &format!("set w{}k{} init", w, i));
            }
        }
        adm.call(&dbs, "snapshot false one");
        nundb::disk_ops::verif_declutter(&dbs);
        let stop = AtomicBool::new(false);
        let snaps = std::sync::atomic::AtomicU64::new(0);
        let mut last: Vec<BTreeMap<String, Option<String>>> = vec![];
        // every other round the writers end with a snapshot request of their own and nobody asks again afterwards
        let client_requests = r % 2 == 1;
        std::thread::scope(|sc| {
            let hs: Vec<_> = (0..WRITERS)
                .map(|w| {
                    let dbs = dbs.clone();
                    let snaps = &snaps;
                    sc.spawn(move || {
                        let mut s = Session::new();
                        s.call(&dbs, "use-db one tok-one");
                        let mut mine = BTreeMap::new();
                        // three paced passes over the writer's keys: a key written in one pass is dirty, a snapshot copies it,
                        // and the next pass writes it again while that snapshot is still working through its copies; the last
                        // pass is every key's last write, so whatever the race did to it stays visible
                        for pass in 0..3 {
                            for i in 0..KEYS {
                                // mostly sets, now and then a remove (a removed key must stay removed whatever the snapshot does)
                                let k = format!("w{}k{}", w, i);
                                if (i * 7 + pass * 3 + w + r) % 5 == 0 {
                                    if !s.call(&dbs, &format!("remove {}", k)).is_error() {
                                        mine.insert(k, None);
                                    }
                                } else {
                                    let val = format!("r{}p{}", r, pass);
                                    if !s.call(&dbs, &format!("set {} {}", k, val)).is_error() {
                                        mine.insert(k, Some(val));
                                    }
                                }
                                let until = std::time::Instant::now() + std::time::Duration::from_micros(15);
                                while std::time::Instant::now() < until {
                                    std::hint::spin_loop();
                                }
                            }
                            // let at least one snapshot start on what this pass wrote
                            let seen = snaps.load(Ordering::Acquire);
                            let deadline = std::time::Instant::now() + std::time::Duration::from_millis(200);
                            while snaps.load(Ordering::Acquire) == seen && std::time::Instant::now() < deadline {
                                std::thread::yield_now();
                            }
                        }
                        if client_requests {
                            // the writer's last word: a snapshot request of its own, issued while the snapshot thread is
                            // (almost certainly) in the middle of writing this very database; it is acknowledged, so it
                            // has to be carried out - by this run of the snapshot thread or by a later one
                            // (a few last writes first, made while a run of the snapshot thread is under way: only a
                            // snapshot that starts after them can put them on disk)
                            for i in 0..5 {
                                let k = format!("w{}tail{}", w, i);
                                let val = format!("r{}tail", r);
                                if !s.call(&dbs, &format!("set {} {}", k, val)).is_error() {
                                    mine.insert(k, Some(val));
                                }
                            }
                            s.call(&dbs, "auth admin pwd");
                            s.call(&dbs, "snapshot false one");
                        }
                        s.disconnect(&dbs);
                        mine
                    })
                })
                .collect();
            let (dbs2, dir2, stop2, snaps2) = (dbs.clone(), dir.clone(), &stop, &snaps);
            let snapper = sc.spawn(move || {
                nundb::verif::set_dir(Some(dir2));
                ON_SNAPSHOT_THREAD.with(|f| f.set(true));
                let mut a = Session::new();
                a.call(&dbs2, "auth admin pwd");
                let mut n = 0u64;
                while !stop2.load(Ordering::Acquire) {
                    // every third snapshot reclaims space (it rewrites the files and forgets the removed keys: one that a
                    // writer has set again since the snapshot took its copy must stay)
                    n += 1;
                    a.call(&dbs2, if n % 3 == 0 { "snapshot true one" } else { "snapshot false one" });
                    nundb::disk_ops::verif_declutter(&dbs2);
                    snaps2.fetch_add(1, Ordering::AcqRel);
                }
            });
            for h in hs {
                last.push(h.join().unwrap_or_default());
            }
            stop.store(true, Ordering::Release);
            let _ = snapper.join();
        });
        done += 1;
        if snaps.load(Ordering::Acquire) >= 3 {
            overlapped += 1;
        }
        // (1) nothing acknowledged was rolled back
        let mem = image_of(&node, "one").map(|i| i.keys).unwrap_or_default();
        let mut lost = vec![];
        for m in &last {
            for (k, val) in m {
                // (a removed key is not in the image: tombstones are filtered out)
                if mem.get(k).map(|x| &x.0) != val.as_ref() {
                    lost.push(json!([k, val, mem.get(k)]));
                }
            }
        }
        if !lost.is_empty() {
            v.report(json!({"check": "snapshot-race", "problem": if lost.iter().any(|l| l[1].is_null()) { "acknowledged-remove-undone-in-memory-by-a-concurrent-snapshot" } else { "acknowledged-write-rolled-back-in-memory-by-a-concurrent-snapshot" }}), json!({"round": r, "keys_affected": lost.len(), "first_key_last_acknowledged_value_memory": lost.iter().take(5).collect::<Vec<_>>()}));
            continue;
        }
        // (2) one more snapshot with nobody writing, then the restart; in the rounds in which the writers asked for a
        // snapshot after their last write, nobody asks again: the timer action runs until nothing is queued
        if !client_requests {
            adm.call(&dbs, "snapshot false one");
        }
        nundb::disk_ops::verif_declutter(&dbs);
        nundb::disk_ops::verif_declutter(&dbs);
        let want = image_of(&node, "one");
        drop(node);
        if let Err(why) = load_probe(&dir) {
            v.report(json!({"check": "restart-fails", "how": why.split(':').next().unwrap_or("").to_string(), "after": "snapshots-racing-writers"}), json!({"round": r, "msg": why}));
            continue;
        }
        let node2 = Run::start_node(&dir, false);
        let got = image_of(&node2, "one");
        if got != want {
            let (w, g) = (want.map(|i| i.keys).unwrap_or_default(), got.map(|i| i.keys).unwrap_or_default());
            let differing: Vec<serde_json::Value> = w.iter().filter(|(k, val)| g.get(*k) != Some(*val)).take(5).map(|(k, val)| json!([k, val, g.get(k)])).collect();
            let n_diff = w.iter().filter(|(k, val)| g.get(*k) != Some(*val)).count() + g.keys().filter(|k| !w.contains_key(*k)).count();
            v.report(json!({"check": "restore", "kind": "dataset-differs", "detail": if client_requests { "after-snapshot-requests-of-clients-racing-the-snapshot-thread" } else { "after-snapshots-racing-writers" }}), json!({"round": r, "keys_differing": n_diff, "key_snapshotted_restored": differing}));
        }
        drop(node2);
        let _ = std::fs::remove_dir_all(&dir);
    }
    nundb::verif::set_point_callback(None);
    (done, overlapped)
}

/// Directed part: client commands that take effect at a chosen moment of a snapshot - between two keys the snapshot
/// thread writes (the hook point before it marks a key as stored; no lock is held there, and the snapshot thread holds
/// none across keys, so this is an interleaving a client on another thread can produce). Per case: keys persisted by a
/// first snapshot, some of them removed or written again, then a snapshot (reclaiming or not) during which - after the
/// n-th key was stored - a session removes / sets / sets again what the snapshot has copied; then one more incremental
/// snapshot with nobody writing, restart, comparison. Judged like every history: memory keeps what was acknowledged,
/// the restart restores the image of the last snapshot.
pub fn snapshot_injection(v: &Verdicts, seed0: u64, cases: usize) -> (u64, u64, BTreeSet<String>) {
    use std::sync::atomic::{AtomicUsize, Ordering};
    let mut rng = Rng::new(seed0 ^ 0x1213);
    let (mut done, mut fired_cases) = (0u64, 0u64);
    let mut shapes = BTreeSet::new();
    for c in 0..cases {
        let dir = fresh_dir("c06-inj");
        let node = Run::start_node(&dir, false);
        let dbs = node.dbs.clone();
        let mut adm = Session::new();
        adm.call(&dbs, "auth admin pwd");
        adm.call(&dbs, "create-db one tok-one none");
        adm.call(&dbs, "use-db one tok-one");
        let nkeys = 12;
        for i in 0..nkeys {
            adm.call(&dbs, &format!("set k{} first{}", i, i));
        }
        adm.call(&dbs, "snapshot false one");
        nundb::disk_ops::verif_declutter(&dbs);
        // state of each key when the snapshot under test starts: 0 stored and untouched, 1 written again, 2 removed, 3 new
        let mut expected: BTreeMap<String, Option<String>> = BTreeMap::new();
        let mut before = vec![];
        for i in 0..nkeys {
            let st = rng.below(4);
            before.push(st);
            let k = format!("k{}", i);
            match st {
                1 => {
                    adm.call(&dbs, &format!("set {} again{}", k, i));
                    expected.insert(k, Some(format!("again{}", i)));
                }
                2 => {
                    adm.call(&dbs, &format!("remove {}", k));
                    expected.insert(k, None);
                }
                _ => {
                    expected.insert(k, Some(format!("first{}", i)));
                }
            }
        }
        for i in 0..3 {
            adm.call(&dbs, &format!("set n{} new{}", i, i));
            expected.insert(format!("n{}", i), Some(format!("new{}", i)));
        }
        let reclaim = c % 3 != 2;
        let fire_at = rng.range(1, 6);
        // what the session does in the middle of the snapshot: one command per key
        let mut script: Vec<(String, Option<String>)> = vec![];
        for i in 0..nkeys {
            let k = format!("k{}", i);
            match rng.below(4) {
                0 => {
                    script.push((format!("set {} mid{}", k, i), Some(format!("mid{}", i))));
                    expected.insert(k, Some(format!("mid{}", i)));
                }
                1 => {
                    script.push((format!("remove {}", k), None));
                    expected.insert(k, None);
                }
                _ => {}
            }
        }
        let shape: BTreeSet<String> = (0..nkeys)
            .filter_map(|i| script.iter().find(|(l, _)| l.split(' ').nth(1) == Some(&format!("k{}", i))).map(|(l, _)| format!("{}:{}:{}", if reclaim { "reclaim" } else { "incremental" }, ["stored", "written-again", "removed", "new"][before[i] as usize], l.split(' ').next().unwrap())))
            .collect();
        let count = std::sync::Arc::new(AtomicUsize::new(0));
        let fired = std::sync::Arc::new(AtomicUsize::new(0));
        {
            let (count, fired, dbs, script) = (count.clone(), fired.clone(), dbs.clone(), script.clone());
            nundb::verif::set_point_callback(Some(std::sync::Arc::new(move |site: &str| {
                if site == "db.map:set_value_version" && ON_SNAPSHOT_THREAD.with(|f| f.get()) {
                    if count.fetch_add(1, Ordering::SeqCst) + 1 == fire_at {
                        ON_SNAPSHOT_THREAD.with(|f| f.set(false));
                        let mut s = Session::new();
                        s.call(&dbs, "use-db one tok-one");
                        for (line, _) in &script {
                            s.call(&dbs, line);
                        }
                        s.disconnect(&dbs);
                        fired.fetch_add(1, Ordering::SeqCst);
                        ON_SNAPSHOT_THREAD.with(|f| f.set(true));
                    }
                }
            })));
        }
        adm.call(&dbs, &format!("snapshot {} one", reclaim));
        ON_SNAPSHOT_THREAD.with(|f| f.set(true));
        nundb::disk_ops::verif_declutter(&dbs);
        ON_SNAPSHOT_THREAD.with(|f| f.set(false));
        nundb::verif::set_point_callback(None);
        done += 1;
        if fired.load(Ordering::SeqCst) == 0 {
            drop(node);
            let _ = std::fs::remove_dir_all(&dir);
            continue;
        }
        fired_cases += 1;
        shapes.extend(shape);
        let case = json!({"case": c, "snapshot": if reclaim { "reclaim" } else { "incremental" }, "after_stored_keys": fire_at, "state_of_k0_k11_before": before, "commands_in_the_middle": script.iter().map(|(l, _)| l.clone()).collect::<Vec<_>>()});
        let mem = image_of(&node, "one").map(|i| i.keys).unwrap_or_default();
        let wrong: Vec<serde_json::Value> = expected.iter().filter(|(k, val)| mem.get(*k).map(|x| &x.0) != val.as_ref()).map(|(k, val)| json!([k, val, mem.get(k)])).collect();
        if !wrong.is_empty() {
            v.report(json!({"check": "snapshot-injection", "problem": "memory-differs-from-last-acknowledged-commands", "snapshot": if reclaim { "reclaim" } else { "incremental" }}), json!({"case": case, "key_expected_memory": wrong}));
            continue;
        }
        adm.call(&dbs, "snapshot false one");
        nundb::disk_ops::verif_declutter(&dbs);
        let want = image_of(&node, "one");
        drop(node);
        if let Err(why) = load_probe(&dir) {
            v.report(json!({"check": "restart-fails", "how": why.split(':').next().unwrap_or("").to_string(), "after": format!("commands-in-the-middle-of-a-{}-snapshot", if reclaim { "reclaim" } else { "incremental" })}), json!({"case": case, "msg": why}));
            continue;
        }
        let node2 = Run::start_node(&dir, false);
        let got = image_of(&node2, "one");
        if got != want {
            let (w, g) = (want.map(|i| i.keys).unwrap_or_default(), got.map(|i| i.keys).unwrap_or_default());
            let differing: Vec<serde_json::Value> = w.iter().filter(|(k, val)| g.get(*k) != Some(*val)).take(5).map(|(k, val)| json!([k, val, g.get(k)])).collect();
            let extra: Vec<&String> = g.keys().filter(|k| !w.contains_key(*k)).take(5).collect();
            v.report(json!({"check": "restore", "kind": "dataset-differs", "detail": format!("after-commands-in-the-middle-of-a-{}-snapshot", if reclaim { "reclaim" } else { "incremental" })}), json!({"case": case, "key_snapshotted_restored": differing, "keys_only_after_restart": extra}));
        }
        drop(node2);
        let _ = std::fs::remove_dir_all(&dir);
    }
    (done, fired_cases, shapes)
}

thread_local! {
    static ON_SNAPSHOT_THREAD: std::cell::Cell<bool> = std::cell::Cell::new(false);
}

pub fn run(tier: &str) -> i32 {
    quiet_panics();
    let v = Verdicts::load("C06");
    let mut ev = Evidence::new("C06", tier, "exploration");
    let thorough = tier == "thorough";
    let stats = Mutex::new(Stats {
        histories: 0,
        restarts_compared: 0,
        db_images_compared: 0,
        snapshots_completed: 0,
        transitions: BTreeSet::new(),
        nontrivial: BTreeSet::new(),
        samples: vec![],
    });
    let alpha = alphabet();
    let depth = if thorough { 6 } else { 5 };
    let mut cases: Vec<(Vec<Op>, bool)> = vec![];
    let mut idx = vec![0usize; depth];
    'enumerate: loop {
        let ops: Vec<Op> = idx.iter().map(|i| alpha[*i].clone()).collect();
        // only histories that request at least one snapshot can say anything
        if ops.iter().any(|o| matches!(o, Op::Snapshot(..))) {
            cases.push((ops, false));
        }
        let mut p = 0;
        loop {
            if p == depth {
                break 'enumerate;
            }
            idx[p] += 1;
            if idx[p] < alpha.len() {
                break;
            }
            idx[p] = 0;
            p += 1;
        }
    }
    let systematic = cases.len();
    let mut rng = Rng::new(seed());
    let n_random = if thorough { 120_000 } else { 6_000 };
    for i in 0..n_random {
        let len = rng.range(5, 40);
        cases.push(((0..len).map(|_| random_op(&mut rng)).collect(), i % 2 == 0));
    }
    let next = std::sync::atomic::AtomicUsize::new(0);
    std::thread::scope(|s| {
        for w in 0..workers() {
            let (cases, next, v, stats) = (&cases, &next, &v, &stats);
            s.spawn(move || {
                let dir = fresh_dir(&format!("c06-w{}", w));
                loop {
                    let i = next.fetch_add(1, std::sync::atomic::Ordering::SeqCst);
                    if i >= cases.len() {
                        break;
                    }
                    let _ = std::fs::remove_dir_all(&dir);
                    std::fs::create_dir_all(&dir).unwrap();
                    run_history(&cases[i].0, &dir, cases[i].1, v, stats);
                }
            });
        }
    });
    let s = stats.into_inner().unwrap();
    let (race_rounds, race_overlapped) = snapshot_race(&v, if tier == "thorough" { 300 } else { 25 });
    ev.set("free_running_snapshot_race", json!({"rounds": race_rounds, "rounds_with_at_least_3_snapshots_completed_while_the_writers_ran": race_overlapped}));
    let (inj_cases, inj_fired, inj_shapes) = snapshot_injection(&v, seed(), if thorough { 6000 } else { 400 });
    ev.set("commands_in_the_middle_of_a_snapshot", json!({"cases": inj_cases, "cases_in_which_the_commands_ran_between_two_stored_keys": inj_fired, "distinct_snapshot_kind_x_key_state_x_command": inj_shapes.len(), "shapes": inj_shapes.iter().cloned().collect::<Vec<_>>()}));
    ev.evaluations = s.histories;
    ev.distinct_nontrivial = s.nontrivial.len() as u64;
    ev.rule = format!("histories = all sequences of length {} over a 10-step alphabet that contain a snapshot request ({} systematic) + {} seeded random sequences of length 5-40 over 2 databases x 3 keys x 6 value classes (empty, 1 byte, 7 bytes, 300+ bytes, multi-byte UTF-8, small integers), half of them with the real replication loop/oplog running; every history ends with declutter + restart + comparison; non-trivial = distinct history that completed a snapshot and issued at least one write/remove/increment on a key already persisted (status Ok/Updated/Deleted)", depth, systematic, n_random);
    ev.samples = s.samples.clone();
    ev.set("restarts", json!(s.restarts_compared));
    ev.set("database_images_compared_after_restart", json!(s.db_images_compared));
    ev.set("snapshots_completed", json!(s.snapshots_completed));
    ev.set("op_state_transitions", json!(s.transitions.iter().cloned().collect::<Vec<_>>()));
    ev.set("known_findings_seen", json!(v.known_seen()));
    // Engine R: the same oracle over real nun-db processes (src/bin/main.rs, TCP links, signals, timer thread)
    let real = crate::realparts::c06_real(&v, if thorough { 96 } else { 8 }, seed());
    ev.set("real_processes", real.to_json());
    ev.violations = v.violation_count();
    ev.assumptions = vec![
        "restart = drop of all in-memory state after the last completed system call, then the start-up sequence of src/bin/main.rs mirrored by the harness (load_keys_map_from_disk, is_oplog_valid, clean metadata if invalid, Databases::new, load_all_dbs)".into(),
        "the expected image is the node's own dataset (live keys, values, versions, db id, strategy) at the moment its snapshot completes; $connections is excluded (session counter, C17)".into(),
    ];
    ev.write();
    cleanup_scratch();
    let code = v.finish(tier);
    if code == 0 && real.runs > 0 && (real.runs - real.inconclusive) * 2 < real.runs {
        println!("INCONCLUSIVE property=C06 reason=the real-process part could judge only {} of {} runs", real.runs - real.inconclusive, real.runs);
        return 2;
    }
    if code == 0 && (s.nontrivial.len() < 200 || s.restarts_compared < 1000) {
        println!("INCONCLUSIVE property=C06 reason=coverage floor not met");
        return 2;
    }
    println!("C06 {}: {} histories, {} restarts, {} images compared, {} snapshots completed, {} transitions, {} non-trivial, {} violations",
        tier, s.histories, s.restarts_compared, s.db_images_compared, s.snapshots_completed, s.transitions.len(), s.nontrivial.len(), v.violation_count());
    code
}
