//! C01 — reads return the latest successful write (single node).
//! Reference-model monitor at the client boundary: every reply (Response +
//! pushed lines) of generated command histories is compared with a plain map;
//! after every refused command the full state dump must be unchanged.
use crate::common::evidence::Evidence;
use crate::common::kf::Verdicts;
use crate::common::node::{dump_all, dump_db, Node, NodeOpts};
use crate::common::rng::Rng;
use crate::common::session::{resp_str, Session};
use crate::common::*;
use nundb::bo::{ClusterRole, Response, ValueStatus};
use serde_json::json;
use std::collections::{BTreeMap, BTreeSet};
use std::sync::Mutex;

#[derive(Clone, Debug)]
pub enum Ver {
    Rel(i32),
    Abs(i32),
}

#[derive(Clone, Debug)]
pub enum Op {
    Get(String),
    GetSafe(String),
    Set(String, String),
    SetSafe(String, Ver, String),
    Remove(String),
    Inc(String, Option<i32>),
    Keys(String),
    Snapshot(bool),
    Declutter,
}

#[derive(Clone, Debug)]
pub struct Step {
    pub admin: bool,
    pub op: Op,
}

impl Step {
    fn describe(&self) -> String {
        format!("{}:{:?}", if self.admin { "A" } else { "T" }, self.op)
    }
}

const SEC_ERR: &str = "To read security keys you must auth as an admin!";

/// every '*' stands for any text (possibly empty)
fn matches_glob(pattern: &str, key: &str) -> bool {
    let parts: Vec<&str> = pattern.split('*').collect();
    if parts.len() == 1 {
        return key.contains(pattern);
    }
    let mut rest = key;
    for (i, part) in parts.iter().enumerate() {
        if i == 0 {
            if !rest.starts_with(part) {
                return false;
            }
            rest = &rest[part.len()..];
        } else if i == parts.len() - 1 {
            return rest.ends_with(part);
        } else {
            match rest.find(part) {
                Some(at) => rest = &rest[at + part.len()..],
                None => return false,
            }
        }
    }
    true
}

fn matches(pattern: &str, key: &str) -> bool {
    if pattern.ends_with('*') {
        key.starts_with(&pattern.replace('*', ""))
    } else if pattern.starts_with('*') {
        key.ends_with(&pattern.replace('*', ""))
    } else {
        key.contains(pattern)
    }
}

fn state_name(s: Option<ValueStatus>) -> &'static str {
    match s {
        None => "absent",
        Some(ValueStatus::New) => "New",
        Some(ValueStatus::Ok) => "Ok",
        Some(ValueStatus::Updated) => "Updated",
        Some(ValueStatus::Deleted) => "Deleted",
    }
}

fn class_of(r: &Response) -> String {
    match r {
        Response::Ok {} => "Ok".into(),
        Response::Set { .. } => "Set".into(),
        Response::Value { .. } => "Value".into(),
        Response::Error { msg } => format!("Error {}", msg),
        Response::VersionError { .. } => "VersionError".into(),
    }
}

pub struct Stats {
    pub histories: u64,
    pub commands: u64,
    pub triples: BTreeSet<(String, String, String)>,
    pub distinct_histories: BTreeSet<u64>,
    pub nontrivial_histories: BTreeSet<u64>,
    pub refused_checked: u64,
    pub samples: Vec<serde_json::Value>,
}

struct Fixture {
    node: Node,
    tok: Session,
    adm: Session,
    model: BTreeMap<String, String>,
}

const DB: &str = "db";

fn fixture(dir: &str) -> Fixture {
    let node = Node::start(NodeOpts::simple(dir));
    node.set_role(ClusterRole::Primary);
    let mut adm = Session::new();
    adm.call(&node.dbs, &format!("auth {} {}", crate::common::node::USER, crate::common::node::PWD));
    adm.call(&node.dbs, &format!("create-db {} tok", DB));
    adm.call(&node.dbs, &format!("use-db {} tok", DB));
    let mut tok = Session::new();
    tok.call(&node.dbs, &format!("use-db {} tok", DB));
    let mut model = BTreeMap::new();
    model.insert("$$token".to_string(), "tok".to_string());
    model.insert("$connections".to_string(), "?".to_string());
    Fixture { node, tok, adm, model }
}

/// Runs one history. Returns Err(signature, explanation) on the first unexplained mismatch.
fn run_history(steps: &[Step], dir: &str, v: &Verdicts, stats: &Mutex<Stats>) {
    let mut fx = fixture(dir);
    let mut trace: Vec<serde_json::Value> = vec![];
    let mut local_triples: Vec<(String, String, String)> = vec![];
    let mut nontrivial = false;
    let mut commands = 0u64;
    let mut refused = 0u64;
    let hist_desc: Vec<String> = steps.iter().map(|s| s.describe()).collect();
    let hhash = fnv(&hist_desc.join("|"));

    'steps: for st in steps {
        // expand a set-safe into its probe + the write
        let mut expanded: Vec<(bool, Op, Option<i32>)> = vec![];
        match &st.op {
            Op::SetSafe(k, ver, val) => {
                expanded.push((st.admin, Op::GetSafe(k.clone()), None));
                expanded.push((st.admin, Op::SetSafe(k.clone(), ver.clone(), val.clone()), None));
            }
            o => expanded.push((st.admin, o.clone(), None)),
        }
        let mut reported_version: Option<i32> = None;
        for (admin, op, _) in expanded {
            if let Op::Declutter = op {
                fx.node.declutter();
                trace.push(json!({"declutter": true}));
                continue;
            }
            let key = match &op {
                Op::Get(k) | Op::GetSafe(k) | Op::Set(k, _) | Op::SetSafe(k, _, _) | Op::Remove(k) | Op::Inc(k, _) => Some(k.clone()),
                _ => None,
            };
            let state_before = key.as_ref().map(|k| {
                dump_db(&fx.node.dbs, DB).and_then(|d| d.get(k).map(|x| x.state))
            });
            let st_name = state_name(state_before.flatten());
            if matches!(state_before.flatten(), Some(ValueStatus::Ok) | Some(ValueStatus::Updated) | Some(ValueStatus::Deleted)) {
                nontrivial = true;
            }
            let secure_refused = key.as_ref().map(|k| k.starts_with("$$") && !admin).unwrap_or(false);
            // render
            let (word, line) = match &op {
                Op::Get(k) => ("get", format!("get {}", k)),
                Op::GetSafe(k) => ("get-safe", format!("get-safe {}", k)),
                Op::Set(k, val) => ("set", format!("set {} {}", k, val)),
                Op::SetSafe(k, ver, val) => {
                    let c = reported_version.unwrap_or(0);
                    let ver = match ver {
                        Ver::Rel(d) => (c + d).max(0),
                        Ver::Abs(a) => *a,
                    };
                    ("set-safe", format!("set-safe {} {} {}", k, ver, val))
                }
                Op::Remove(k) => ("remove", format!("remove {}", k)),
                Op::Inc(k, None) => ("increment", format!("increment {}", k)),
                Op::Inc(k, Some(n)) => ("increment", format!("increment {} {}", k, n)),
                Op::Keys(p) => ("keys", if p.is_empty() { "keys".to_string() } else { format!("keys {}", p) }),
                Op::Snapshot(r) => ("snapshot", format!("snapshot {}", r)),
                Op::Declutter => unreachable!(),
            };
            let before_dump = dump_all(&fx.node.dbs);
            let sess = if admin { &mut fx.adm } else { &mut fx.tok };
            let dbs = fx.node.dbs.clone();
            let res = std::panic::catch_unwind(std::panic::AssertUnwindSafe(|| sess.call_raw(&dbs, &line)));
            let pushed = sess.drain();
            commands += 1;
            fx.node.pump();
            let (got_class, resp) = match &res {
                Ok(r) => (class_of(r), Some(r.clone())),
                Err(e) => (format!("Panic {}", panic_msg(e).split(':').next().unwrap_or("")), None),
            };
            trace.push(json!({"session": if admin {"admin"} else {"token"}, "line": line, "key_state_before": st_name,
                "reply": resp.as_ref().map(resp_str).unwrap_or(got_class.clone()), "pushed": pushed}));

            // ---- expectation from the plain map
            let mut expected_class: String;
            let mut detail = "";
            let mut ok = true;
            let mut tolerated_either = false;
            if secure_refused {
                expected_class = format!("Error {}", SEC_ERR);
                ok = got_class == expected_class && pushed.is_empty();
            } else {
                match &op {
                    Op::Get(k) | Op::GetSafe(k) => {
                        let exp = fx.model.get(k).cloned().unwrap_or_else(|| "<Empty>".to_string());
                        expected_class = "Value".into();
                        match &resp {
                            Some(Response::Value { key, value, version }) => {
                                if k == "$connections" {
                                    // value owned by C17
                                } else if key != k || value != &exp {
                                    ok = false;
                                    detail = if fx.model.contains_key(k) { "value-is-not-latest-write" } else { "absent-key-not-empty" };
                                } else {
                                    let want = if let Op::Get(_) = op {
                                        format!("value {}\n", exp)
                                    } else {
                                        format!("value-version {} {}\n", version, exp)
                                    };
                                    if pushed != vec![want] {
                                        ok = false;
                                        detail = "pushed-line-differs";
                                    }
                                }
                                if let Op::GetSafe(_) = op {
                                    reported_version = Some(*version);
                                }
                            }
                            _ => ok = false,
                        }
                    }
                    Op::Set(k, val) => {
                        expected_class = "Ok".into();
                        ok = got_class == "Ok" && pushed.is_empty();
                        if ok {
                            fx.model.insert(k.clone(), val.clone());
                        }
                    }
                    Op::SetSafe(k, _, val) => {
                        let sent: i32 = line.split(' ').nth(2).unwrap().parse().unwrap();
                        let absent = !fx.model.contains_key(k);
                        let tomb = state_before.flatten() == Some(ValueStatus::Deleted);
                        let accept = absent || sent >= reported_version.unwrap_or(0);
                        expected_class = if accept { "Ok".into() } else { "VersionError".into() };
                        if tomb {
                            // statement is silent on which version rule a removed-but-tombstoned key follows
                            tolerated_either = true;
                            ok = (got_class == "Ok" || got_class == "VersionError") && pushed.is_empty();
                        } else {
                            ok = got_class == expected_class && pushed.is_empty();
                        }
                        if got_class == "Ok" && ok {
                            fx.model.insert(k.clone(), val.clone());
                        }
                    }
                    Op::Remove(k) => {
                        if k == "$$token" {
                            expected_class = "Error $$token key cannot be removed".into();
                            ok = got_class == expected_class && pushed.is_empty();
                        } else {
                            expected_class = "Ok".into();
                            ok = got_class == "Ok" && pushed.is_empty();
                            if ok {
                                fx.model.remove(k);
                            }
                        }
                    }
                    Op::Inc(k, n) => {
                        let cur = fx.model.get(k).cloned().unwrap_or_else(|| "0".to_string());
                        let n = n.unwrap_or(1);
                        match i32::from_str_radix(&cur, 10).ok().and_then(|c| c.checked_add(n)) {
                            Some(next) => {
                                expected_class = "Ok".into();
                                ok = got_class == "Ok" && pushed.is_empty();
                                if ok {
                                    fx.model.insert(k.clone(), next.to_string());
                                }
                            }
                            None => {
                                expected_class = "Error".into();
                                ok = got_class.starts_with("Error") && pushed.is_empty();
                                detail = if i32::from_str_radix(&cur, 10).is_ok() { "overflow" } else { "non-numeric" };
                            }
                        }
                    }
                    Op::Keys(p) => {
                        expected_class = "Value".into();
                        let mut exp: String = fx
                            .model
                            .keys()
                            .filter(|k| (admin || !k.starts_with("$$")) && matches(p, k))
                            .fold(String::new(), |acc, k| format!("{},{}", acc, k));
                        // a pattern with more than one '*' (or one in the middle) is not covered by "prefix / suffix /
                        // contains": the code's rule (all stars dropped, the end that carries a star decides) and a
                        // reading of every '*' as "any text" are both accepted; anything else is no listing of the
                        // matching keys under any reading
                        if p.matches('*').count() > 1 || (p.contains('*') && !p.starts_with('*') && !p.ends_with('*')) {
                            let glob: String = fx
                                .model
                                .keys()
                                .filter(|k| (admin || !k.starts_with("$$")) && matches_glob(p, k))
                                .fold(String::new(), |acc, k| format!("{},{}", acc, k));
                            if let Some(Response::Value { value, .. }) = &resp {
                                if value == &glob {
                                    exp = glob;
                                }
                            }
                        }
                        match &resp {
                            Some(Response::Value { key, value, .. }) => {
                                if key != "keys" || value != &exp {
                                    ok = false;
                                    detail = "listing-differs";
                                } else if pushed != vec![format!("keys {}\n", exp)] {
                                    ok = false;
                                    detail = "pushed-line-differs";
                                }
                            }
                            _ => ok = false,
                        }
                    }
                    Op::Snapshot(_) => {
                        expected_class = if admin { "Ok".into() } else { "Error Not auth".into() };
                        ok = got_class == expected_class;
                    }
                    Op::Declutter => unreachable!(),
                }
            }
            if tolerated_either {
                expected_class = "Ok|VersionError".into();
            }
            local_triples.push((word.to_string(), st_name.to_string(), got_class.clone()));

            // ---- a refused command changes nothing
            let mut unchanged_ok = true;
            if got_class.starts_with("Error") || got_class == "VersionError" || got_class.starts_with("Panic") {
                refused += 1;
                let after = dump_all(&fx.node.dbs);
                if after != before_dump {
                    unchanged_ok = false;
                }
            }
            if ok && unchanged_ok {
                continue;
            }
            let sig = if !ok {
                json!({"check": "reply", "op": word, "session": if admin {"admin"} else {"token"},
                       "key_state_before": st_name, "expected": expected_class, "got": got_class, "detail": detail})
            } else {
                json!({"check": "refused-changes-nothing", "op": word, "session": if admin {"admin"} else {"token"},
                       "key_state_before": st_name, "got": got_class})
            };
            let replay = json!({"history": hist_desc, "trace": trace, "model_before_step": fx.model,
                "explanation": if !ok {"reply differs from the plain-map model"} else {"refused command changed the state dump"}});
            let known = v.report(sig, replay);
            if known {
                // resynchronise the model for this key to the observed state and keep checking
                if let Some(k) = &key {
                    match dump_db(&fx.node.dbs, DB).and_then(|d| d.get(k).cloned()) {
                        Some(kd) if kd.state != ValueStatus::Deleted => {
                            fx.model.insert(k.clone(), kd.value);
                        }
                        _ => {
                            fx.model.remove(k);
                        }
                    }
                }
                if got_class.starts_with("Panic") {
                    break 'steps; // locks may be poisoned; the history ends here
                }
            } else {
                break 'steps;
            }
        }
    }
    let mut s = stats.lock().unwrap();
    s.histories += 1;
    s.commands += commands;
    s.refused_checked += refused;
    for t in local_triples {
        s.triples.insert(t);
    }
    s.distinct_histories.insert(hhash);
    if nontrivial {
        s.nontrivial_histories.insert(hhash);
        if s.samples.len() < 4 {
            s.samples.push(json!({"history": hist_desc, "trace": trace}));
        }
    }
}

fn small_ops() -> Vec<Step> {
    let t = |op| Step { admin: false, op };
    let a = |op| Step { admin: true, op };
    vec![
        t(Op::Set("a".into(), "1".into())),
        t(Op::Set("a".into(), "x y".into())),
        t(Op::Set("ab".into(), "".into())),
        t(Op::Remove("a".into())),
        t(Op::Inc("a".into(), None)),
        t(Op::Inc("ab".into(), Some(-3))),
        t(Op::Inc("a".into(), Some(0))),
        t(Op::Get("a".into())),
        t(Op::SetSafe("a".into(), Ver::Rel(0), "s".into())),
        t(Op::Keys("a*".into())),
        a(Op::Snapshot(false)),
        a(Op::Snapshot(true)),
        a(Op::Declutter),
    ]
}

fn random_step(r: &mut Rng) -> Step {
    // "#t" sorts before every "$$" key: the listing must hide secure keys wherever they fall in the order
    let keys = ["a", "ab", "b", "$x", "$$s", "#t"];
    let values = ["", "1", "-7", "2147483647", "x y", "007", "v", "-2147483648", "+4", " 5", "v ", " ", "5 ", "t\t"];
    let pats = ["", "*", "a*", "*b", "a", "$$*", "*$$", "$*", "b*", "*x", "*a*", "**", "a**", "**b", "*a*b", "a*b*", "*$*", "a*b", "*#*"];
    let admin = r.chance(1, 4);
    let k = r.pick(&keys).to_string();
    let op = match r.below(20) {
        0..=3 => Op::Set(k, r.pick(&values).to_string()),
        4 => Op::Set(k, format!("v{}", r.below(1000))),
        5..=6 => Op::Get(k),
        7 => Op::GetSafe(k),
        8..=9 => Op::Remove(k),
        10..=12 => Op::Inc(k, *r.pick(&[None, Some(1), Some(-1), Some(5), Some(0), Some(0), Some(2147483647), Some(-2147483648)])),
        13..=14 => Op::Keys(r.pick(&pats).to_string()),
        15 => Op::SetSafe(k, r.pick(&[Ver::Rel(-1), Ver::Rel(0), Ver::Rel(1), Ver::Abs(0), Ver::Abs(1000)]).clone(), r.pick(&values).to_string()),
        16..=17 => return Step { admin: true, op: Op::Snapshot(r.chance(1, 3)) },
        _ => return Step { admin: true, op: Op::Declutter },
    };
    Step { admin, op }
}

pub fn run(tier: &str) -> i32 {
    quiet_panics();
    let v = Verdicts::load("C01");
    let mut ev = Evidence::new("C01", tier, "exploration");
    let thorough = tier == "thorough";
    let stats = Mutex::new(Stats {
        histories: 0,
        commands: 0,
        triples: BTreeSet::new(),
        distinct_histories: BTreeSet::new(),
        nontrivial_histories: BTreeSet::new(),
        refused_checked: 0,
        samples: vec![],
    });
    // ---- the case list: systematic + seeded random
    let alphabet = small_ops();
    let depth = if thorough { 5 } else { 4 };
    let mut cases: Vec<Vec<Step>> = vec![];
    let mut idx = vec![0usize; depth];
    loop {
        cases.push(idx.iter().map(|i| alphabet[*i].clone()).collect());
        let mut p = 0;
        loop {
            if p == depth {
                break;
            }
            idx[p] += 1;
            if idx[p] < alphabet.len() {
                break;
            }
            idx[p] = 0;
            p += 1;
        }
        if p == depth {
            break;
        }
    }
    let systematic = cases.len();
    let mut rng = Rng::new(seed());
    let n_random = if thorough { 150_000 } else { 12_000 };
    for _ in 0..n_random {
        let len = rng.range(4, 30);
        cases.push((0..len).map(|_| random_step(&mut rng)).collect());
    }
    let nw = workers();
    let next = std::sync::atomic::AtomicUsize::new(0);
    std::thread::scope(|s| {
        for w in 0..nw {
            let cases = &cases;
            let next = &next;
            let v = &v;
            let stats = &stats;
            s.spawn(move || {
                let dir = fresh_dir(&format!("c01-w{}", w));
                loop {
                    let i = next.fetch_add(1, std::sync::atomic::Ordering::SeqCst);
                    if i >= cases.len() {
                        break;
                    }
                    // fresh directory content for every history
                    let _ = std::fs::remove_dir_all(&dir);
                    std::fs::create_dir_all(&dir).unwrap();
                    run_history(&cases[i], &dir, v, stats);
                }
            });
        }
    });
    // Sessions at the same time: the replies and the final value of every key must be those of the commands run one
    // after the other in some order that respects what finished before what (an increment refused because the key holds a
    // text leaves the text alone; one that was accepted added to the number it met).
    let cstats = std::sync::Mutex::new(crate::c02::CtlStats::new());
    let (mixes, per_mix) = if thorough { (1200, 60) } else { (160, 30) };
    crate::common::sched::install_callback_inner();
    crate::c02::controlled(&v, seed() ^ 0xc01, mixes, per_mix, true, &cstats, 1);
    crate::common::sched::clear_callback();
    let cst = cstats.into_inner().unwrap();
    let s = stats.into_inner().unwrap();
    ev.evaluations = s.histories;
    ev.distinct_nontrivial = s.nontrivial_histories.len() as u64;
    ev.rule = format!("histories = all sequences of length {} over a {}-step sub-alphabet ({} systematic) + {} seeded random sequences of length 4-30 over 6 keys x 14 values x 19 patterns (incl. patterns with several stars, judged under either reading of them); non-trivial = distinct history (hash of its steps) in which at least one command hit a key whose internal status was Ok/Updated/Deleted (i.e. persisted by an earlier snapshot)", depth, alphabet.len(), systematic, n_random);
    ev.samples = s.samples.clone();
    ev.set("commands_checked", json!(s.commands));
    ev.set("refused_commands_with_unchanged_dump_check", json!(s.refused_checked));
    ev.set("distinct_histories", json!(s.distinct_histories.len()));
    ev.set("op_state_reply_triples", json!(s.triples.len()));
    ev.set("triples", json!(s.triples.iter().map(|t| format!("{}/{}/{}", t.0, t.1, t.2)).collect::<Vec<_>>()));
    ev.set("concurrent_sessions_part", json!({"schedules_run": cst.schedules, "distinct_schedules": cst.distinct.len(), "distinct_schedules_with_overlap_on_a_key": cst.distinct_overlapping.len(),
        "client_operations": cst.ops, "sequential_reexecutions_by_checker": cst.spec_runs, "checker_undecided_keys": cst.undecided, "stuck_runs": cst.stuck,
        "rule": "2-3 sessions x 1-4 commands (set of a text, set of a number, increment by -1..3, get-safe, remove) on 1-2 keys under the token scheduler (hook points before every Database.map acquisition); per key a real-time-respecting order is searched in which the same code, one command at a time, gives the same replies and final value",
        "samples": cst.samples}));
    ev.set("known_findings_seen", json!(v.known_seen()));
    ev.violations = v.violation_count();
    ev.assumptions = vec![
        "values never equal the literal <Empty>; keys contain no spaces (protocol cannot distinguish them)".into(),
        "versions are not compared here except that set-safe acceptance follows the version get-safe just reported (C02 owns the version rule)".into(),
        "the value of $connections is owned by C17 and not compared".into(),
    ];
    ev.write();
    cleanup_scratch();
    let code = v.finish(tier);
    if code == 0 && (s.triples.len() < 30 || s.nontrivial_histories.len() < 100) {
        println!("INCONCLUSIVE property=C01 reason=coverage floor not met ({} triples, {} non-trivial histories)", s.triples.len(), s.nontrivial_histories.len());
        return 2;
    }
    if code == 0 && (cst.distinct_overlapping.len() < 300 || cst.stuck > cst.schedules / 20) {
        println!("INCONCLUSIVE property=C01 reason=coverage floor of the concurrent part not met ({} overlapping schedules, {} stuck)", cst.distinct_overlapping.len(), cst.stuck);
        return 2;
    }
    println!("C01 {}: {} histories, {} commands, {} (op,state,reply) triples, {} non-trivial histories; {} schedules of concurrent sessions ({} distinct with overlap on a key); {} violations", tier, s.histories, s.commands, s.triples.len(), s.nontrivial_histories.len(), cst.schedules, cst.distinct_overlapping.len(), v.violation_count());
    code
}
