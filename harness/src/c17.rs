//! C17 — $connections equals the number of open sessions on the database.
//! Session-count model checked after every event of generated sequences
//! (in-process, emulated disconnects), under controlled interleavings of two
//! sessions, and over the three real transports' disconnect paths.
use crate::c02::mem_node;
use crate::common::evidence::Evidence;
use crate::common::kf::Verdicts;
use crate::common::node::Node;
use crate::common::rng::Rng;
use crate::common::sched::{self, Ev, Policy};
use crate::common::session::Session;
use crate::common::*;
use crate::transports::{http_post, LiveNode, TcpClient, WsClient};
use nundb::bo::Databases;
use serde_json::json;
use std::collections::{BTreeMap, BTreeSet};
use std::sync::{Arc, Mutex};
use std::time::{Duration, Instant};

#[derive(Clone, Debug)]
pub enum E {
    Connect(usize),
    /// session, db index, kind: 0 = db token, 1 = wrong token, 2 = user token, 3 = unknown db
    Use(usize, usize, usize),
    Disconnect(usize),
    /// any other command in between (must not change counts)
    Other(usize, &'static str),
}

const DBS: [&str; 2] = ["d0", "d1"];

fn counts(dbs: &Arc<Databases>) -> BTreeMap<String, (usize, String)> {
    let mut out = BTreeMap::new();
    let map = dbs.map.read().unwrap();
    for n in DBS.iter() {
        if let Some(d) = map.get(*n) {
            // a database nobody ever selected has no $connections key yet: that reads as 0 sessions
            let key = d.map.read().unwrap().get("$connections").map(|v| v.value.clone()).unwrap_or("0".into());
            out.insert(n.to_string(), (d.connections_count(), key));
        }
    }
    out
}

fn setup() -> (Node, Session) {
    let (node, mut adm) = mem_node(&[("d0", "none"), ("d1", "none")]);
    for d in DBS.iter() {
        adm.call(&node.dbs, &format!("use-db {} tok", d));
        adm.call(&node.dbs, "create-user u utok");
        adm.call(&node.dbs, "set-permissions u rwix *");
    }
    // the admin session ends here: counts go back to zero through the production path
    adm.disconnect(&node.dbs);
    let mut adm = Session::new();
    adm.call(&node.dbs, "auth admin pwd");
    (node, adm)
}

pub struct SeqStats {
    pub sequences: u64,
    pub events: u64,
    pub shapes: BTreeSet<String>,
    pub notifications_checked: u64,
    pub samples: Vec<serde_json::Value>,
}

fn notes_of(lines: &[String]) -> Vec<String> {
    lines.iter().filter_map(|m| m.strip_prefix("changed $connections ").map(|x| x.trim().to_string())).collect()
}

fn run_sequence(evs: &[E], v: &Verdicts, st: &Mutex<SeqStats>) {
    let (node, _adm) = setup();
    let dbs = node.dbs.clone();
    let base = counts(&dbs);
    // a watcher of d0's counter: it is itself a session of d0
    let mut w = Session::new();
    w.call(&dbs, "use-db d0 tok");
    w.call(&dbs, "watch $connections");
    w.drain();
    let mut model: BTreeMap<String, usize> = DBS.iter().map(|d| (d.to_string(), base[*d].0)).collect();
    *model.get_mut("d0").unwrap() += 1;
    let mut expected_notes: Vec<String> = vec![];
    let mut sessions: Vec<Option<(Session, Option<String>)>> = vec![None, None, None];
    // sessions of the sequence that watch the counter of the database they selected: (database, values they must be
    // sent from then on, values they were sent). Judged while the session keeps that database selected (selecting it
    // again changes nothing for it); what becomes of a subscription when its session moves to another database is not
    // specified, so the subscription is judged up to that command and dropped from the model
    let mut subs: Vec<Option<(String, Vec<String>, Vec<String>)>> = vec![None, None, None];
    let mut watched_twice = [false; 3];
    let mut sub_problem: Option<serde_json::Value> = None;
    let mut sub_checked = 0u64;
    let mut trace = vec![];
    let mut shape = vec![];
    for e in evs {
        let before_d0 = model["d0"];
        let before_all = model.clone();
        let mut reply = String::new();
        let res = std::panic::catch_unwind(std::panic::AssertUnwindSafe(|| match e {
            E::Connect(i) => {
                if sessions[*i].is_none() {
                    watched_twice[*i] = false;
                    sessions[*i] = Some((Session::new(), None));
                    shape.push("connect");
                }
            }
            E::Use(i, d, kind) => {
                if let Some((s, sel)) = sessions[*i].as_mut() {
                    let line = match kind {
                        0 => format!("use-db {} tok", DBS[*d]),
                        1 => format!("use-db {} wrong", DBS[*d]),
                        2 => format!("use-db {} u utok", DBS[*d]),
                        _ => "use-db nodb tok".to_string(),
                    };
                    let moving = (*kind == 0 || *kind == 2) && sel.as_deref() != Some(DBS[*d]);
                    if moving {
                        if let Some((db, want, mut got)) = subs[*i].take() {
                            got.extend(notes_of(&s.drain()));
                            sub_checked += got.len() as u64;
                            if got != want && sub_problem.is_none() {
                                sub_problem = Some(json!({"session": i, "database": db, "expected": want, "got": got, "judged_at": "before-selecting-another-database"}));
                            }
                        }
                    }
                    let r = s.call(&dbs, &line);
                    if let Some(su) = subs[*i].as_mut() {
                        su.2.extend(notes_of(&r.pushed));
                    }
                    reply = r.resp.clone();
                    if *kind == 0 || *kind == 2 {
                        let name = DBS[*d].to_string();
                        shape.push(if sel.as_ref() == Some(&name) { "use-same" } else if sel.is_some() { "use-other" } else { "use-first" });
                        if sel.as_ref() != Some(&name) {
                            if let Some(old) = sel.as_ref() {
                                *model.get_mut(old).unwrap() -= 1;
                            }
                            *model.get_mut(&name).unwrap() += 1;
                            *sel = Some(name);
                        }
                    } else {
                        shape.push("use-fail");
                    }
                }
            }
            E::Other(i, line) => {
                if let Some((s, sel)) = sessions[*i].as_mut() {
                    let r = s.call(&dbs, line);
                    if let Some(su) = subs[*i].as_mut() {
                        su.2.extend(notes_of(&r.pushed));
                    }
                    if *line == "watch $connections" && !r.is_error() && !watched_twice[*i] {
                        if let Some(d) = sel.as_ref() {
                            if subs[*i].is_none() {
                                subs[*i] = Some((d.clone(), vec![], vec![]));
                                shape.push("watch-counter");
                            } else {
                                // a second watch of the same key: how many copies arrive is not specified
                                subs[*i] = None;
                                watched_twice[*i] = true;
                            }
                        }
                    }
                    if *line == "unwatch-all" {
                        if let Some((db, want, got)) = subs[*i].take() {
                            sub_checked += got.len() as u64;
                            if got != want && sub_problem.is_none() {
                                sub_problem = Some(json!({"session": i, "database": db, "expected": want, "got": got, "judged_at": "unwatch-all"}));
                            }
                        }
                    }
                    reply = r.resp;
                    shape.push("other");
                }
            }
            E::Disconnect(i) => {
                if let Some((mut s, sel)) = sessions[*i].take() {
                    if let Some((db, want, mut got)) = subs[*i].take() {
                        got.extend(notes_of(&s.drain()));
                        sub_checked += got.len() as u64;
                        if got != want && sub_problem.is_none() {
                            sub_problem = Some(json!({"session": i, "database": db, "expected": want, "got": got, "judged_at": "disconnect"}));
                        }
                    }
                    s.disconnect(&dbs);
                    if let Some(d) = sel {
                        *model.get_mut(&d).unwrap() -= 1;
                    }
                    shape.push("disconnect");
                }
            }
        }));
        trace.push(json!({"event": format!("{:?}", e), "reply": reply}));
        if let Err(p) = res {
            v.report(json!({"check": "connections", "mode": "sequential", "problem": "panic", "event": format!("{:?}", e).split('(').next().unwrap_or(""), "panic": panic_msg(&p).split(':').next().unwrap_or("")}), json!({"events": format!("{:?}", evs), "trace": trace}));
            return;
        }
        if model["d0"] != before_d0 {
            expected_notes.push(model["d0"].to_string());
        }
        for su in subs.iter_mut().flatten() {
            if model[&su.0] != before_all[&su.0] {
                su.1.push(model[&su.0].to_string());
            }
        }
        let got = counts(&dbs);
        for d in DBS.iter() {
            let (cnt, key) = &got[*d];
            if *cnt != model[*d] || key != &model[*d].to_string() {
                let last = shape.last().cloned().unwrap_or("");
                let sig = json!({"check": "connections", "mode": "sequential", "problem": if *cnt != model[*d] {"count-differs-from-open-sessions"} else {"key-differs-from-count"},
                    "after": last, "direction": if *cnt > model[*d] {"too-high"} else if *cnt < model[*d] {"too-low"} else {"key-only"}});
                v.report(sig, json!({"events": format!("{:?}", evs), "trace": trace, "db": d, "open_sessions_by_model": model, "connections_counter": cnt, "$connections": key}));
                return;
            }
        }
    }
    if let Some(p) = sub_problem {
        v.report(json!({"check": "connections", "mode": "sequential", "problem": "watcher-did-not-see-each-change", "watcher": "session-of-the-sequence"}), json!({"events": format!("{:?}", evs), "trace": trace, "subscription": p}));
    }
    st.lock().unwrap().notifications_checked += sub_checked;
    // what the watcher saw
    let notes: Vec<String> = w.drain().into_iter().filter_map(|m| m.strip_prefix("changed $connections ").map(|x| x.trim().to_string())).collect();
    let mut s = st.lock().unwrap();
    s.notifications_checked += notes.len() as u64;
    if notes != expected_notes {
        drop(s);
        v.report(json!({"check": "connections", "mode": "sequential", "problem": "watcher-did-not-see-each-change"}), json!({"events": format!("{:?}", evs), "expected": expected_notes, "got": notes}));
        s = st.lock().unwrap();
    }
    s.sequences += 1;
    s.events += evs.len() as u64;
    s.shapes.insert(shape.join(">"));
    if s.samples.len() < 3 && shape.len() > 4 {
        s.samples.push(json!({"events": format!("{:?}", evs), "trace": trace, "watcher_saw": notes}));
    }
}

fn random_events(r: &mut Rng) -> Vec<E> {
    let n = r.range(3, 14);
    let mut evs = vec![];
    for _ in 0..n {
        let i = r.below(3);
        evs.push(match r.below(12) {
            0..=2 => E::Connect(i),
            3..=6 => E::Use(i, r.below(2), *r.pick(&[0, 0, 0, 1, 2, 2, 3])),
            7 => E::Other(i, *r.pick(&["get a", "set a 1", "keys", "unwatch-all", "watch a", "get $connections"])),
            8 => E::Other(i, "watch $connections"),
            _ => E::Disconnect(i),
        });
    }
    // everybody leaves at the end
    for i in 0..3 {
        evs.push(E::Disconnect(i));
    }
    evs
}

// ---------------------------------------------------------------- controlled interleavings of two sessions
fn interleaved(v: &Verdicts, runs: usize, seed0: u64) -> (u64, BTreeSet<u64>, BTreeSet<u64>) {
    sched::install_callback_inner();
    let distinct = Mutex::new(BTreeSet::new());
    let nontrivial = Mutex::new(BTreeSet::new());
    let total = std::sync::atomic::AtomicU64::new(0);
    let next = std::sync::atomic::AtomicUsize::new(0);
    std::thread::scope(|sc| {
        for _ in 0..workers() {
            let (next, v, distinct, nontrivial, total) = (&next, &v, &distinct, &nontrivial, &total);
            sc.spawn(move || loop {
                let i = next.fetch_add(1, std::sync::atomic::Ordering::SeqCst);
                if i >= runs {
                    break;
                }
                let mut rng = Rng::new(seed0.wrapping_mul(31).wrapping_add(i as u64));
                let (node, _adm) = setup();
                let dbs = node.dbs.clone();
                let base = counts(&dbs);
                // each client: use-db X ; [use-db Y] ; [stay | disconnect]
                let plans: Vec<(Vec<usize>, bool)> = (0..2).map(|_| ((0..rng.range(1, 2)).map(|_| rng.below(2)).collect(), rng.chance(2, 3))).collect();
                let bodies: Vec<_> = plans
                    .iter()
                    .map(|(uses, leave)| {
                        let (dbs, uses, leave) = (dbs.clone(), uses.clone(), *leave);
                        move |tid: usize, sc: &sched::Sched| {
                            let mut s = Session::new();
                            for (k, d) in uses.iter().enumerate() {
                                sched::yield_point(sc, tid, "op");
                                sc.log(Ev::Call(tid, k, format!("use-db {}", DBS[*d])));
                                let r = s.call(&dbs, &format!("use-db {} tok", DBS[*d]));
                                sc.log(Ev::Ret(tid, k, r.resp));
                            }
                            if leave {
                                sched::yield_point(sc, tid, "op");
                                sc.log(Ev::Call(tid, 9, "disconnect".into()));
                                s.disconnect(&dbs);
                                sc.log(Ev::Ret(tid, 9, "Ok".into()));
                            } else {
                                std::mem::forget(s); // stays connected
                            }
                        }
                    })
                    .collect();
                let out = sched::run_controlled(bodies, &mut rng, if i % 2 == 0 { Policy::Random } else { Policy::Pct(2) });
                total.fetch_add(1, std::sync::atomic::Ordering::SeqCst);
                if out.stuck {
                    v.inconclusive("controlled run stuck");
                    continue;
                }
                if out.events.iter().any(|e| matches!(e, Ev::Ret(_, i, _) if *i == usize::MAX)) {
                    v.report(json!({"check": "connections", "mode": "interleaved", "problem": "panic"}), json!({"plans": format!("{:?}", plans), "events": format!("{:?}", out.events)}));
                    continue;
                }
                let h = sched::schedule_hash(&out.events);
                distinct.lock().unwrap().insert(h);
                // overlap of two sessions' operations on the same database
                let mut model: BTreeMap<String, usize> = DBS.iter().map(|d| (d.to_string(), base[*d].0)).collect();
                let mut same_db = false;
                for (uses, leave) in &plans {
                    if !*leave {
                        *model.get_mut(DBS[*uses.last().unwrap()]).unwrap() += 1;
                    }
                }
                let used: Vec<BTreeSet<usize>> = plans.iter().map(|p| p.0.iter().cloned().collect()).collect();
                if used[0].intersection(&used[1]).next().is_some() {
                    same_db = true;
                }
                if same_db {
                    nontrivial.lock().unwrap().insert(h);
                }
                let got = counts(&dbs);
                for d in DBS.iter() {
                    let (cnt, key) = &got[*d];
                    if *cnt != model[*d] || key != &model[*d].to_string() {
                        v.report(
                            json!({"check": "connections", "mode": "interleaved", "problem": if *cnt != model[*d] {"count-differs-from-open-sessions"} else {"key-differs-from-count"}}),
                            json!({"plans": format!("{:?}", plans), "db": d, "open_sessions_by_model": model, "connections_counter": cnt, "$connections": key, "decisions": out.decisions,
                                   "events": out.events.iter().map(|e| format!("{:?}", e)).collect::<Vec<_>>()}),
                        );
                        break;
                    }
                }
            });
        }
    });
    (total.into_inner(), distinct.into_inner().unwrap(), nontrivial.into_inner().unwrap())
}

// ---------------------------------------------------------------- across a snapshot and a restart
/// Sessions that were open when a snapshot was written are gone after a restart: the count starts from the sessions that
/// are really there. Real files, start-up sequence of main.rs.
/// Cluster part (Engine N): the count is node-local. Sessions select one database on the primary and on a secondary, the
/// secondary leaves (kill or clean stop, disk kept or wiped) and re-joins through a full or since-a-time synchronisation
/// while sessions come and go on the primary, then new sessions arrive on it: on every node the counter and the
/// $connections key equal the sessions open on THAT node.
fn cluster_part(v: &Verdicts, runs: usize, seed0: u64) -> (u64, u64, u64, u64) {
    use crate::c04::form_cluster;
    use crate::cluster::Outcome;
    std::env::set_var("NUN_ELECTION_TIMEOUT", "30");
    let (mut done, mut inconclusive, mut checks, mut full_with_early) = (0u64, 0u64, 0u64, 0u64);
    for r in 0..runs {
        let mut rng = Rng::new(seed0.wrapping_mul(7919).wrapping_add(r as u64));
        let Some(mut c) = form_cluster(2, seed0.wrapping_add(r as u64), "c17c") else {
            inconclusive += 1;
            continue;
        };
        let mut trace: Vec<String> = vec![];
        let mut expected = [0usize, 0usize];
        let mut names: [Vec<String>; 2] = [vec![], vec![]];
        c.open_session("p", 0);
        c.call("p", "auth admin pwd");
        c.call("p", "create-db cd tok");
        let _ = c.run_until_quiet();
        let open = |c: &mut crate::cluster::Cluster, name: String, node: usize, expected: &mut [usize; 2], names: &mut [Vec<String>; 2], trace: &mut Vec<String>| -> bool {
            c.open_session(&name, node);
            let (resp, _) = c.call(&name, "use-db cd tok");
            if resp != "Ok" {
                trace.push(format!("session {} on n{}: use-db refused ({})", name, node, resp));
                return false;
            }
            expected[node] += 1;
            names[node].push(name.clone());
            trace.push(format!("session {} on n{} selects cd", name, node));
            true
        };
        for i in 0..rng.range(0, 3) {
            open(&mut c, format!("a{}", i), 0, &mut expected, &mut names, &mut trace);
        }
        for i in 0..rng.range(0, 2) {
            open(&mut c, format!("b{}", i), 1, &mut expected, &mut names, &mut trace);
        }
        if rng.chance(3, 4) {
            c.call("p", "use-db cd tok");
            expected[0] += 1;
            names[0].push("p".into());
            c.call("p", "set k v");
            trace.push("admin session on n0 selects cd and writes".into());
        }
        let _ = c.run_until_quiet();
        if rng.chance(3, 4) {
            c.call("p", "snapshot false cd");
            let _ = c.run_until_quiet();
            c.declutter(0);
            c.declutter(1);
            trace.push("snapshot of cd on both nodes".into());
            // a key created after the snapshot: the secondary's operation log is no longer valid for a restart after a kill
            // (it will ask for everything) while the database itself is on its disk
            if names[0].contains(&"p".to_string()) && rng.chance(3, 4) {
                c.call("p", "set fresh x");
                let _ = c.run_until_quiet();
                trace.push("a new key is written after the snapshot".into());
            }
        }
        let (clean, wipe) = (rng.chance(1, 3), rng.chance(1, 4));
        if clean {
            c.clean_stop_node(1);
        } else {
            c.kill_node(1);
        }
        if wipe {
            c.wipe_disk(1);
        }
        expected[1] = 0;
        names[1].clear();
        trace.push(format!("n1 leaves ({}, disk {})", if clean { "clean stop" } else { "kill" }, if wipe { "wiped" } else { "kept" }));
        let q1 = c.run_until_quiet();
        for i in 0..rng.range(0, 2) {
            open(&mut c, format!("c{}", i), 0, &mut expected, &mut names, &mut trace);
        }
        let q2 = c.run_until_quiet();
        let before_links = c.link_log().len();
        c.start_node(1, 10_000, &[0, 1]);
        // clients can get in before the node has joined: the listener is up first (only a database loaded from disk can be selected)
        if rng.chance(5, 6) {
            for i in 0..rng.range(1, 2) {
                open(&mut c, format!("e{}", i), 1, &mut expected, &mut names, &mut trace);
            }
        }
        let q3 = c.run_until_quiet();
        c.declutter(0);
        c.declutter(1);
        let q4 = c.run_until_quiet();
        let full_sync = c.link_log()[before_links..].iter().any(|l| l.1 == 1 && l.2 == 0 && l.3.starts_with("replicate-since ") && l.3.ends_with(" 0"));
        trace.push(format!("n1 re-joins ({} synchronisation)", if full_sync { "full" } else { "since-a-time" }));
        if full_sync && names[1].iter().any(|n| n.starts_with('e')) {
            full_with_early += 1;
        }
        if std::env::var("VERIF_DEBUG_C17").is_ok() {
            eprintln!("DBG run {} {:?}", r, trace);
        }
        if ![&q1, &q2, &q3, &q4].iter().all(|q| matches!(q, Outcome::Quiet(_))) || !c.panics().is_empty() {
            inconclusive += 1; // re-joining is C05's / C07's business
            c.shutdown();
            continue;
        }
        for i in 0..rng.range(0, 1) {
            open(&mut c, format!("d{}", i), 1, &mut expected, &mut names, &mut trace);
        }
        let _ = c.run_until_quiet();
        for node in 0..2 {
            let dbs = c.dbs(node);
            let counter = {
                let map = dbs.map.read().unwrap();
                map.get("cd").map(|d| d.connections_count())
            };
            let Some(counter) = counter else { continue }; // a database that did not arrive is C05's business
            checks += 1;
            // the key as a session that already has the database selected reads it (a newcomer's use-db would republish it first)
            let key = names[node].first().cloned().map(|nm| {
                let (resp, pushed) = c.call(&nm, "get $connections");
                pushed.iter().find_map(|l| l.strip_prefix("value ").map(|x| x.trim_end().to_string())).unwrap_or(format!("? {} {:?}", resp, pushed))
            });
            let key_wrong = key.as_ref().map(|k| *k != expected[node].to_string()).unwrap_or(false);
            if counter != expected[node] || key_wrong {
                v.report(
                    json!({"check": "connections", "mode": "cluster-rejoin", "problem": if counter != expected[node] { "count-differs-from-open-sessions" } else { "key-differs-from-count" }, "node": if node == 0 { "primary" } else { "re-joined-secondary" }}),
                    json!({"run": r, "seed": seed0, "trace": trace, "node": node, "sessions_open_on_the_node": expected[node], "counter": counter, "key_read_by_an_open_session": key,
                           "links_since_rejoin": c.link_log()[before_links..].iter().take(60).map(|l| format!("[{}] n{}->n{} {}", l.0, l.1, l.2, l.3)).collect::<Vec<_>>()}),
                );
            }
        }
        done += 1;
        c.shutdown();
    }
    (done, inconclusive, checks, full_with_early)
}

fn restart_part(v: &Verdicts) -> u64 {
    use crate::common::node::NodeOpts;
    let mut cases = 0u64;
    for open_at_snapshot in [0usize, 1, 3] {
        for reclaim in [false, true] {
            for clean_stop in [false, true] {
                cases += 1;
                let dir = fresh_dir("c17-restart");
                let start = |dir: &str| -> Node {
                    let mut o = NodeOpts::simple(dir);
                    o.load_from_disk = true;
                    let n = Node::start(o);
                    n.set_role(nundb::bo::ClusterRole::Primary);
                    n
                };
                let mut node = start(&dir);
                let dbs = node.dbs.clone();
                let mut adm = Session::new();
                adm.call(&dbs, "auth admin pwd");
                adm.call(&dbs, "create-db rd tok");
                let mut open: Vec<Session> = vec![];
                for _ in 0..open_at_snapshot {
                    let mut s = Session::new();
                    s.call(&dbs, "use-db rd tok");
                    s.call(&dbs, "set k v");
                    open.push(s);
                }
                adm.call(&dbs, &format!("snapshot {} rd", reclaim));
                nundb::disk_ops::verif_declutter(&dbs);
                if clean_stop {
                    for s in open.drain(..) {
                        s.disconnect(&dbs);
                    }
                    node.safe_shutdown();
                } else {
                    for s in open.drain(..) {
                        std::mem::forget(s); // the process dies with its sessions
                    }
                }
                drop(node);
                if crate::c06::load_probe(&dir).is_err() {
                    continue; // C06 / C11 report start-up failures
                }
                let node2 = start(&dir);
                let dbs2 = node2.dbs.clone();
                let read = |dbs: &Arc<Databases>| -> (usize, String) {
                    let map = dbs.map.read().unwrap();
                    match map.get("rd") {
                        Some(d) => (d.connections_count(), d.map.read().unwrap().get("$connections").map(|v| v.value.clone()).unwrap_or("0".into())),
                        None => (usize::MAX, "database missing".into()),
                    }
                };
                if read(&dbs2).0 == usize::MAX {
                    continue; // a database that was not restored is C06's business
                }
                let mut trace = vec![];
                let mut s1 = Session::new();
                s1.call(&dbs2, "use-db rd tok");
                trace.push(("one session selected", read(&dbs2)));
                let mut s2 = Session::new();
                s2.call(&dbs2, "use-db rd tok");
                trace.push(("two sessions selected", read(&dbs2)));
                s1.disconnect(&dbs2);
                trace.push(("one left", read(&dbs2)));
                s2.disconnect(&dbs2);
                trace.push(("both left", read(&dbs2)));
                let want = [1usize, 2, 1, 0];
                if let Some(i) = (0..4).find(|i| trace[*i].1 .0 != want[*i] || trace[*i].1 .1 != want[*i].to_string()) {
                    v.report(json!({"check": "connections", "mode": "restart", "problem": "count-differs-from-open-sessions", "sessions_open_when_the_snapshot_was_written": open_at_snapshot > 0}),
                        json!({"sessions_open_at_snapshot": open_at_snapshot, "snapshot_reclaims": reclaim, "clean_stop": clean_stop, "first_wrong_step": trace[i].0, "observed_counter_and_key": trace.iter().map(|t| json!([t.0, t.1 .0, t.1 .1])).collect::<Vec<_>>(), "expected": want}));
                }
                drop(node2);
                let _ = std::fs::remove_dir_all(&dir);
            }
        }
    }
    cases
}

// ---------------------------------------------------------------- real transports
fn wait_counts(dbs: &Arc<Databases>, want: &BTreeMap<String, usize>) -> BTreeMap<String, (usize, String)> {
    let deadline = Instant::now() + Duration::from_secs(10);
    loop {
        let got = counts(dbs);
        let ok = DBS.iter().all(|d| got[*d].0 == want[*d] && got[*d].1 == want[*d].to_string());
        if ok || Instant::now() > deadline {
            return got;
        }
        std::thread::sleep(Duration::from_millis(5));
    }
}

static HTTP_INSIDE: std::sync::atomic::AtomicU64 = std::sync::atomic::AtomicU64::new(0);

fn transports(v: &Verdicts, sessions: usize, rng: &mut Rng) -> (u64, BTreeSet<String>) {
    let mut shapes = BTreeSet::new();
    let dir = fresh_dir("c17-live");
    let live = match LiveNode::start(&dir, false) {
        Some(l) => l,
        None => {
            v.inconclusive("could not bind loopback ports");
            return (0, shapes);
        }
    };
    // LiveNode creates db/db2; this check uses its own pair
    {
        let mut adm = Session::new();
        adm.call(&live.dbs, "auth admin pwd");
        adm.call(&live.dbs, "create-db d0 tok");
        adm.call(&live.dbs, "create-db d1 tok");
    }
    let mut n = 0u64;
    // a resident session on the first database for the whole part: counts never start from zero there, so a count that
    // is one too low is visible (a counter that saturates at zero hides it)
    let mut resident = TcpClient::connect(&live.tcp).ok();
    if let Some(c) = resident.as_mut() {
        c.send(format!("use-db {} tok\n", DBS[0]).as_bytes());
        let _ = c.read_until("ok", Duration::from_secs(10));
    }
    let zero: BTreeMap<String, usize> = DBS.iter().map(|d| (d.to_string(), if *d == DBS[0] && resident.is_some() { 1usize } else { 0usize })).collect();
    let base = wait_counts(&live.dbs, &zero);
    let base: BTreeMap<String, usize> = base.iter().map(|(k, v)| (k.clone(), v.0)).collect();
    let mut i = 0;
    let mut resets = 0u64;
    while (n as usize) < sessions {
        i += 1;
        let transport = ["tcp", "http", "ws"][i % 3];
        // a burst of 1-3 sessions; each selects 1-3 times (same db again / other db / wrong token)
        let burst = rng.range(1, 3);
        let mut plans: Vec<Vec<String>> = vec![];
        let mut shape = vec![transport.to_string()];
        for _ in 0..burst {
            let k = rng.range(1, 3);
            let mut lines = vec![];
            let mut last: Option<usize> = None;
            for _ in 0..k {
                let d = rng.below(2);
                match rng.below(5) {
                    0 => {
                        lines.push(format!("use-db {} wrong", DBS[d]));
                        shape.push("fail".into());
                    }
                    _ => {
                        lines.push(format!("use-db {} tok", DBS[d]));
                        shape.push(if last == Some(d) { "same".into() } else if last.is_some() { "other".into() } else { "first".into() });
                        last = Some(d);
                    }
                }
            }
            plans.push(lines);
        }
        shapes.insert(shape.join(">"));
        let mut during_ok = true;
        let mut during_detail = String::new();
        match transport {
            "tcp" => {
                let mut conns = vec![];
                let mut model = base.clone();
                for lines in &plans {
                    if let Ok(mut c) = TcpClient::connect(&live.tcp) {
                        let mut sel: Option<String> = None;
                        for l in lines {
                            c.send(format!("{}\n", l).as_bytes());
                            let _ = c.read_until(if l.ends_with("wrong") { "error" } else { "ok" }, Duration::from_secs(10));
                            if l.ends_with(" tok") {
                                let d = l.split(' ').nth(1).unwrap().to_string();
                                if sel.as_ref() != Some(&d) {
                                    if let Some(o) = &sel {
                                        *model.get_mut(o).unwrap() -= 1;
                                    }
                                    *model.get_mut(&d).unwrap() += 1;
                                    sel = Some(d);
                                }
                            }
                        }
                        conns.push(c);
                    }
                }
                // while all are connected
                let got = wait_counts(&live.dbs, &model);
                if DBS.iter().any(|d| got[*d].0 != model[*d] || got[*d].1 != model[*d].to_string()) {
                    during_ok = false;
                    during_detail = format!("while connected: model {:?} got {:?}", model, got);
                }
                // socket close: an orderly one (everything read, FIN), or a reset: replies left unread in the receive buffer
                // and SO_LINGER 0, so the server's read fails with ECONNRESET instead of seeing the end of the stream
                for (k, mut c) in conns.into_iter().enumerate() {
                    if (k + i) % 2 == 0 {
                        drop(c);
                    } else {
                        c.send(b"get $connections\nkeys\nget $connections\n");
                        std::thread::sleep(Duration::from_millis(2));
                        use std::os::unix::io::AsRawFd;
                        let lin = libc::linger { l_onoff: 1, l_linger: 0 };
                        unsafe {
                            libc::setsockopt(c.s.as_raw_fd(), libc::SOL_SOCKET, libc::SO_LINGER, &lin as *const _ as *const libc::c_void, std::mem::size_of::<libc::linger>() as libc::socklen_t);
                        }
                        resets += 1;
                        drop(c);
                    }
                }
            }
            "ws" => {
                let mut conns = vec![];
                let mut model = base.clone();
                for lines in &plans {
                    if let Ok(mut c) = WsClient::connect(&live.ws) {
                        let mut sel: Option<String> = None;
                        for l in lines {
                            c.send_text(l);
                            let _ = c.read_until(if l.ends_with("wrong") { "error" } else { "ok" }, Duration::from_secs(10));
                            if l.ends_with(" tok") {
                                let d = l.split(' ').nth(1).unwrap().to_string();
                                if sel.as_ref() != Some(&d) {
                                    if let Some(o) = &sel {
                                        *model.get_mut(o).unwrap() -= 1;
                                    }
                                    *model.get_mut(&d).unwrap() += 1;
                                    sel = Some(d);
                                }
                            }
                        }
                        conns.push(c);
                    }
                }
                let got = wait_counts(&live.dbs, &model);
                if DBS.iter().any(|d| got[*d].0 != model[*d] || got[*d].1 != model[*d].to_string()) {
                    during_ok = false;
                    during_detail = format!("while connected: model {:?} got {:?}", model, got);
                }
                for (k, mut c) in conns.into_iter().enumerate() {
                    match (k + i) % 4 {
                        0 => c.close(),
                        1 => drop(c), // abrupt close without a close frame
                        2 => {
                            // replies left unread + reset: the server's event loop gets an error, not an end of stream
                            c.send_text("get $connections");
                            c.send_text("keys");
                            std::thread::sleep(Duration::from_millis(2));
                            c.reset();
                        }
                        _ => c.protocol_error(),
                    }
                }
            }
            _ => {
                for lines in &plans {
                    // the count the request itself observes is the last entry of the reply: the sessions that are open
                    // besides it (the resident one) plus the request's own session, on the database it selected last
                    let body = format!("{};get $connections", lines.join(";"));
                    let reply = http_post(&live.http, body.as_bytes(), Duration::from_secs(10));
                    let selected: Option<String> = lines.iter().filter(|l| l.ends_with(" tok")).last().map(|l| l.split(' ').nth(1).unwrap().to_string());
                    if let (Ok(reply), Some(d)) = (&reply, &selected) {
                        let last = reply.trim_end().rsplit(';').next().unwrap_or("").trim().to_string();
                        let want = format!("value {}", base[d] + 1);
                        HTTP_INSIDE.fetch_add(1, std::sync::atomic::Ordering::SeqCst);
                        if last != want {
                            during_ok = false;
                            during_detail = format!("request '{}' answered '{}': its own reading of $connections is '{}', expected '{}'", body, reply.trim_end(), last, want);
                        }
                    }
                }
            }
        }
        n += burst as u64;
        // after the burst has gone, the counters are back at their previous value
        let got = wait_counts(&live.dbs, &base);
        let back = DBS.iter().all(|d| got[*d].0 == base[*d] && got[*d].1 == base[*d].to_string());
        let panics: Vec<String> = take_panics().into_iter().filter(|p| p.contains("/repo/")).collect();
        if !during_ok || !back || !panics.is_empty() {
            let problem = if !panics.is_empty() { "disconnect-path-panicked" } else if !during_ok { "count-differs-while-connected" } else { "count-not-back-after-burst" };
            let has_same = shape.iter().any(|s| s == "same");
            let has_other = shape.iter().any(|s| s == "other");
            let sig = json!({"check": "connections", "mode": "transport", "transport": transport, "problem": problem, "burst_has_reselect": has_same, "burst_has_switch": has_other});
            v.report(sig, json!({"plans": plans, "detail": during_detail, "base": base, "after_burst": got, "panics": panics}));
            return (n, shapes); // counters are off from here on
        }
    }
    TCP_RESETS.store(resets, std::sync::atomic::Ordering::SeqCst);
    drop(resident);
    (n, shapes)
}

static TCP_RESETS: std::sync::atomic::AtomicU64 = std::sync::atomic::AtomicU64::new(0);

/// A burst of sessions watched by a session that does not take its messages meanwhile (round 10): 30-400 sessions select
/// the database and leave (or select, switch to the other database and leave) while the watcher of `$connections` lets
/// 60-1600 notification lines pile up. When it finally reads, it has been told of EVERY change, in order (+1 for every
/// selection, -1 for every departure), it is still subscribed (the next session is announced too), and the counter is
/// back where it was. Returns (bursts, changes the watchers were told of, largest backlog in lines).
fn watched_bursts(v: &Verdicts, thorough: bool, rng: &mut Rng) -> (u64, u64, u64) {
    let (mut bursts, mut told, mut largest) = (0u64, 0u64, 0u64);
    let sizes: Vec<usize> = if thorough { vec![30, 51, 52, 75, 120, 200, 400, 60, 101, 49, 50, 300] } else { vec![30, 51, 75, 120, 200] };
    for (bi, n) in sizes.into_iter().enumerate() {
        let (node, _adm) = setup();
        let dbs = node.dbs.clone();
        let mut w = Session::new();
        w.call(&dbs, "use-db d0 tok");
        w.call(&dbs, "watch $connections");
        w.drain();
        let base = counts(&dbs).get("d0").map(|c| c.0).unwrap_or(0);
        let style = bi % 3;
        let mut expected: Vec<String> = vec![];
        let mut now = base;
        let mut open: Vec<Session> = vec![];
        for i in 0..n {
            let mut s = Session::new();
            s.call(&dbs, if rng.chance(1, 4) { "use-db d0 u utok" } else { "use-db d0 tok" });
            now += 1;
            expected.push(now.to_string());
            match style {
                // each session leaves before the next one comes
                0 => {
                    s.disconnect(&dbs);
                    now -= 1;
                    expected.push(now.to_string());
                }
                // each session moves on to the other database, then leaves
                1 => {
                    s.call(&dbs, "use-db d1 tok");
                    now -= 1;
                    expected.push(now.to_string());
                    s.disconnect(&dbs);
                }
                // they all stay until everybody is there (every seventh re-selects the database meanwhile: no change)
                _ => {
                    if i % 7 == 3 {
                        s.call(&dbs, "use-db d0 tok");
                    }
                    open.push(s);
                }
            }
        }
        for s in open.drain(..) {
            s.disconnect(&dbs);
            now -= 1;
            expected.push(now.to_string());
        }
        let lines = w.drain();
        largest = largest.max(lines.len() as u64);
        let got = notes_of(&lines);
        bursts += 1;
        told += got.len() as u64;
        let after = counts(&dbs).get("d0").map(|c| c.0).unwrap_or(0);
        // is the watcher still subscribed? one more session comes and goes
        let mut late = Session::new();
        late.call(&dbs, "use-db d0 tok");
        let heard_late = notes_of(&w.drain());
        late.disconnect(&dbs);
        w.drain();
        let style_name = ["each-leaves-before-the-next", "each-moves-to-another-database-then-leaves", "all-stay-then-all-leave"][style];
        if got != expected {
            let first_diff = got.iter().zip(expected.iter()).position(|(a, b)| a != b).unwrap_or(got.len().min(expected.len()));
            v.report(json!({"check": "connections", "mode": "burst-watched-by-a-session-that-reads-later", "problem": "watcher-did-not-see-each-change"}),
                json!({"sessions_in_the_burst": n, "burst": style_name, "changes": expected.len(), "changes_the_watcher_was_told_of": got.len(), "first_difference_at_change": first_diff,
                       "expected_around": expected.iter().skip(first_diff.saturating_sub(2)).take(6).collect::<Vec<_>>(), "got_around": got.iter().skip(first_diff.saturating_sub(2)).take(6).collect::<Vec<_>>(), "lines_waiting_when_it_read": lines.len()}));
        } else if heard_late != vec![(base + 1).to_string()] {
            v.report(json!({"check": "connections", "mode": "burst-watched-by-a-session-that-reads-later", "problem": "watcher-no-longer-subscribed-after-the-burst"}),
                json!({"sessions_in_the_burst": n, "burst": style_name, "told_of_the_next_session": heard_late, "expected": (base + 1).to_string()}));
        }
        if after != base {
            v.report(json!({"check": "connections", "mode": "burst-watched-by-a-session-that-reads-later", "problem": "count-not-back-after-the-burst"}), json!({"sessions_in_the_burst": n, "burst": style_name, "before": base, "after": after}));
        }
        w.disconnect(&dbs);
    }
    (bursts, told, largest)
}

/// Sessions that come and go while the set of databases changes (round 12). Real threads, no scheduler: one administrator
/// creates databases in a loop (each creation takes the write lock of the databases map; a waiting writer also keeps new
/// readers out) while four sessions select d0 and leave again, 150-1500 times each. Whatever a disconnect finds the
/// databases map busy with, it counts: when everybody has gone the count of d0 is back where it was and the key says so.
/// Returns (rounds, sessions that came and went, databases created meanwhile).
fn sessions_during_create_db(v: &Verdicts, thorough: bool) -> (u64, u64, u64) {
    use std::sync::atomic::{AtomicBool, AtomicU64, Ordering};
    let (mut rounds, mut came, mut created) = (0u64, 0u64, 0u64);
    for round in 0..(if thorough { 12 } else { 3 }) {
        let (node, _adm) = setup();
        let dbs = node.dbs.clone();
        let base = counts(&dbs).get("d0").map(|c| c.0).unwrap_or(0);
        let stop = AtomicBool::new(false);
        let made = AtomicU64::new(0);
        let gone = AtomicU64::new(0);
        let per = if thorough { 1500 } else { 150 + 150 * round };
        std::thread::scope(|sc| {
            sc.spawn(|| {
                let mut a = Session::new();
                a.call(&dbs, "auth admin pwd");
                let mut i = 0u64;
                while !stop.load(Ordering::SeqCst) {
                    a.call(&dbs, &format!("create-db extra{}x{} tok", round, i));
                    i += 1;
                    made.fetch_add(1, Ordering::SeqCst);
                    if i % 16 == 0 {
                        std::thread::sleep(Duration::from_micros(200));
                    }
                    if i > 20_000 {
                        break;
                    }
                }
                a.disconnect(&dbs);
            });
            let workers: Vec<_> = (0..4)
                .map(|w| {
                    let (dbs, gone) = (&dbs, &gone);
                    sc.spawn(move || {
                        for i in 0..per {
                            let mut s = Session::new();
                            s.call(dbs, if (i + w) % 5 == 0 { "use-db d0 u utok" } else { "use-db d0 tok" });
                            if i % 3 == 0 {
                                s.call(dbs, "get $connections");
                            }
                            s.disconnect(dbs);
                            gone.fetch_add(1, Ordering::SeqCst);
                        }
                    })
                })
                .collect();
            for w in workers {
                let _ = w.join();
            }
            stop.store(true, Ordering::SeqCst);
        });
        rounds += 1;
        came += gone.load(Ordering::SeqCst);
        created += made.load(Ordering::SeqCst);
        let after = counts(&dbs).get("d0").cloned().unwrap_or((0, String::new()));
        if after.0 != base || after.1 != base.to_string() {
            v.report(json!({"check": "connections", "mode": "sessions-leaving-while-databases-are-created", "problem": if after.0 != base { "count-not-back-after-the-burst" } else { "key-differs-from-count" }}),
                json!({"sessions_that_came_and_went": gone.load(Ordering::SeqCst), "databases_created_meanwhile": made.load(Ordering::SeqCst), "count_before": base, "count_after": after.0, "key_after": after.1}));
        }
    }
    (rounds, came, created)
}

pub fn run(tier: &str) -> i32 {
    quiet_panics();
    let thorough = tier == "thorough";
    let v = std::sync::Arc::new(Verdicts::load("C17"));
    {
        // two sessions that block each other for good inside use-db / disconnect: the controlled run can never be joined
        let (v2, tier2) = (v.clone(), tier.to_string());
        *sched::ON_STUCK.lock().unwrap() = Some(std::sync::Arc::new(move |events: &[Ev], decisions: &[usize]| {
            v2.report(json!({"check": "connections", "mode": "interleaved", "problem": "sessions-blocked-forever"}), json!({"events": format!("{:?}", events), "decisions": decisions, "explanation": "every session had been let go and none finished its command within 20 s: the commands deadlocked"}));
            let mut ev = Evidence::new("C17", &tier2, "exploration");
            ev.rule = "aborted: two sessions deadlocked in the controlled interleaving part; see the replay".into();
            ev.violations = v2.violation_count();
            ev.write();
            cleanup_scratch();
            let code = v2.finish(&tier2);
            println!("C17 {}: aborted after a deadlock of two sessions, {} violations", tier2, v2.violation_count());
            std::process::exit(code);
        }));
    }
    let mut ev = Evidence::new("C17", tier, "exploration");
    let st = Mutex::new(SeqStats { sequences: 0, events: 0, shapes: BTreeSet::new(), notifications_checked: 0, samples: vec![] });
    let mut rng = Rng::new(seed());
    let mut cases: Vec<Vec<E>> = vec![];
    // systematic: one session, every ordered pair/triple of selections, then disconnect
    for a in 0..4usize {
        for b in 0..5usize {
            for c in 0..5usize {
                let mut evs = vec![E::Connect(0)];
                for x in [a, b.min(4), c.min(4)] {
                    match x {
                        0 => evs.push(E::Use(0, 0, 0)),
                        1 => evs.push(E::Use(0, 1, 0)),
                        2 => evs.push(E::Use(0, 0, 2)),
                        3 => evs.push(E::Use(0, 0, 1)),
                        _ => {}
                    }
                }
                evs.push(E::Disconnect(0));
                cases.push(evs);
            }
        }
    }
    // systematic: a session that watches the counter of its database, selects (the same database again with the token
    // or as a user, a wrong token, the other database) and stays while another session comes and goes
    for first in [0usize, 2] {
        for again in [vec![], vec![E::Use(0, 0, 0)], vec![E::Use(0, 0, 2)], vec![E::Use(0, 0, 1)], vec![E::Use(0, 0, 0), E::Use(0, 0, 2)], vec![E::Use(0, 1, 0)], vec![E::Use(0, 1, 0), E::Use(0, 0, 0)], vec![E::Other(0, "get a")]] {
            for other_kind in [0usize, 2] {
                let mut evs = vec![E::Connect(0), E::Use(0, 0, first), E::Other(0, "watch $connections")];
                evs.extend(again.clone());
                evs.extend([E::Connect(1), E::Use(1, 0, other_kind), E::Use(1, 1, 0), E::Connect(2), E::Use(2, 0, 0), E::Disconnect(2), E::Disconnect(1), E::Disconnect(0)]);
                cases.push(evs);
            }
        }
    }
    let systematic = cases.len();
    let n_random = if thorough { 200_000 } else { 20_000 };
    for _ in 0..n_random {
        cases.push(random_events(&mut rng));
    }
    let next = std::sync::atomic::AtomicUsize::new(0);
    std::thread::scope(|sc| {
        for _ in 0..workers() {
            let (next, v, st, cases) = (&next, &v, &st, &cases);
            sc.spawn(move || loop {
                let i = next.fetch_add(1, std::sync::atomic::Ordering::SeqCst);
                if i >= cases.len() {
                    break;
                }
                run_sequence(&cases[i], v, st);
            });
        }
    });
    let (il_runs, il_distinct, il_nontrivial) = interleaved(&v, if thorough { 40_000 } else { 3_000 }, seed());
    sched::clear_callback();
    take_panics();
    let restart_cases = restart_part(&v);
    let wb = watched_bursts(&v, thorough, &mut rng);
    let sdc = sessions_during_create_db(&v, thorough);
    let (cl_runs, cl_inconclusive, cl_checks, cl_full_early) = cluster_part(&v, if thorough { 1000 } else { 100 }, seed());
    let (tr_sessions, tr_shapes) = transports(&v, if thorough { 6_000 } else { 300 }, &mut rng);
    // a TCP session whose client stops reading (it watches a key that is written a lot): however the node ends that
    // session, once it is gone the count is back
    let mut slow_sessions = 0u64;
    for (writes, len) in if thorough { vec![(2000usize, 4000usize), (6000, 900), (800, 20_000)] } else { vec![(2000, 4000)] } {
        let dir = fresh_dir("c17-slow");
        match crate::transports::slow_tcp_subscriber(&dir, writes, len) {
            Some(sl) => {
                slow_sessions += 1;
                if sl.count_with.parse::<i64>().ok() != sl.count_before.parse::<i64>().ok().map(|x| x + 1) {
                    v.report(json!({"check": "connections", "mode": "transport", "problem": "count-differs-while-connected", "transport": "tcp", "session": "subscriber-that-stops-reading"}), json!({"before": sl.count_before, "with_the_session": sl.count_with}));
                } else if sl.count_after != sl.count_before {
                    v.report(json!({"check": "connections", "mode": "transport", "problem": "count-not-back-after-session-gone", "transport": "tcp", "session": "subscriber-that-stops-reading"}),
                        json!({"before": sl.count_before, "with_the_session": sl.count_with, "five_seconds_after_it_was_gone": sl.count_after, "connection_ended_by_server": sl.ended_by_server, "notifications_it_received": sl.received.len(), "writes": sl.writes, "panics": sl.panics}));
                }
            }
            None => v.inconclusive("could not bind loopback ports"),
        }
    }
    ev.set("tcp_sessions_whose_client_stopped_reading", json!(slow_sessions));
    let s = st.into_inner().unwrap();
    ev.evaluations = s.sequences + il_runs + tr_sessions;
    ev.distinct_nontrivial = (s.shapes.len() + il_nontrivial.len() + tr_shapes.len()) as u64;
    ev.rule = format!("sequential: {} systematic + {} random sequences of connect / use-db (db token, wrong token, user token, unknown db; same db again, other db) / other commands / disconnect over 3 sessions x 2 databases, model checked after every event against Database.connections, the $connections key and a watcher's notifications; interleaved: {} token-passing schedules of two sessions (use-db, use-db, disconnect|stay) ; transports: {} sessions in bursts of 1-3 over real TCP (orderly close, and connection reset with replies left unread), WebSocket (close frame and abrupt close) and HTTP (end of request), counts checked while connected and after the burst; cluster: {} simulated 2-node runs in which sessions select a database on both nodes, the secondary leaves (kill / clean stop, disk kept / wiped) and re-joins through a synchronisation, counts judged per node ({} node counts); distinct_nontrivial = distinct event-shape sequences (sequential) + distinct schedules in which both sessions touch one database + distinct transport burst shapes", systematic, n_random, il_runs, tr_sessions, cl_runs, cl_checks);
    ev.samples = s.samples.clone();
    ev.set("bursts_watched_by_a_session_that_reads_later", json!({"bursts": wb.0, "changes_the_watchers_were_told_of": wb.1, "largest_backlog_lines": wb.2}));
    ev.set("sessions_leaving_while_databases_are_created", json!({"rounds": sdc.0, "sessions_that_came_and_went": sdc.1, "databases_created_meanwhile": sdc.2}));
    ev.set("sequential_events", json!(s.events));
    ev.set("sequential_shapes", json!(s.shapes.len()));
    ev.set("watcher_notifications_checked", json!(s.notifications_checked));
    ev.set("interleaved_distinct_schedules", json!(il_distinct.len()));
    ev.set("interleaved_schedules_sharing_a_database", json!(il_nontrivial.len()));
    ev.set("snapshot_with_open_sessions_then_restart_cases", json!(restart_cases));
    ev.set("cluster_rejoin_runs", json!(cl_runs));
    ev.set("cluster_rejoin_runs_inconclusive", json!(cl_inconclusive));
    ev.set("cluster_rejoin_node_counts_checked", json!(cl_checks));
    ev.set("cluster_rejoin_full_syncs_onto_a_node_with_sessions_already_on_the_database", json!(cl_full_early));
    ev.set("transport_sessions", json!(tr_sessions));
    ev.set("tcp_sessions_ended_by_a_connection_reset", json!(TCP_RESETS.load(std::sync::atomic::Ordering::SeqCst)));
    ev.set("http_requests_whose_own_reading_of_the_count_was_judged", json!(HTTP_INSIDE.load(std::sync::atomic::Ordering::SeqCst)));
    ev.set("transport_burst_shapes", json!(tr_shapes.len()));
    ev.set("known_findings_seen", json!(v.known_seen()));
    ev.violations = v.violation_count();
    ev.assumptions = vec![
        "a session counts for the database of its last successful use-db; failed use-db changes nothing".into(),
        "transport counts are read after polling for up to 10 s (disconnect handling is asynchronous); the verdict is on the settled value".into(),
    ];
    ev.write();
    cleanup_scratch();
    let code = v.finish(tier);
    if code == 0 && (s.shapes.len() < 200 || il_nontrivial.len() < 100 || tr_sessions < 100) {
        println!("INCONCLUSIVE property=C17 reason=coverage floor not met ({} shapes, {} interleavings, {} transport sessions)", s.shapes.len(), il_nontrivial.len(), tr_sessions);
        return 2;
    }
    println!("C17 {}: {} sequences ({} events, {} shapes), {} interleaved runs ({} distinct, {} sharing a db), {} transport sessions, {} cluster re-join runs, {} violations", tier, s.sequences, s.events, s.shapes.len(), il_runs, il_distinct.len(), il_nontrivial.len(), tr_sessions, cl_runs, v.violation_count());
    code
}
