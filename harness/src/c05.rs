//! C05 — a (re)joining node resynchronises to exactly the primary's data.
//! Engine N: primary history split into before-departure / while-away /
//! during-sync parts; the joiner comes back with an empty disk, an older
//! snapshot, a valid oplog (clean stop) or an invalid one (kill); at quiescence
//! its databases are compared with the primary's, and every catch-up line the
//! primary emitted is parsed with the receiver's parser and compared with what
//! the primary holds (round-trip monitor).
use crate::c04::form_cluster;
use crate::cluster::*;
use crate::common::evidence::Evidence;
use crate::common::kf::Verdicts;
use crate::common::rng::Rng;
use crate::common::*;
use nundb::bo::Request;
use serde_json::json;
use std::collections::{BTreeMap, BTreeSet};
use std::sync::Mutex;

const VALUES: [&str; 6] = ["one", "two words", "9 lives", "", "  padded", "ünï-value"];
const DBS: [(&str, &str); 3] = [("d1", "none"), ("d2", "newer"), ("d3", "arbiter")];

#[derive(Clone, Debug)]
pub enum Op {
    CreateDb(usize),
    Set(usize, String, usize),
    Remove(usize, String),
    Inc(usize, String),
    Snapshot(usize),
}

#[derive(Clone, Debug)]
pub struct Scenario {
    pub before: Vec<Op>,
    pub away: Vec<Op>,
    pub during: Vec<Op>,
    pub clean_stop: bool,
    pub wipe: bool,
    pub bystander: bool,
}

fn gen_ops(r: &mut Rng, n: usize, created: &mut BTreeSet<usize>) -> Vec<Op> {
    let mut ops = vec![];
    for _ in 0..n {
        let d = r.below(3);
        if !created.contains(&d) {
            created.insert(d);
            ops.push(Op::CreateDb(d));
            continue;
        }
        let k = format!("k{}", r.below(3));
        ops.push(match r.below(10) {
            0..=5 => Op::Set(d, k, r.below(VALUES.len())),
            6..=7 => Op::Remove(d, k),
            8 => Op::Inc(d, "n".into()),
            _ => Op::Snapshot(d),
        });
    }
    ops
}

pub fn gen_scenario(r: &mut Rng) -> Scenario {
    let total = r.range(1, 10);
    let cut1 = r.below(total + 1);
    let cut2 = cut1 + r.below(total - cut1 + 1);
    let mut created = BTreeSet::new();
    let mut before = gen_ops(r, cut1, &mut created);
    if r.chance(1, 2) {
        // everything the joiner knows is persisted before it leaves (so that a clean stop keeps a usable oplog)
        let ds: Vec<usize> = created.iter().cloned().collect();
        for d in ds {
            before.push(Op::Snapshot(d));
        }
    }
    let away = gen_ops(r, cut2 - cut1, &mut created);
    let during = gen_ops(r, total - cut2, &mut created);
    Scenario { before, away, during, clean_stop: r.chance(1, 2), wipe: r.chance(1, 4), bystander: r.chance(1, 3) }
}

fn render(op: &Op) -> (usize, String) {
    match op {
        Op::CreateDb(d) => (*d, format!("create-db {} tok-{} {}", DBS[*d].0, DBS[*d].0, DBS[*d].1)),
        Op::Set(d, k, v) => (*d, format!("set {} {}", k, VALUES[*v])),
        Op::Remove(d, k) => (*d, format!("remove {}", k)),
        Op::Inc(d, k) => (*d, format!("increment {} 2", k)),
        Op::Snapshot(d) => (*d, format!("snapshot false {}", DBS[*d].0)),
    }
}

/// Issues operations through the admin session on the primary (selecting the database first).
fn issue(c: &mut Cluster, ops: &[Op], wait: bool, nodes: usize) {
    for op in ops {
        let (d, line) = render(op);
        if !matches!(op, Op::CreateDb(_) | Op::Snapshot(_)) {
            c.send("p", &format!("use-db {} tok-{}", DBS[d].0, DBS[d].0));
        }
        c.send("p", &line);
        if wait {
            let _ = c.run_until_quiet();
            if let Op::Snapshot(_) = op {
                for i in 0..nodes {
                    if c.alive(i) {
                        c.declutter(i);
                    }
                }
            }
        }
    }
}

type Db = (String, String, BTreeMap<String, (String, i32)>); // token, strategy, keys

fn snapshot_of(c: &Cluster, i: usize) -> BTreeMap<String, Db> {
    let dbs = c.dbs(i);
    let map = dbs.map.read().unwrap();
    let mut out = BTreeMap::new();
    for (n, db) in map.iter() {
        if n == "$admin" {
            continue;
        }
        let m = db.map.read().unwrap();
        let token = m.get("$$token").map(|v| v.value.clone()).unwrap_or_default();
        let keys = m.iter().filter(|(k, v)| v.state != nundb::bo::ValueStatus::Deleted && k.as_str() != "$connections" && k.as_str() != "$$token").map(|(k, v)| (k.clone(), (v.value.clone(), v.version))).collect();
        out.insert(n.clone(), (token, db.metadata.consensus_strategy.to_string(), keys));
    }
    out
}

pub struct Stats {
    pub runs: u64,
    pub shapes: BTreeSet<String>,
    pub sync_lines: u64,
    pub keys_compared: u64,
    pub full_syncs: u64,
    pub incremental_syncs: u64,
    pub inconclusive: u64,
    pub samples: Vec<serde_json::Value>,
}

pub fn run_scenario(sc: &Scenario, seed0: u64, v: &Verdicts, st: &Mutex<Stats>) {
    let n = if sc.bystander { 3 } else { 2 };
    let Some(mut c) = form_cluster(n, seed0, "c05") else {
        st.lock().unwrap().inconclusive += 1;
        v.inconclusive("cluster formation failed");
        return;
    };
    c.open_session("p", 0);
    c.call("p", "auth admin pwd");
    issue(&mut c, &sc.before, true, n);
    let _ = c.run_until_quiet();
    // departure of n1
    if sc.clean_stop {
        c.clean_stop_node(1);
    } else {
        c.kill_node(1);
    }
    if sc.wipe {
        c.wipe_disk(1);
    }
    let q = c.run_until_quiet();
    issue(&mut c, &sc.away, true, n);
    let q2 = c.run_until_quiet();
    if !matches!(q, Outcome::Quiet(_)) || !matches!(q2, Outcome::Quiet(_)) {
        st.lock().unwrap().inconclusive += 1;
        v.inconclusive(&format!("no quiescence while the joiner is away: {:?} {:?}", q, q2));
        c.shutdown();
        return;
    }
    // rejoin, with the during-sync operations queued at the same time
    let before_links = c.link_log().len();
    let all: Vec<usize> = (0..n).collect();
    c.start_node(1, 10_000, &all);
    issue(&mut c, &sc.during, false, n);
    let q3 = c.run_until_quiet();
    for i in 0..n {
        c.declutter(i);
    }
    let q4 = c.run_until_quiet();
    // in which part of the history was a (database, key) last written?
    let mut last_phase: BTreeMap<(String, String), &'static str> = BTreeMap::new();
    for (phase, ops) in [("before-departure", &sc.before), ("while-away", &sc.away), ("during-sync", &sc.during)] {
        for op in ops.iter() {
            match op {
                Op::Set(d, k, _) | Op::Remove(d, k) | Op::Inc(d, k) => {
                    last_phase.insert((DBS[*d].0.to_string(), k.clone()), phase);
                }
                _ => {}
            }
        }
    }
    let mut problems: Vec<(String, String)> = vec![];
    match (&q3, &q4) {
        (Outcome::Quiet(_), Outcome::Quiet(_)) => {}
        (Outcome::Stuck(w), _) | (_, Outcome::Stuck(w)) => {
            st.lock().unwrap().inconclusive += 1;
            v.inconclusive(&format!("scheduler watchdog: {}", w));
            c.shutdown();
            return;
        }
        _ => problems.push(("no-quiescence-after-rejoin".into(), String::new())),
    }
    if !c.panics().is_empty() {
        problems.push(("service-thread-panicked".into(), c.panics().join(" | ")));
    }
    let roles = c.roles();
    if roles[0].as_deref() != Some("Primary") || roles[1].as_deref() != Some("Secoundary") {
        problems.push(("roles-after-rejoin".into(), format!("{:?}", roles)));
    }
    // which kind of sync did the joiner ask for?
    let links = c.link_log();
    let since: Option<u64> = links[before_links..].iter().find(|l| l.1 == 1 && l.2 == 0 && l.3.starts_with("replicate-since ")).and_then(|l| l.3.rsplit(' ').next().and_then(|x| x.parse().ok()));
    let sync_kind = match since {
        Some(0) => "full",
        Some(_) => "incremental",
        None => "none-requested",
    };
    let prim = snapshot_of(&c, 0);
    let join = snapshot_of(&c, 1);
    // ---- round-trip monitor: raw catch-up lines (not rp-wrapped) from the primary to the joiner
    let mut sync_lines = 0u64;
    for l in links[before_links..].iter().filter(|l| l.1 == 0 && l.2 == 1) {
        if !l.3.starts_with("replicate ") {
            continue;
        }
        sync_lines += 1;
        if let Ok(Request::ReplicateSet { db, key, value, version: _ }) = Request::parse(&l.3) {
            if let Some((_, _, keys)) = prim.get(&db) {
                // the value the primary held when it produced the line is the rest of the line after "replicate <db> <key> "
                let sent = l.3.splitn(4, ' ').nth(3).unwrap_or("").to_string();
                let holds_now = keys.get(&key).map(|x| x.0.clone());
                if value != sent && (holds_now.as_deref() == Some(sent.as_str()) || holds_now.is_none()) {
                    let class = if value.is_empty() && !sent.contains(' ') { "one-word-value-parsed-as-empty" } else if sent.starts_with(|ch: char| ch.is_ascii_digit()) { "leading-number-taken-as-version" } else if sent.contains(' ') { "first-word-of-value-lost" } else { "value-changed-in-transit" };
                    problems.push((format!("catch-up-line-does-not-round-trip:{}", class), format!("line '{}' parses to key {} value {:?}", l.3, key, value)));
                }
            }
        }
    }
    // ---- dataset comparison
    let mut keys_compared = 0u64;
    for (db, (ptok, pstrat, pkeys)) in &prim {
        let Some((jtok, jstrat, jkeys)) = join.get(db) else {
            let created = [("before-departure", &sc.before), ("while-away", &sc.away), ("during-sync", &sc.during)].iter().find(|(_, ops)| ops.iter().any(|o| matches!(o, Op::CreateDb(d) if DBS[*d].0 == db.as_str()))).map(|x| x.0).unwrap_or("?");
            problems.push((format!("database-missing-on-joiner/created:{}", created), db.clone()));
            continue;
        };
        if jtok != ptok {
            problems.push(("database-token-differs".into(), format!("{}: {:?} vs {:?}", db, ptok, jtok)));
        }
        if jstrat != pstrat {
            problems.push(("conflict-strategy-differs".into(), format!("{}: {} vs {}", db, pstrat, jstrat)));
        }
        let all: BTreeSet<&String> = pkeys.keys().chain(jkeys.keys()).collect();
        for k in all {
            keys_compared += 1;
            let (pv, jv) = (pkeys.get(k), jkeys.get(k));
            if pv == jv {
                continue;
            }
            let class = match (pv, jv) {
                (Some(_), None) => "key-missing-on-joiner".to_string(),
                (None, Some(j)) => if j.0 == "<Empty>" { "removed-key-live-as-<Empty>-on-joiner".to_string() } else { "removed-key-still-live-on-joiner".to_string() },
                (Some(p), Some(j)) if p.0 != j.0 => {
                    if j.0.is_empty() { "value-arrived-empty".to_string() } else if p.0.ends_with(&j.0) && p.0.contains(' ') { "value-lost-its-first-word".to_string() } else { "value-differs".to_string() }
                }
                _ => "version-differs".to_string(),
            };
            let phase = last_phase.get(&(db.clone(), k.to_string())).cloned().unwrap_or("never-written-by-a-client");
            problems.push((format!("{}/last-written:{}", class, phase), format!("{} key {}: primary {:?} joiner {:?}", db, k, pv, jv)));
        }
    }
    for db in join.keys() {
        if !prim.contains_key(db) {
            problems.push(("joiner-has-a-database-the-primary-does-not".into(), db.clone()));
        }
    }
    let shape = format!("{}|{}|{}|b{}a{}d{}|{}", sync_kind, if sc.clean_stop { "clean" } else { "kill" }, if sc.wipe { "wiped" } else { "disk" }, sc.before.len(), sc.away.len(), sc.during.len(), n);
    {
        let mut s = st.lock().unwrap();
        s.runs += 1;
        s.shapes.insert(shape);
        s.sync_lines += sync_lines;
        s.keys_compared += keys_compared;
        match sync_kind {
            "full" => s.full_syncs += 1,
            "incremental" => s.incremental_syncs += 1,
            _ => {}
        }
        if s.samples.len() < 3 && sync_lines > 1 {
            s.samples.push(json!({"scenario": format!("{:?}", sc), "sync": sync_kind, "lines_primary_to_joiner": links[before_links..].iter().filter(|l| l.1 == 0 && l.2 == 1).map(|l| l.3.clone()).collect::<Vec<_>>()}));
        }
    }
    let mut seen = BTreeSet::new();
    let concurrent = !sc.during.is_empty();
    for (problem, detail) in problems {
        // value / version differences are one family (the catch-up line format loses the value's first word or the whole value);
        // with client operations racing the synchronisation the phase detail is dropped as well
        let mut family = problem.clone();
        for f in ["value-arrived-empty", "value-lost-its-first-word", "value-differs", "version-differs"] {
            if problem.starts_with(f) {
                family = format!("value-or-version-differs{}", if concurrent { String::new() } else { problem[f.len()..].to_string() });
            }
        }
        if concurrent {
            if let Some(p) = family.find('/') {
                family.truncate(p);
            }
        }
        let sig = json!({"check": "resync", "sync": sync_kind, "operations_during_sync": concurrent, "problem": family});
        if !seen.insert(sig.to_string()) {
            continue;
        }
        v.report(sig, json!({"scenario": format!("{:?}", sc), "seed": seed0, "detail": detail, "primary": prim, "joiner": join,
            "lines_since_rejoin": links[before_links..].iter().map(|l| format!("[{}] n{}->n{} {}", l.0, l.1, l.2, l.3)).collect::<Vec<_>>(), "trace_tail": c.trace().iter().rev().take(25).rev().cloned().collect::<Vec<_>>()}));
    }
    c.shutdown();
}

pub fn run(tier: &str) -> i32 {
    std::env::set_var("NUN_ELECTION_TIMEOUT", "30");
    quiet_panics();
    let thorough = tier == "thorough";
    let v = Verdicts::load("C05");
    let mut ev = Evidence::new("C05", tier, "exploration");
    let st = Mutex::new(Stats { runs: 0, shapes: BTreeSet::new(), sync_lines: 0, keys_compared: 0, full_syncs: 0, incremental_syncs: 0, inconclusive: 0, samples: vec![] });
    let n_runs = if thorough { 5000 } else { 320 };
    let next = std::sync::atomic::AtomicUsize::new(0);
    std::thread::scope(|sc| {
        for _ in 0..workers() {
            let (next, v, st) = (&next, &v, &st);
            sc.spawn(move || loop {
                let i = next.fetch_add(1, std::sync::atomic::Ordering::SeqCst);
                if i >= n_runs {
                    break;
                }
                let mut r = Rng::new(seed().wrapping_mul(3_000_017).wrapping_add(i as u64));
                let scn = gen_scenario(&mut r);
                run_scenario(&scn, r.next(), v, st);
            });
        }
    });
    let s = st.into_inner().unwrap();
    ev.evaluations = s.runs;
    ev.distinct_nontrivial = s.shapes.len() as u64;
    ev.rule = format!("{} simulated-cluster runs: primary history of 1-10 operations (create-db with none/newer/arbiter strategy, set with values from {{one, 'two words', '9 lives', '', '  padded', non-ASCII}}, remove, increment, snapshot) over up to 3 databases, split at two seeded points into before-departure / while-away / during-sync; the joiner leaves by clean stop (valid oplog) or kill, optionally with its disk wiped, optionally with a third node watching; distinct_nontrivial = distinct (sync kind the joiner requested, departure, disk, split sizes, cluster size)", n_runs);
    ev.samples = s.samples.clone();
    ev.set("full_syncs", json!(s.full_syncs));
    ev.set("incremental_syncs", json!(s.incremental_syncs));
    ev.set("catch_up_lines_round_tripped", json!(s.sync_lines));
    ev.set("keys_compared_joiner_vs_primary", json!(s.keys_compared));
    ev.set("inconclusive_runs", json!(s.inconclusive));
    ev.set("known_findings_seen", json!(v.known_seen()));
    ev.violations = v.violation_count();
    ev.assumptions = vec![
        "Engine N transport emulation; the joiner restarts with a larger process id (youngest) and joins a quiet cluster".into(),
        "round-trip monitor: the text after 'replicate <db> <key> ' in a catch-up line is what the primary meant to send".into(),
    ];
    ev.write();
    cleanup_scratch();
    let code = v.finish(tier);
    if code == 0 && (s.shapes.len() < 80 || s.full_syncs < 20 || s.incremental_syncs < 20 || s.inconclusive > s.runs / 10 + 3) {
        println!("INCONCLUSIVE property=C05 reason=coverage floor not met ({} shapes, {} full, {} incremental, {} inconclusive)", s.shapes.len(), s.full_syncs, s.incremental_syncs, s.inconclusive);
        return 2;
    }
    println!("C05 {}: {} runs ({} full, {} incremental syncs), {} shapes, {} catch-up lines, {} keys compared, {} violations", tier, s.runs, s.full_syncs, s.incremental_syncs, s.shapes.len(), s.sync_lines, s.keys_compared, v.violation_count());
    code
}
