//! C05 — a (re)joining node resynchronises to exactly the primary's data.
//! Engine N: primary history split into before-departure / while-away /
//! during-sync parts; the joiner comes back with an empty disk, an older
//! snapshot, a valid oplog (clean stop) or an invalid one (kill); at quiescence
//! its databases are compared with the primary's, and every catch-up line the
//! primary emitted is parsed with the receiver's parser and compared with what
//! the primary holds (round-trip monitor).
use crate::c04::form_cluster;
use crate::cluster::*;
use crate::common::evidence::Evidence;
use crate::common::kf::Verdicts;
use crate::common::rng::Rng;
use crate::common::*;
use nundb::bo::Request;
use serde_json::json;
use std::collections::{BTreeMap, BTreeSet};
use std::sync::Mutex;

pub const VALUES: [&str; 6] = ["one", "two words", "9 lives", "", "  padded", "ünï-value"];
pub const DBS: [(&str, &str); 3] = [("d1", "none"), ("d2", "newer"), ("d3", "arbiter")];

#[derive(Clone, Debug)]
pub enum Op {
    CreateDb(usize),
    Set(usize, String, usize),
    Remove(usize, String),
    Inc(usize, String),
    Snapshot(usize),
    /// create-user in database d (stores the key $$user_u<d>)
    CreateUser(usize),
    /// set-permissions for that user (stores $$permission_$u<d>)
    SetPerm(usize),
}

#[derive(Clone, Debug)]
pub struct Scenario {
    pub before: Vec<Op>,
    pub away: Vec<Op>,
    pub during: Vec<Op>,
    pub clean_stop: bool,
    pub wipe: bool,
    pub bystander: bool,
    /// (needs the bystander) the primary dies while the joiner is away and the bystander takes over; the joiner comes back
    /// to a primary that was a secondary when the operations it missed were made
    pub primary_changes_while_away: bool,
    /// everything the joiner knows was snapshotted before it stopped cleanly with its disk kept: its operation log is
    /// valid at the restart, so it can (and on the unchanged tree does) ask for a since-a-time catch-up
    pub leaves_with_valid_oplog: bool,
}

fn gen_ops(r: &mut Rng, n: usize, created: &mut BTreeSet<usize>) -> Vec<Op> {
    let mut ops = vec![];
    for _ in 0..n {
        let d = r.below(3);
        if !created.contains(&d) {
            created.insert(d);
            ops.push(Op::CreateDb(d));
            continue;
        }
        let k = format!("k{}", r.below(3));
        ops.push(match r.below(12) {
            0..=5 => Op::Set(d, k, r.below(VALUES.len())),
            6..=7 => Op::Remove(d, k),
            8 => Op::Inc(d, "n".into()),
            9 => Op::Snapshot(d),
            10 => Op::CreateUser(d),
            _ => Op::SetPerm(d),
        });
    }
    ops
}

pub fn gen_scenario(r: &mut Rng) -> Scenario {
    let total = r.range(1, 10);
    let cut1 = r.below(total + 1);
    let cut2 = cut1 + r.below(total - cut1 + 1);
    let mut created = BTreeSet::new();
    let mut before = gen_ops(r, cut1, &mut created);
    let persisted = r.chance(1, 2) && !before.is_empty();
    if persisted {
        // everything the joiner knows is persisted before it leaves (so that a clean stop keeps a usable oplog)
        let ds: Vec<usize> = created.iter().cloned().collect();
        for d in ds {
            before.push(Op::Snapshot(d));
        }
    }
    let away = gen_ops(r, cut2 - cut1, &mut created);
    let during = gen_ops(r, total - cut2, &mut created);
    let bystander = r.chance(1, 3);
    let (clean_stop, wipe) = (r.chance(1, 2), r.chance(1, 4));
    Scenario { before, away, during, clean_stop, wipe, bystander, primary_changes_while_away: bystander && r.chance(1, 2), leaves_with_valid_oplog: persisted && clean_stop && !wipe }
}

/// Directed scenarios: the joiner stops cleanly with everything persisted (valid oplog, so it asks for a since-a-time
/// catch-up) and the operations it misses are every order of {update in an old database, creation of a new database,
/// update of another key in the old database, update in the new database, remove in the old database}, alone or with
/// one more write racing the synchronisation.
pub fn directed_scenarios() -> Vec<Scenario> {
    let pool: Vec<Op> = vec![Op::Set(0, "k1".into(), 0), Op::CreateDb(1), Op::Set(0, "k2".into(), 1), Op::Set(1, "k0".into(), 2), Op::Remove(0, "k0".into())];
    let mut out = vec![];
    // all ordered selections of 3 and 4 operations in which a database is created before it is written
    fn rec(pool: &[Op], cur: &mut Vec<usize>, want: usize, out: &mut Vec<Vec<usize>>) {
        if cur.len() == want {
            out.push(cur.clone());
            return;
        }
        for i in 0..pool.len() {
            if !cur.contains(&i) {
                cur.push(i);
                rec(pool, cur, want, out);
                cur.pop();
            }
        }
    }
    let mut orders = vec![];
    rec(&pool, &mut vec![], 3, &mut orders);
    rec(&pool, &mut vec![], 4, &mut orders);
    for o in orders {
        let created_pos = o.iter().position(|i| *i == 1);
        let used_pos = o.iter().position(|i| *i == 3);
        if let Some(u) = used_pos {
            if created_pos.map(|c| c > u).unwrap_or(true) {
                continue;
            }
        }
        let away: Vec<Op> = o.iter().map(|i| pool[*i].clone()).collect();
        let before = vec![Op::CreateDb(0), Op::Set(0, "k0".into(), 3), Op::Set(0, "k1".into(), 4), Op::Snapshot(0)];
        for during in [vec![], vec![Op::Set(0, "k1".into(), 5)]] {
            out.push(Scenario { before: before.clone(), away: away.clone(), during: during.clone(), clean_stop: true, wipe: false, bystander: false, primary_changes_while_away: false, leaves_with_valid_oplog: true });
            if out.len() % 3 == 0 {
                out.push(Scenario { before: before.clone(), away: away.clone(), during, clean_stop: true, wipe: false, bystander: true, primary_changes_while_away: true, leaves_with_valid_oplog: true });
            }
        }
    }
    out
}

pub fn render(op: &Op) -> (usize, String) {
    match op {
        Op::CreateDb(d) => (*d, format!("create-db {} tok-{} {}", DBS[*d].0, DBS[*d].0, DBS[*d].1)),
        Op::Set(d, k, v) => (*d, format!("set {} {}", k, VALUES[*v])),
        Op::Remove(d, k) => (*d, format!("remove {}", k)),
        Op::Inc(d, k) => (*d, format!("increment {} {}", k, if *d == 2 { 0 } else { 2 })),
        Op::Snapshot(d) => (*d, format!("snapshot false {}", DBS[*d].0)),
        Op::CreateUser(d) => (*d, format!("create-user u{} pw{}", d, d)),
        Op::SetPerm(d) => (*d, format!("set-permissions u{} rw k*|r n", d)),
    }
}

/// Issues operations through the admin session on the primary (selecting the database first).
fn issue(c: &mut Cluster, ops: &[Op], wait: bool, nodes: usize) {
    issue_as(c, "p", ops, wait, nodes)
}

fn issue_as(c: &mut Cluster, session: &str, ops: &[Op], wait: bool, nodes: usize) {
    for op in ops {
        let (d, line) = render(op);
        if !matches!(op, Op::CreateDb(_) | Op::Snapshot(_)) {
            c.send(session, &format!("use-db {} tok-{}", DBS[d].0, DBS[d].0));
        }
        c.send(session, &line);
        if wait {
            let _ = c.run_until_quiet();
            if let Op::Snapshot(_) = op {
                for i in 0..nodes {
                    if c.alive(i) {
                        c.declutter(i);
                    }
                }
            }
        }
    }
}

pub type Db = (String, String, BTreeMap<String, (String, i32)>); // token, strategy, keys

fn snapshot_of(c: &Cluster, i: usize) -> BTreeMap<String, Db> {
    let dbs = c.dbs(i);
    let map = dbs.map.read().unwrap();
    let mut out = BTreeMap::new();
    for (n, db) in map.iter() {
        if n == "$admin" {
            continue;
        }
        let m = db.map.read().unwrap();
        let token = m.get("$$token").map(|v| v.value.clone()).unwrap_or_default();
        let keys = m.iter().filter(|(k, v)| v.state != nundb::bo::ValueStatus::Deleted && k.as_str() != "$connections" && k.as_str() != "$$token").map(|(k, v)| (k.clone(), (v.value.clone(), v.version))).collect();
        out.insert(n.clone(), (token, db.metadata.consensus_strategy.to_string(), keys));
    }
    out
}


/// In which part of the history was a (database, key) last written?
pub fn last_phase_of(sc: &Scenario) -> BTreeMap<(String, String), &'static str> {
    let mut last_phase: BTreeMap<(String, String), &'static str> = BTreeMap::new();
    for (phase, ops) in [("before-departure", &sc.before), ("while-away", &sc.away), ("during-sync", &sc.during)] {
        for op in ops.iter() {
            match op {
                Op::Set(d, k, _) | Op::Remove(d, k) | Op::Inc(d, k) => {
                    last_phase.insert((DBS[*d].0.to_string(), k.clone()), phase);
                }
                Op::CreateUser(d) => {
                    last_phase.insert((DBS[*d].0.to_string(), format!("$$user_u{}", d)), phase);
                }
                Op::SetPerm(d) => {
                    last_phase.insert((DBS[*d].0.to_string(), format!("$$permission_$u{}", d)), phase);
                }
                _ => {}
            }
        }
    }
    last_phase
}

/// Compares the joiner's databases with the primary's; appends (problem, detail); returns the number of keys compared.
/// Used by the simulated cluster (Engine N) and by the real-process cross-check (Engine R).
pub fn compare_resync(sc: &Scenario, prim: &BTreeMap<String, Db>, join: &BTreeMap<String, Db>, last_phase: &BTreeMap<(String, String), &'static str>, problems: &mut Vec<(String, String)>) -> u64 {
    let mut keys_compared = 0u64;
    for (db, (ptok, pstrat, pkeys)) in prim {
        let Some((jtok, jstrat, jkeys)) = join.get(db) else {
            let created = [("before-departure", &sc.before), ("while-away", &sc.away), ("during-sync", &sc.during)].iter().find(|(_, ops)| ops.iter().any(|o| matches!(o, Op::CreateDb(d) if DBS[*d].0 == db.as_str()))).map(|x| x.0).unwrap_or("?");
            problems.push((format!("database-missing-on-joiner/created:{}", created), db.clone()));
            continue;
        };
        if jtok != ptok {
            problems.push(("database-token-differs".into(), format!("{}: {:?} vs {:?}", db, ptok, jtok)));
        }
        if jstrat != pstrat {
            problems.push(("conflict-strategy-differs".into(), format!("{}: {} vs {}", db, pstrat, jstrat)));
        }
        let all: BTreeSet<&String> = pkeys.keys().chain(jkeys.keys()).collect();
        for k in all {
            keys_compared += 1;
            let (pv, jv) = (pkeys.get(k), jkeys.get(k));
            if pv == jv {
                continue;
            }
            let class = match (pv, jv) {
                (Some(_), None) => "key-missing-on-joiner".to_string(),
                (None, Some(j)) => if j.0 == "<Empty>" { "removed-key-live-as-<Empty>-on-joiner".to_string() } else { "removed-key-still-live-on-joiner".to_string() },
                (Some(p), Some(j)) if p.0 != j.0 => {
                    if j.0.is_empty() { "value-arrived-empty".to_string() } else if p.0.ends_with(&j.0) && p.0.contains(' ') { "value-lost-its-first-word".to_string() } else { "value-differs".to_string() }
                }
                _ => "version-differs".to_string(),
            };
            let phase = last_phase.get(&(db.clone(), k.to_string())).cloned().unwrap_or("never-written-by-a-client");
            problems.push((format!("{}/last-written:{}", class, phase), format!("{} key {}: primary {:?} joiner {:?}", db, k, pv, jv)));
        }
    }
    for db in join.keys() {
        if !prim.contains_key(db) {
            problems.push(("joiner-has-a-database-the-primary-does-not".into(), db.clone()));
        }
    }
    keys_compared
}

/// The signature under which a resynchronisation problem is reported (and matched against the known findings).
pub fn resync_signature(sc: &Scenario, sync_kind: &str, problem: &str) -> serde_json::Value {
    let concurrent = !sc.during.is_empty();
    // value / version differences are one family (the catch-up line format loses the value's first word or the whole value);
    // with client operations racing the synchronisation the phase detail is dropped as well
    let mut family = problem.to_string();
    for f in ["value-arrived-empty", "value-lost-its-first-word", "value-differs", "version-differs"] {
        if problem.starts_with(f) {
            family = format!("value-or-version-differs{}", if concurrent { String::new() } else { problem[f.len()..].to_string() });
        }
    }
    if concurrent {
        if let Some(p) = family.find('/') {
            family.truncate(p);
        }
    }
    // whether the primary changed while the joiner was away is part of the replay, not of the signature: the known
    // catch-up format defects are the same code on any primary
    // a joiner that left with a valid operation log and still went through a full sync is its own situation: the known
    // weaknesses of the full sync (it never removes, ...) are not excused there
    if sc.leaves_with_valid_oplog && sync_kind == "full" {
        json!({"check": "resync", "sync": sync_kind, "operations_during_sync": concurrent, "problem": family, "joiner_left_with_a_valid_operation_log": true})
    } else {
        json!({"check": "resync", "sync": sync_kind, "operations_during_sync": concurrent, "problem": family})
    }
}

pub struct Stats {
    pub runs: u64,
    pub shapes: BTreeSet<String>,
    pub sync_lines: u64,
    pub keys_compared: u64,
    pub full_syncs: u64,
    pub incremental_syncs: u64,
    pub inconclusive: u64,
    pub primary_changes: u64,
    pub failovers_not_clean: u64,
    pub samples: Vec<serde_json::Value>,
}

pub fn run_scenario(sc: &Scenario, seed0: u64, v: &Verdicts, st: &Mutex<Stats>) {
    let n = if sc.bystander { 3 } else { 2 };
    let Some(mut c) = form_cluster(n, seed0, "c05") else {
        st.lock().unwrap().inconclusive += 1;
        v.inconclusive("cluster formation failed");
        return;
    };
    c.open_session("p", 0);
    c.call("p", "auth admin pwd");
    issue(&mut c, &sc.before, true, n);
    let _ = c.run_until_quiet();
    // departure of n1
    if sc.clean_stop {
        c.clean_stop_node(1);
    } else {
        c.kill_node(1);
    }
    if sc.wipe {
        c.wipe_disk(1);
    }
    let q = c.run_until_quiet();
    issue(&mut c, &sc.away, true, n);
    let q2 = c.run_until_quiet();
    if !matches!(q, Outcome::Quiet(_)) || !matches!(q2, Outcome::Quiet(_)) {
        st.lock().unwrap().inconclusive += 1;
        v.inconclusive(&format!("no quiescence while the joiner is away: {:?} {:?}", q, q2));
        c.shutdown();
        return;
    }
    // optionally the primary is replaced while the joiner is away
    let mut prim_idx = 0usize;
    let mut prim_session = "p";
    if sc.primary_changes_while_away && n == 3 {
        c.kill_node(0);
        let q = c.run_until_quiet();
        let roles = c.roles();
        if !matches!(q, Outcome::Quiet(_)) || roles[2].as_deref() != Some("Primary") || !c.panics().is_empty() {
            // the fail-over itself is C07's subject
            st.lock().unwrap().failovers_not_clean += 1;
            c.shutdown();
            return;
        }
        prim_idx = 2;
        prim_session = "p2";
        c.open_session("p2", 2);
        c.call("p2", "auth admin pwd");
        st.lock().unwrap().primary_changes += 1;
    }
    // rejoin, with the during-sync operations queued at the same time
    let before_links = c.link_log().len();
    let all: Vec<usize> = (0..n).collect();
    c.start_node(1, 10_000, &all);
    issue_as(&mut c, prim_session, &sc.during, false, n);
    let q3 = c.run_until_quiet();
    for i in 0..n {
        if c.alive(i) {
            c.declutter(i);
        }
    }
    let q4 = c.run_until_quiet();
    let last_phase = last_phase_of(sc);
    let mut problems: Vec<(String, String)> = vec![];
    match (&q3, &q4) {
        (Outcome::Quiet(_), Outcome::Quiet(_)) => {}
        (Outcome::Stuck(w), _) | (_, Outcome::Stuck(w)) => {
            st.lock().unwrap().inconclusive += 1;
            v.inconclusive(&format!("scheduler watchdog: {}", w));
            c.shutdown();
            return;
        }
        _ => problems.push(("no-quiescence-after-rejoin".into(), String::new())),
    }
    if !c.panics().is_empty() {
        problems.push(("service-thread-panicked".into(), c.panics().join(" | ")));
    }
    let roles = c.roles();
    if roles[prim_idx].as_deref() != Some("Primary") || roles[1].as_deref() != Some("Secoundary") {
        problems.push(("roles-after-rejoin".into(), format!("{:?}", roles)));
    }
    // which kind of sync did the joiner ask for?
    let links = c.link_log();
    let since: Option<u64> = links[before_links..].iter().find(|l| l.1 == 1 && l.2 == prim_idx && l.3.starts_with("replicate-since ")).and_then(|l| l.3.rsplit(' ').next().and_then(|x| x.parse().ok()));
    let sync_kind = match since {
        Some(0) => "full",
        Some(_) => "incremental",
        None => "none-requested",
    };
    let prim = snapshot_of(&c, prim_idx);
    let join = snapshot_of(&c, 1);
    // ---- round-trip monitor: raw catch-up lines (not rp-wrapped) from the primary to the joiner
    let mut sync_lines = 0u64;
    for l in links[before_links..].iter().filter(|l| l.1 == prim_idx && l.2 == 1) {
        if !l.3.starts_with("replicate ") {
            continue;
        }
        sync_lines += 1;
        if let Ok(Request::ReplicateSet { db, key, value, version: _ }) = Request::parse(&l.3) {
            if let Some((_, _, keys)) = prim.get(&db) {
                // the value the primary held when it produced the line is the rest of the line after "replicate <db> <key> "
                let sent = l.3.splitn(4, ' ').nth(3).unwrap_or("").to_string();
                let holds_now = keys.get(&key).map(|x| x.0.clone());
                // independent of how the line parses: with no client operation racing the synchronisation the primary still holds
                // what it held when it wrote the line, so the line must carry exactly that
                if sc.during.is_empty() && holds_now.is_some() && holds_now.as_deref() != Some(sent.as_str()) {
                    problems.push(("catch-up-line-carries-a-value-the-primary-does-not-hold".to_string(), format!("line '{}' but the primary holds {:?} for {} {}", l.3, holds_now, db, key)));
                }
                if value != sent && (holds_now.as_deref() == Some(sent.as_str()) || holds_now.is_none()) {
                    let class = if value.is_empty() && !sent.contains(' ') { "one-word-value-parsed-as-empty" } else if sent.starts_with(|ch: char| ch.is_ascii_digit()) { "leading-number-taken-as-version" } else if sent.contains(' ') { "first-word-of-value-lost" } else { "value-changed-in-transit" };
                    problems.push((format!("catch-up-line-does-not-round-trip:{}", class), format!("line '{}' parses to key {} value {:?}", l.3, key, value)));
                }
            }
        }
    }
    // ---- dataset comparison
    let keys_compared = compare_resync(sc, &prim, &join, &last_phase, &mut problems);
    let shape = format!("{}{}|{}|{}|b{}a{}d{}|{}", sync_kind, if prim_idx != 0 { "/new-primary" } else { "" }, if sc.clean_stop { "clean" } else { "kill" }, if sc.wipe { "wiped" } else { "disk" }, sc.before.len(), sc.away.len(), sc.during.len(), n);
    {
        let mut s = st.lock().unwrap();
        s.runs += 1;
        s.shapes.insert(shape);
        s.sync_lines += sync_lines;
        s.keys_compared += keys_compared;
        match sync_kind {
            "full" => s.full_syncs += 1,
            "incremental" => s.incremental_syncs += 1,
            _ => {}
        }
        if s.samples.len() < 3 && sync_lines > 1 {
            s.samples.push(json!({"scenario": format!("{:?}", sc), "sync": sync_kind, "lines_primary_to_joiner": links[before_links..].iter().filter(|l| l.1 == prim_idx && l.2 == 1).map(|l| l.3.clone()).collect::<Vec<_>>()}));
        }
    }
    let mut seen = BTreeSet::new();
    let concurrent = !sc.during.is_empty();
    for (problem, detail) in problems {
        let sig = resync_signature(sc, sync_kind, &problem);
        if !seen.insert(sig.to_string()) {
            continue;
        }
        v.report(sig, json!({"scenario": format!("{:?}", sc), "seed": seed0, "primary_changed_while_away": prim_idx != 0, "detail": detail, "primary": prim, "joiner": join,
            "lines_since_rejoin": links[before_links..].iter().map(|l| format!("[{}] n{}->n{} {}", l.0, l.1, l.2, l.3)).collect::<Vec<_>>(), "trace_tail": c.trace().iter().rev().take(25).rev().cloned().collect::<Vec<_>>()}));
    }
    c.shutdown();
}

/// Catch-ups that are longer than anything a queue between the supervisor and the link holds at once: the primary holds
/// 90-600 keys (or 90-600 keys changed while the joiner was away) when the node (re)joins. Every key that is live on the
/// primary must be there on the joiner afterwards, every line of the catch-up the primary produced must have crossed the
/// link. (Values are not compared here: the line format of the catch-up garbles them, which is a listed finding.)
fn large_catch_ups(v: &Verdicts, runs: usize, seed0: u64) -> serde_json::Value {
    let totals = Mutex::new((0u64, 0u64, 0u64, 0u64));
    let next = std::sync::atomic::AtomicUsize::new(0);
    std::thread::scope(|sc| {
        for _ in 0..workers().min(8) {
            let (next, totals) = (&next, &totals);
            sc.spawn(move || loop {
                let i = next.fetch_add(1, std::sync::atomic::Ordering::SeqCst);
                if i >= runs {
                    break;
                }
                let mut r = Rng::new(seed0.wrapping_mul(9_000_011).wrapping_add(i as u64));
                let n = 2 + (i / 2) % 2;
                let Some(mut c) = form_cluster(n, r.next(), "c05l") else {
                    v.inconclusive("cluster formation failed");
                    continue;
                };
                c.budget = 200_000;
                let full = i % 2 == 0;
                let nkeys = [90usize, 130, 250, 600][(i / 2) % 4];
                c.open_session("p", 0);
                c.call("p", "auth admin pwd");
                c.call("p", "create-db big tok");
                c.call("p", "use-db big tok");
                c.call("p", "set first some value");
                let write_all = |c: &mut Cluster, round: usize| {
                    for j in 0..nkeys {
                        c.send("p", &format!("set key{:04} some value {} {}", j, round, j));
                    }
                    let _ = c.run_until_quiet();
                };
                if full {
                    write_all(&mut c, 0);
                }
                let _ = c.run_until_quiet();
                c.kill_node(1);
                if full {
                    c.wipe_disk(1);
                }
                let _ = c.run_until_quiet();
                if !full {
                    // the joiner keeps its disk and its operation log: what changed while it was away is the catch-up
                    write_all(&mut c, 1);
                }
                let before_links = c.link_log().len();
                let all: Vec<usize> = (0..n).collect();
                c.start_node(1, 10_000, &all);
                let q = c.run_until_quiet();
                if !matches!(q, Outcome::Quiet(_)) || !c.panics().is_empty() {
                    v.report(json!({"check": "resync", "problem": if c.panics().is_empty() { "no-quiescence-after-rejoin" } else { "service-thread-panicked" }, "context": "catch-up-of-more-than-a-hundred-commands"}), json!({"keys": nkeys, "outcome": format!("{:?}", q), "panics": c.panics()}));
                    c.shutdown();
                    continue;
                }
                let links = c.link_log();
                let since: Option<u64> = links[before_links..].iter().find(|l| l.1 == 1 && l.2 == 0 && l.3.starts_with("replicate-since ")).and_then(|l| l.3.rsplit(' ').next().and_then(|x| x.parse().ok()));
                let sync_kind = match since { Some(0) => "full", Some(_) => "incremental", None => "none-requested" };
                let lines = links[before_links..].iter().filter(|l| l.1 == 0 && l.2 == 1 && l.3.starts_with("replicate big key")).count();
                let prim = snapshot_of(&c, 0);
                let join = snapshot_of(&c, 1);
                let pk: BTreeSet<String> = prim.get("big").map(|d| d.2.keys().filter(|k| k.starts_with("key")).cloned().collect()).unwrap_or_default();
                let jk: BTreeSet<String> = join.get("big").map(|d| d.2.keys().filter(|k| k.starts_with("key")).cloned().collect()).unwrap_or_default();
                let missing: Vec<&String> = pk.difference(&jk).collect();
                {
                    let mut t = totals.lock().unwrap();
                    t.0 += 1;
                    t.1 += lines as u64;
                    t.2 += pk.len() as u64;
                    t.3 = t.3.max(lines as u64);
                }
                if pk.len() != nkeys {
                    v.inconclusive("large catch-up: the primary does not hold the keys that were written");
                } else if !missing.is_empty() || lines < nkeys {
                    v.report(json!({"check": "resync", "problem": if lines < nkeys { "catch-up-lines-lost-between-supervisor-and-link" } else { "key-missing-on-joiner" }, "context": "catch-up-of-more-than-a-hundred-commands", "sync": sync_kind}),
                        json!({"nodes": n, "keys_on_primary": pk.len(), "keys_on_joiner": jk.len(), "catch_up_lines_that_crossed_the_link": lines, "first_missing": missing.iter().take(5).collect::<Vec<_>>(), "joiner_kept_its_disk": !full}));
                }
                c.shutdown();
            });
        }
    });
    let t = totals.into_inner().unwrap();
    json!({"runs": t.0, "catch_up_lines_that_crossed_the_link": t.1, "keys_compared_for_presence": t.2, "longest_catch_up_lines": t.3})
}

pub fn run(tier: &str) -> i32 {
    std::env::set_var("NUN_ELECTION_TIMEOUT", "30");
    quiet_panics();
    let thorough = tier == "thorough";
    let v = Verdicts::load("C05");
    let mut ev = Evidence::new("C05", tier, "exploration");
    let st = Mutex::new(Stats { runs: 0, shapes: BTreeSet::new(), sync_lines: 0, keys_compared: 0, full_syncs: 0, incremental_syncs: 0, inconclusive: 0, primary_changes: 0, failovers_not_clean: 0, samples: vec![] });
    let directed = directed_scenarios();
    let n_directed = if thorough { directed.len() } else { 80 };
    let directed_stride = (directed.len() / n_directed).max(1);
    let n_runs = (if thorough { 5000 } else { 320 }) + n_directed;
    let next = std::sync::atomic::AtomicUsize::new(0);
    std::thread::scope(|sc| {
        for _ in 0..workers() {
            let (next, v, st, directed) = (&next, &v, &st, &directed);
            sc.spawn(move || loop {
                let i = next.fetch_add(1, std::sync::atomic::Ordering::SeqCst);
                if i >= n_runs {
                    break;
                }
                let mut r = Rng::new(seed().wrapping_mul(3_000_017).wrapping_add(i as u64));
                // the directed scenarios first (a seeded sample of them in the quick tier), then seeded random ones
                let scn = if i < n_directed { (if directed_stride == 1 { directed[i].clone() } else { directed[Rng::new(seed().wrapping_mul(77_003).wrapping_add(i as u64)).below(directed.len())].clone() }) } else { gen_scenario(&mut r) };
                run_scenario(&scn, r.next(), v, st);
            });
        }
    });
    let rotating = rotating_log_part(&v, tier);
    ev.set("child_whose_operation_log_rotates_every_four_records", rotating);
    let large = large_catch_ups(&v, if thorough { 96 } else { 8 }, seed());
    ev.set("catch_ups_of_more_than_a_hundred_commands", large);
    let s = st.into_inner().unwrap();
    let race = sync_race(&v, if thorough { 1500 } else { 150 }, seed());
    ev.set("free_running_sync_race", json!({"attempts": race.attempts, "full_syncs": race.full, "incremental_syncs": race.incremental, "attempts_where_the_catch_up_was_served_between_live_writes": race.overlapped, "link_lines_replayed": race.lines, "keys_judged": race.keys_judged}));
    ev.evaluations = s.runs;
    ev.distinct_nontrivial = s.shapes.len() as u64;
    ev.rule = format!("{} simulated-cluster runs ({} of them directed: clean stop with everything persisted, then every order of 3-4 of {{update in an old database, create a new database, update another key of the old database, update in the new database, remove in the old database}} while away, with and without a write racing the synchronisation; the rest seeded random): primary history of 1-10 operations (create-db with none/newer/arbiter strategy, set with values from {{one, 'two words', '9 lives', '', '  padded', non-ASCII}}, remove, increment, snapshot) over up to 3 databases, split at two seeded points into before-departure / while-away / during-sync; the joiner leaves by clean stop (valid oplog) or kill, optionally with its disk wiped, optionally with a third node watching; distinct_nontrivial = distinct (sync kind the joiner requested, departure, disk, split sizes, cluster size); + {} free-running attempts (real replication loop and supervisor on their own threads, 3 writer sessions on their own keys while the supervisor serves a full or since-a-time catch-up): the stream sent to the secondary must end, for every key, with the value the primary ended with", n_runs, n_directed, race.attempts);
    ev.samples = s.samples.clone();
    ev.set("runs_in_which_the_primary_changed_while_the_joiner_was_away", json!(s.primary_changes));
    ev.set("failovers_that_did_not_settle_cleanly_and_were_not_used", json!(s.failovers_not_clean));
    ev.set("full_syncs", json!(s.full_syncs));
    ev.set("incremental_syncs", json!(s.incremental_syncs));
    ev.set("catch_up_lines_round_tripped", json!(s.sync_lines));
    ev.set("keys_compared_joiner_vs_primary", json!(s.keys_compared));
    ev.set("inconclusive_runs", json!(s.inconclusive));
    ev.set("known_findings_seen", json!(v.known_seen()));
    // Engine R: the same oracle over real nun-db processes (src/bin/main.rs, TCP links, signals, timer thread)
    let real = crate::realparts::c05_real(&v, if thorough { 96 } else { 8 }, seed());
    ev.set("real_processes", real.to_json());
    ev.violations = v.violation_count();
    ev.assumptions = vec![
        "Engine N transport emulation; the joiner restarts with a larger process id (youngest) and joins a quiet cluster".into(),
        "round-trip monitor: the text after 'replicate <db> <key> ' in a catch-up line is what the primary meant to send".into(),
    ];
    ev.write();
    cleanup_scratch();
    let code = v.finish(tier);
    if code == 0 && real.runs > 0 && (real.runs - real.inconclusive) * 2 < real.runs {
        println!("INCONCLUSIVE property=C05 reason=the real-process part could judge only {} of {} runs", real.runs - real.inconclusive, real.runs);
        return 2;
    }
    if code == 0 && (s.shapes.len() < 80 || s.full_syncs < 20 || s.incremental_syncs < 20 || s.inconclusive > s.runs / 10 + 3) {
        println!("INCONCLUSIVE property=C05 reason=coverage floor not met ({} shapes, {} full, {} incremental, {} inconclusive)", s.shapes.len(), s.full_syncs, s.incremental_syncs, s.inconclusive);
        return 2;
    }
    println!("C05 {}: {} runs ({} full, {} incremental syncs), {} shapes, {} catch-up lines, {} keys compared, {} violations", tier, s.runs, s.full_syncs, s.incremental_syncs, s.shapes.len(), s.sync_lines, s.keys_compared, v.violation_count());
    code
}

// ---------------------------------------------------------------- the directed scenarios over an operation log that rotates
/// NUN_MAX_OP_LOG_SIZE is read once per process, so the part runs in a child: with 1000 bytes the log starts a new file
/// every four records (and is never pruned within a scenario: that would need more than forty). The joiner leaves with a
/// valid log; while it is away the primary makes 9-21 more writes (several rotations) and then the directed operations
/// (update / create-db / remove in every order), so the joiner's last operation lies in an OLD segment of the primary's
/// log. Same oracle as everywhere: the joiner ends with the primary's keys, removed keys removed.
fn rotating_log_part(v: &Verdicts, tier: &str) -> serde_json::Value {
    let exe = std::env::current_exe().unwrap();
    let out = std::process::Command::new(&exe).args(["c05-rotating", tier, &seed().to_string()]).env("NUN_MAX_OP_LOG_SIZE", "1000").env("VERIF_SEED", seed().to_string()).output();
    let Ok(o) = out else {
        v.inconclusive("rotating-log child could not be started");
        return json!({"runs": 0});
    };
    let txt = String::from_utf8_lossy(&o.stdout).to_string();
    let Some(doc) = txt.lines().rev().find_map(|l| serde_json::from_str::<serde_json::Value>(l).ok().filter(|d| d.get("reports").is_some())) else {
        v.inconclusive(&format!("rotating-log child gave no result: {}", String::from_utf8_lossy(&o.stderr).lines().last().unwrap_or("")));
        return json!({"runs": 0});
    };
    for r in doc["reports"].as_array().cloned().unwrap_or_default() {
        let mut case = r["case"].clone();
        case["operation_log"] = json!("rotates-every-four-records (child process with NUN_MAX_OP_LOG_SIZE=1000)");
        v.report(r["signature"].clone(), case);
    }
    json!({"runs": doc["runs"], "full_syncs": doc["full"], "incremental_syncs": doc["incremental"], "keys_compared": doc["keys_compared"], "rotated_segments_of_the_primary_at_the_rejoin_min_max": doc["segments"]})
}

pub fn rotating_child(args: &[String]) -> i32 {
    std::env::set_var("NUN_ELECTION_TIMEOUT", "30");
    quiet_panics();
    let thorough = args.get(2).map(|s| s == "thorough").unwrap_or(false);
    let v = Verdicts::load("C05-rotating-log-child");
    let st = Mutex::new(Stats { runs: 0, shapes: BTreeSet::new(), sync_lines: 0, keys_compared: 0, full_syncs: 0, incremental_syncs: 0, inconclusive: 0, primary_changes: 0, failovers_not_clean: 0, samples: vec![] });
    let directed: Vec<Scenario> = directed_scenarios().into_iter().filter(|s| !s.bystander).collect();
    let n = if thorough { directed.len() * 2 } else { 48 };
    let next = std::sync::atomic::AtomicUsize::new(0);
    std::thread::scope(|sc| {
        for _ in 0..workers() {
            let (next, v, st, directed) = (&next, &v, &st, &directed);
            sc.spawn(move || loop {
                let i = next.fetch_add(1, std::sync::atomic::Ordering::SeqCst);
                if i >= n {
                    break;
                }
                let mut r = Rng::new(seed().wrapping_mul(9_000_011).wrapping_add(i as u64));
                let mut scn = directed[r.below(directed.len())].clone();
                // 9-21 writes of other keys first: the log turns over two to five times before the directed operations
                let pad = 9 + 4 * r.below(4);
                // (pad keys are also removed and written again: the records of one key then lie on both sides of a rotation,
                // and what the joiner is told about it has to be the newest of them)
                let mut away: Vec<Op> = (0..pad).map(|p| if p % 4 == 3 { Op::Remove(0, format!("p{}", (p + 2) % 5)) } else { Op::Set(0, format!("p{}", p % 5), p % VALUES.len()) }).collect();
                away.extend(scn.away.clone());
                scn.away = away;
                run_scenario(&scn, r.next(), v, st);
            });
        }
    });
    let s = st.into_inner().unwrap();
    cleanup_scratch();
    println!("{}", json!({"runs": s.runs, "full": s.full_syncs, "incremental": s.incremental_syncs, "keys_compared": s.keys_compared, "segments": serde_json::Value::Null, "reports": v.reports_json()}));
    0
}

// ---------------------------------------------------------------- free-running part: a catch-up racing live writes
pub struct RaceStats {
    pub attempts: u64,
    pub full: u64,
    pub incremental: u64,
    pub overlapped: u64,
    pub lines: u64,
    pub keys_judged: u64,
}

/// The real replication loop and the real supervisor of one primary run on their own OS threads (as in production);
/// a registered secondary is represented by the channel the primary writes its link messages to. While writer sessions
/// keep writing their own keys (one writer per key, so the primary's order per key is known), the supervisor is asked to
/// catch the secondary up (full or since-a-time). Afterwards the message stream the secondary was sent is replayed key by
/// key: its last word about every key must be the value the primary ended with — a catch-up line must never arrive after
/// (and so overwrite) a live write that the primary accepted during the synchronisation.
pub fn sync_race(v: &Verdicts, attempts: usize, seed0: u64) -> RaceStats {
    use crate::common::session::Session;
    use futures::channel::mpsc::channel;
    use nundb::bo::{ClusterMember, ClusterRole, Databases};
    use std::sync::atomic::{AtomicBool, Ordering};
    use std::sync::Arc;
    use std::time::{Duration, Instant};
    let mut st = RaceStats { attempts: 0, full: 0, incremental: 0, overlapped: 0, lines: 0, keys_judged: 0 };
    let mut rng = Rng::new(seed0 ^ 0x5ace);
    let dir = fresh_dir("c05-race");
    nundb::verif::set_dir(Some(dir.clone()));
    let addr = "10.0.9.1:3014".to_string();
    let (repl_tx, repl_rx) = channel::<String>(1 << 20);
    let (sup_tx, sup_rx) = channel::<String>(1000);
    let dbs = Arc::new(Databases::new("admin".into(), "pwd".into(), addr.clone(), addr.clone(), sup_tx, repl_tx, std::collections::HashMap::new(), 1000, true));
    dbs.node_state.store(ClusterRole::Primary as usize, Ordering::SeqCst);
    let dead = Arc::new(AtomicBool::new(false));
    {
        let (d, dir1, dead1) = (dbs.clone(), dir.clone(), dead.clone());
        std::thread::spawn(move || {
            nundb::verif::set_dir(Some(dir1));
            let r = std::panic::catch_unwind(std::panic::AssertUnwindSafe(|| futures::executor::block_on(nundb::replication_ops::start_replication_thread(repl_rx, d))));
            if r.is_err() {
                dead1.store(true, Ordering::SeqCst);
            }
        });
        let (d, dir2, dead2, a) = (dbs.clone(), dir.clone(), dead.clone(), addr.clone());
        std::thread::spawn(move || {
            nundb::verif::set_dir(Some(dir2));
            ON_SUPERVISOR.with(|f| f.set(true));
            let r = std::panic::catch_unwind(std::panic::AssertUnwindSafe(|| futures::executor::block_on(nundb::replication_ops::start_replication_supervisor(sup_rx, d, Arc::new(a)))));
            if r.is_err() {
                dead2.store(true, Ordering::SeqCst);
            }
        });
    }
    // injected delay: the supervisor dawdles at every value it reads for a since-a-time catch-up
    nundb::verif::set_point_callback(Some(Arc::new(|site: &str| {
        if site == "db.map:get_key_value" && ON_SUPERVISOR.with(|f| f.get()) {
            let until = Instant::now() + Duration::from_micros(20);
            while Instant::now() < until {
                std::hint::spin_loop();
            }
        }
    })));
    let mut adm = Session::new();
    adm.call(&dbs, "auth admin pwd");
    const WRITERS: usize = 3;
    const KEYS: usize = 50; // per writer and database
    const RACE_DBS: [&str; 4] = ["r0", "r1", "r2", "r3"];
    for db in RACE_DBS {
        adm.call(&dbs, &format!("create-db {} tok", db));
        adm.call(&dbs, &format!("use-db {} tok", db));
        for i in 0..4000 {
            adm.call(&dbs, &format!("set fill{} f", i));
        }
        for w in 0..WRITERS {
            for j in 0..KEYS {
                adm.call(&dbs, &format!("set k{}_{} init", w, j));
            }
        }
    }
    let member = "10.0.9.2:3014".to_string();
    let (mtx, mut mrx) = channel::<String>(1 << 20);
    dbs.add_cluster_member(ClusterMember { name: member.clone(), role: ClusterRole::Secoundary, sender: Some(mtx) });
    let mut stream: Vec<String> = vec![];
    // wait until everything queued so far has gone through the loop
    let drain_until = |mrx: &mut futures::channel::mpsc::Receiver<String>, stream: &mut Vec<String>, done: &mut dyn FnMut(&[String]) -> bool, limit: Duration| -> bool {
        let deadline = Instant::now() + limit;
        let mut quiet_since = Instant::now();
        loop {
            match mrx.try_next() {
                Ok(Some(m)) => {
                    stream.push(m);
                    quiet_since = Instant::now();
                }
                _ => {
                    if done(stream) && quiet_since.elapsed() > Duration::from_millis(40) {
                        return true;
                    }
                    if Instant::now() > deadline {
                        return false;
                    }
                    std::thread::sleep(Duration::from_micros(200));
                }
            }
        }
    };
    adm.call(&dbs, "set sentinel start");
    if !drain_until(&mut mrx, &mut stream, &mut |s: &[String]| s.iter().any(|l| l.starts_with("rp ") && l.contains(" sentinel ") && l.ends_with(" start")), Duration::from_secs(20)) {
        v.inconclusive("sync race: the replication loop did not forward the first write within 20 s");
        return st;
    }
    let mut prev_time = nundb::disk_ops::Oplog::last_op_time();
    for a in 0..attempts {
        if dead.load(Ordering::SeqCst) {
            v.inconclusive("sync race: a service thread of the primary died");
            break;
        }
        stream.clear();
        let full = a % 2 == 0;
        // a since-a-time catch-up covers what the previous attempt wrote
        let since = if full { 0 } else { prev_time.max(1) };
        prev_time = nundb::disk_ops::Oplog::last_op_time();
        let stop = Arc::new(AtomicBool::new(false));
        let mut hs = vec![];
        for w in 0..WRITERS {
            let (d, stop) = (dbs.clone(), stop.clone());
            let wseed = rng.next();
            hs.push(std::thread::spawn(move || {
                let mut r = Rng::new(wseed);
                let mut ss: Vec<Session> = RACE_DBS.iter().map(|db| { let mut s = Session::new(); s.call(&d, &format!("use-db {} tok", db)); s }).collect();
                let mut last: BTreeMap<String, String> = BTreeMap::new();
                // every key of this writer is written once per attempt, in a seeded order: a write the catch-up overtakes stays
                // the key's last write, so the stale value is still there when the stream is judged
                let mut order: Vec<usize> = (0..KEYS * RACE_DBS.len()).collect();
                for i in (1..order.len()).rev() {
                    order.swap(i, r.below(i + 1));
                }
                for (i, j) in order.into_iter().enumerate() {
                    if stop.load(Ordering::Relaxed) {
                        break;
                    }
                    let (dbi, j) = (j / KEYS, j % KEYS);
                    let key = format!("k{}_{}", w, j);
                    let val = format!("a{}n{}", a, i);
                    let rep = ss[dbi].call(&d, &format!("set {} {}", key, val));
                    last.insert(format!("{} {}", RACE_DBS[dbi], key), format!("{}\u{1}{}", val, rep.resp));
                    // paced, so that the replication loop keeps up and forwards a write soon after it was accepted
                    let until = Instant::now() + Duration::from_micros(10 + r.below(60) as u64);
                    while Instant::now() < until {
                        std::hint::spin_loop();
                    }
                }
                for s in ss.drain(..) {
                    s.disconnect(&d);
                }
                last
            }));
        }
        std::thread::sleep(Duration::from_micros(rng.below(3000) as u64));
        let _ = dbs.replication_supervisor_sender.clone().try_send(format!("replicate-since-to {} {}", member, since));
        std::thread::sleep(Duration::from_micros(8000 + rng.below(4000) as u64));
        stop.store(true, Ordering::SeqCst);
        let mut expected: BTreeMap<String, String> = BTreeMap::new();
        let mut replies: BTreeMap<String, String> = BTreeMap::new();
        for h in hs {
            if let Ok(m) = h.join() {
                for (k, vr) in m {
                    let (val, rep) = vr.split_once('\u{1}').unwrap();
                    expected.insert(k.clone(), val.to_string());
                    replies.insert(k, rep.to_string());
                }
            }
        }
        adm.call(&dbs, "use-db r0 tok");
        adm.call(&dbs, &format!("set sentinel e{}", a));
        let tail = format!(" e{}", a);
        let ok = drain_until(
            &mut mrx,
            &mut stream,
            // the sentinel as forwarded by the loop (a since-a-time catch-up can carry the sentinel key too), and the catch-up
            // block itself (it is queued in one go; a full one ends with one replicate-snapshot per database)
            &mut |s: &[String]| {
                s.iter().any(|l| l.starts_with("rp ") && l.contains(" sentinel ") && l.ends_with(&tail))
                    && s.iter().any(|l| !l.starts_with("rp "))
                    && (!full || s.iter().filter(|l| l.starts_with("replicate-snapshot ")).count() >= RACE_DBS.len())
            },
            Duration::from_secs(20),
        );
        if !ok {
            v.inconclusive(&format!("sync race: attempt {} did not drain within 20 s ({} lines)", a, stream.len()));
            continue;
        }
        st.attempts += 1;
        if full {
            st.full += 1;
        } else {
            st.incremental += 1;
        }
        st.lines += stream.len() as u64;
        // replay the stream per key
        let mut last_word: BTreeMap<String, (String, bool, usize)> = BTreeMap::new(); // key -> (value, came from the catch-up, index)
        let (mut first_sync, mut last_sync, mut live_between) = (usize::MAX, 0usize, false);
        for (i, l) in stream.iter().enumerate() {
            let t: Vec<&str> = l.split(' ').collect();
            if t.len() >= 7 && t[0] == "rp" && t[2] == "replicate" {
                last_word.insert(format!("{} {}", t[3], t[4]), (t[6..].join(" "), false, i));
            } else if t.len() >= 4 && t[0] == "replicate" {
                last_word.insert(format!("{} {}", t[1], t[2]), (t[3..].join(" "), true, i));
            }
            if !l.starts_with("rp ") {
                first_sync = first_sync.min(i);
                last_sync = last_sync.max(i);
            }
        }
        if first_sync != usize::MAX {
            // the catch-up was served while writes were flowing: live writes were forwarded before and after (or inside) it
            let is_write = |l: &String| l.starts_with("rp ") && !l.contains(" sentinel ");
            live_between = stream[first_sync..=last_sync].iter().any(is_write) || (stream[..first_sync].iter().any(is_write) && stream[last_sync + 1..].iter().any(is_write));
        }
        if live_between {
            st.overlapped += 1;
        }
        if std::env::var("VERIF_DEBUG").is_ok() {
            let writes_before = if first_sync == usize::MAX { 0 } else { stream[..first_sync].iter().filter(|l| l.starts_with("rp ")).count() };
            let writes_after = if first_sync == usize::MAX { 0 } else { stream[last_sync + 1..].iter().filter(|l| l.starts_with("rp ")).count() };
            let older_in_sync = expected.iter().filter(|(k, want)| stream.iter().any(|l| !l.starts_with("rp ") && l.starts_with(&format!("replicate {} ", k)) && !l.ends_with(&format!(" {}", want)))).count();
            eprintln!("attempt {} full={} lines={} sync=[{}..{}] writes_before={} writes_after={} keys_with_older_value_in_sync={}", a, full, stream.len(), first_sync, last_sync, writes_before, writes_after, older_in_sync);
        }
        let now: BTreeMap<&str, _> = RACE_DBS.iter().map(|db| (*db, crate::common::node::dump_db(&dbs, db).unwrap_or_default())).collect();
        for (key, want) in &expected {
            // the primary's own final value (one writer per key: it is that writer's last write)
            let (dbn, kn) = key.split_once(' ').unwrap();
            if now[dbn].get(kn).map(|k| &k.value) != Some(want) {
                continue;
            }
            st.keys_judged += 1;
            if let Some((got, from_sync, idx)) = last_word.get(key) {
                let live_idx = stream.iter().position(|l| l.starts_with("rp ") && l.contains(&format!(" {} ", key)) && l.ends_with(&format!(" {}", want)));
                if got != want && live_idx.is_none() {
                    // the accepted write never went out at all: another message went out twice under one operation id?
                    let mut by_id: BTreeMap<&str, Vec<usize>> = BTreeMap::new();
                    for (i, l) in stream.iter().enumerate() {
                        if let Some(rest) = l.strip_prefix("rp ") {
                            by_id.entry(rest.split(' ').next().unwrap_or("")).or_default().push(i);
                        }
                    }
                    let dup: Vec<String> = by_id.iter().filter(|(_, v)| v.len() > 1).flat_map(|(_, v)| v.iter().map(|i| format!("[{}] {}", i, stream[*i]))).take(6).collect();
                    let sig = json!({"check": "rejoin", "engine": "free-running-threads", "problem": if dup.is_empty() { "accepted-write-never-forwarded-to-the-secondary" } else { "accepted-write-never-forwarded-another-message-went-out-twice-under-one-operation-id" }});
                    v.report(sig, json!({"key": key, "primary_value": want, "reply_to_the_write": replies.get(key), "last_line_sent_to_the_secondary_about_the_key": stream[*idx], "lines_sharing_an_operation_id": dup, "attempt": a,
                        "live_lines_in_stream": stream.iter().filter(|l| l.starts_with("rp ")).count(), "writes_acknowledged_this_attempt": expected.len(),
                        "lines_ending_with_the_value": stream.iter().enumerate().filter(|(_, l)| l.ends_with(want.as_str())).map(|(i, l)| format!("[{}] {}", i, l)).collect::<Vec<_>>(),
                        "stream_tail": stream.iter().rev().take(5).rev().collect::<Vec<_>>()}));
                    continue;
                }
                if got != want && *from_sync {
                    let sig = json!({"check": "rejoin", "engine": "free-running-threads", "sync": if full { "full" } else { "incremental" }, "problem": "catch-up-line-sent-after-a-newer-live-write-of-the-same-key"});
                    v.report(sig, json!({"key": key, "primary_value": want, "last_line_sent_to_the_secondary_about_the_key": stream[*idx], "at_stream_index": idx, "newer_live_write_at_stream_index": live_idx, "attempt": a, "stream_excerpt": stream.iter().enumerate().filter(|(_, l)| l.contains(&format!(" {} ", key))).map(|(i, l)| format!("[{}] {}", i, l)).collect::<Vec<_>>()}));
                }
            }
        }
    }
    nundb::verif::set_point_callback(None);
    st
}

thread_local! {
    static ON_SUPERVISOR: std::cell::Cell<bool> = std::cell::Cell::new(false);
}
