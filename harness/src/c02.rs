//! C02 — set-safe is an atomic compare-and-set; versions only grow; no lost update.
//! (a) sequential sweep of the version rule, (b) controlled interleavings at
//! lock-acquisition granularity checked for linearizability against the same
//! code run sequentially, (c) free-running stress rounds (one winner per base
//! version, exact increment sums).
use crate::common::evidence::Evidence;
use crate::common::kf::Verdicts;
use crate::common::node::{Node, NodeOpts};
use crate::common::rng::Rng;
use crate::common::sched::{self, Ev, Policy};
use crate::common::session::Session;
use crate::common::*;
use nundb::bo::{ClusterRole, Databases, Response};
use serde_json::json;
use std::collections::{BTreeMap, BTreeSet};
use std::sync::Arc;

pub fn mem_node(strategy_dbs: &[(&str, &str)]) -> (Node, Session) {
    let dir = format!("{}/unused", scratch_base());
    let node = Node::start(NodeOpts::simple(&dir));
    node.set_role(ClusterRole::Primary);
    let mut adm = Session::new();
    adm.call(&node.dbs, "auth admin pwd");
    for (n, s) in strategy_dbs {
        adm.call(&node.dbs, &format!("create-db {} tok {}", n, s));
    }
    (node, adm)
}

pub fn short(r: &Response) -> String {
    match r {
        Response::Ok {} => "Ok".into(),
        Response::Set { value, .. } => format!("Set {}", value),
        Response::Value { value, version, .. } => format!("Value {} v{}", value, version),
        Response::Error { msg } => format!("Error {}", msg),
        Response::VersionError { .. } => "VersionError".into(),
    }
}

fn get_safe(s: &mut Session, dbs: &Arc<Databases>, k: &str) -> (String, i32) {
    let r = s.call_raw(dbs, &format!("get-safe {}", k));
    s.drain();
    match r {
        Response::Value { value, version, .. } => (value, version),
        o => (format!("?{}", short(&o)), i32::MIN),
    }
}

// ------------------------------------------------------------------ (a) sequential sweep
/// `secondary`: the node that serves the client is a replica. Clients may write to any node; the version rule of a
/// database without conflict strategy is the same there (increments are only forwarded by a secondary, so the keys are
/// built and moved with set / set-safe).
fn sequential_sweep(v: &Verdicts, rng: &mut Rng, thorough: bool, secondary: bool) -> (u64, BTreeSet<String>) {
    let mut n = 0u64;
    let mut classes = BTreeSet::new();
    let (mut node, _adm) = mem_node(&[("db", "none")]);
    let role_tag = if secondary { "secondary" } else { "primary" };
    if secondary {
        node.set_role(ClusterRole::Secoundary);
    }
    let mut s = Session::new();
    s.call(&node.dbs, "use-db db tok");
    let dbs = node.dbs.clone();
    let mut keyn = 0;
    // the rule for an existing key
    for build in 0..(if secondary { 2 } else { 3 }) {
        // how the key reaches its current version
        for extra_sets in [0usize, 1, 5] {
            // -2000.. stand for the absolute versions -2, -5 and i32::MIN: below every version a key can have
            let offsets: Vec<i64> = vec![-1000, -2, -1, 0, 1, 2, 1000, 2147483646, -2000, -2001, -2002];
            for off in offsets {
                keyn += 1;
                let k = format!("k{}", keyn);
                match build {
                    0 => {
                        s.call(&dbs, &format!("set {} 10", k));
                    }
                    1 => {
                        s.call(&dbs, &format!("set-safe {} 7 10", k));
                    }
                    _ => {
                        s.call(&dbs, &format!("increment {} 10", k));
                    }
                }
                for i in 0..extra_sets {
                    if i % 2 == 0 || secondary {
                        s.call(&dbs, &format!("set {} 1{}", k, i));
                    } else {
                        s.call(&dbs, &format!("increment {} 1", k));
                    }
                }
                let (val0, c) = get_safe(&mut s, &dbs, &k);
                let sent: i64 = match off {
                    2147483646 => 2147483646,
                    -1000 => -1,
                    -2000 => -2,
                    -2001 => -5,
                    -2002 => i32::MIN as i64,
                    _ => c as i64 + off,
                };
                if (sent < -1 && off > -2000) || sent > 2147483646 {
                    continue;
                }
                let line = format!("set-safe {} {} w{}", k, sent, keyn);
                let r = s.call_raw(&dbs, &line);
                s.drain();
                node.pump();
                let (val1, c1) = get_safe(&mut s, &dbs, &k);
                n += 1;
                let expect_accept = sent == -1 || sent >= c as i64;
                let rel = if sent == -1 { "minus-one" } else if sent < -1 { "negative" } else if sent < c as i64 { "older" } else if sent == c as i64 { "equal" } else { "newer" };
                classes.insert(format!("{}/existing/{}/{}", role_tag, rel, short(&r).split(' ').next().unwrap()));
                let accepted = matches!(r, Response::Ok {});
                let refused = matches!(r, Response::VersionError { .. }) || (sent < -1 && matches!(r, Response::Error { .. }));
                let mut problem = None;
                if expect_accept && !accepted {
                    problem = Some("refused-although-not-older");
                } else if !expect_accept && !refused {
                    problem = Some("accepted-although-older");
                } else if accepted && (val1 != format!("w{}", keyn) || c1 <= c) {
                    problem = Some(if c1 <= c { "version-did-not-grow" } else { "value-not-stored" });
                } else if refused && (val1 != val0 || c1 != c) {
                    problem = Some("refused-write-changed-key");
                }
                if let Some(p) = problem {
                    v.report(
                        if secondary { json!({"check": "sequential-rule", "case": "existing-key", "sent_vs_current": rel, "problem": p, "node_role": "secondary"}) } else { json!({"check": "sequential-rule", "case": "existing-key", "sent_vs_current": rel, "problem": p}) },
                        json!({"key_built_by": build, "extra_mutations": extra_sets, "current_version": c, "line": line, "reply": short(&r), "after": [val1, c1], "before": [val0, c]}),
                    );
                }
            }
        }
    }
    // absent key: always accepted
    for sent in [-1i64, 0, 1, 5, 1000, 2147483646] {
        keyn += 1;
        let k = format!("k{}", keyn);
        let line = format!("set-safe {} {} first", k, sent);
        let r = s.call_raw(&dbs, &line);
        s.drain();
        node.pump();
        let (val1, _c1) = get_safe(&mut s, &dbs, &k);
        n += 1;
        classes.insert(format!("absent/{}", short(&r).split(' ').next().unwrap()));
        if !matches!(r, Response::Ok {}) || val1 != "first" {
            v.report(
                json!({"check": "sequential-rule", "case": "absent-key", "problem": "not-accepted"}),
                json!({"line": line, "reply": short(&r), "after": val1}),
            );
        }
    }
    // absent because it was removed (round 10): a key that reached some version, was or was not written to disk by a
    // snapshot, was removed, and whose removal was or was not snapshotted, is an absent key for the version rule - a
    // versioned write to it succeeds whatever version it presents (below, at or above anything the key had before, or
    // the one get-safe reports for it now), and the same commands give the same answers whether or not a snapshot
    // happened in between. Real data directory, snapshots written by the node's timer action.
    if !secondary {
        let dir = fresh_dir("c02-removed");
        let mut dnode = Node::start(NodeOpts::simple(&dir));
        dnode.set_role(ClusterRole::Primary);
        let mut adm = Session::new();
        adm.call(&dnode.dbs, "auth admin pwd");
        adm.call(&dnode.dbs, "create-db rdb tok none");
        adm.call(&dnode.dbs, "use-db rdb tok");
        let mut t = Session::new();
        t.call(&dnode.dbs, "use-db rdb tok");
        let ddbs = dnode.dbs.clone();
        let mut rk = 0;
        for sets in [1usize, 2, 6] {
            for snap_before_remove in [0u8, 1, 2] {
                for snap_after_remove in [0u8, 1, 2] {
                    // 9000 stands for "the version get-safe reports for the removed key"
                    for sent in [-1i64, 0, 1, 2, 5, 6, 7, 1000, 9000] {
                        rk += 1;
                        let k = format!("r{}", rk);
                        for i in 0..sets {
                            t.call(&ddbs, &format!("set {} {}", k, 10 + i));
                        }
                        let (_, had) = get_safe(&mut t, &ddbs, &k);
                        for (which, when) in [(snap_before_remove, "before"), (snap_after_remove, "after")] {
                            if when == "after" {
                                t.call(&ddbs, &format!("remove {}", k));
                            }
                            if which > 0 {
                                adm.call(&ddbs, &format!("snapshot {}", which == 2));
                                dnode.pump();
                                dnode.declutter();
                            }
                        }
                        let (gone_val, gone_ver) = get_safe(&mut t, &ddbs, &k);
                        let sent_v = if sent == 9000 { gone_ver as i64 } else { sent };
                        let line = format!("set-safe {} {} again{}", k, sent_v, rk);
                        let r = t.call_raw(&ddbs, &line);
                        t.drain();
                        dnode.pump();
                        let (val1, ver1) = get_safe(&mut t, &ddbs, &k);
                        n += 1;
                        let snaps = |x: u8| match x { 0 => "no-snapshot", 1 => "incremental-snapshot", _ => "reclaiming-snapshot" };
                        classes.insert(format!("removed/{}-before-remove/{}-after-remove/{}", snaps(snap_before_remove), snaps(snap_after_remove), short(&r).split(' ').next().unwrap()));
                        let problem = if gone_val != "<Empty>" {
                            Some("removed-key-still-readable")
                        } else if !matches!(r, Response::Ok {}) {
                            Some("not-accepted")
                        } else if val1 != format!("again{}", rk) {
                            Some("value-not-stored")
                        } else {
                            None
                        };
                        if let Some(p) = problem {
                            v.report(
                                json!({"check": "sequential-rule", "case": "key-removed-before", "problem": p, "snapshot_before_the_remove": snaps(snap_before_remove), "snapshot_after_the_remove": snaps(snap_after_remove)}),
                                json!({"sets_before": sets, "version_the_key_had": had, "get_safe_of_the_removed_key": [gone_val, gone_ver], "line": line, "reply": short(&r), "after": [val1, ver1]}),
                            );
                        }
                    }
                }
            }
        }
        dnode.safe_shutdown();
    }
    // version monotonicity over random sequential histories (per incarnation of the key)
    let hist = if thorough { 20_000 } else { 2_000 };
    for h in 0..hist {
        keyn += 1;
        let k = format!("m{}", keyn);
        let mut high: Option<i32> = None; // highest version seen in this incarnation
        let mut trace = vec![];
        let len = rng.range(3, 12);
        for i in 0..len {
            let (_, cur) = get_safe(&mut s, &dbs, &k);
            let line = match rng.below(8) {
                0..=2 => format!("set {} {}", k, 100 + i),
                3..=4 if !secondary => format!("increment {} {}", k, *rng.pick(&[1i32, 2, 3, 0, -1])),
                3..=4 => format!("set-safe {} {} {}", k, cur.max(0), 400 + i),
                5 => format!("set-safe {} {} {}", k, (cur + rng.below(3) as i32 - 1).max(0), 200 + i),
                6 => format!("set-safe {} {} {}", k, rng.below(4), 300 + i),
                _ => format!("remove {}", k),
            };
            let r = s.call_raw(&dbs, &line);
            s.drain();
            node.pump();
            let (val, ver) = get_safe(&mut s, &dbs, &k);
            trace.push(json!([line, short(&r), val, ver]));
            n += 1;
            let word = line.split(' ').next().unwrap().to_string();
            if word == "remove" {
                high = None;
                continue;
            }
            if matches!(r, Response::Ok {}) {
                if let Some(hv) = high {
                    if ver <= hv {
                        v.report(
                            if secondary { json!({"check": "version-monotonic", "op": word, "problem": "version-not-higher-than-before", "node_role": "secondary"}) } else { json!({"check": "version-monotonic", "op": word, "problem": "version-not-higher-than-before"}) },
                            json!({"history": h, "trace": trace}),
                        );
                        break;
                    }
                }
                high = Some(high.map(|x| x.max(ver)).unwrap_or(ver));
                classes.insert(format!("{}/mono/{}/grew", role_tag, word));
            } else if let Some(hv) = high {
                if ver != hv {
                    v.report(
                        if secondary { json!({"check": "version-monotonic", "op": word, "problem": "refused-op-changed-version", "node_role": "secondary"}) } else { json!({"check": "version-monotonic", "op": word, "problem": "refused-op-changed-version"}) },
                        json!({"history": h, "trace": trace}),
                    );
                    break;
                }
            }
        }
    }
    (n, classes)
}

// ------------------------------------------------------------------ (b) controlled interleavings
#[derive(Clone, Debug)]
pub enum COp {
    Set(String),
    /// a value that is not a number (an increment that meets it must be refused and change nothing)
    SetText(String),
    /// absolute version
    SetSafeAbs(String, i32),
    /// version from this client's last get-safe of the key
    Cas(String),
    Inc(String, i32),
    GetSafe(String),
    Remove(String),
}

#[derive(Clone, Debug)]
pub struct DoneOp {
    pub client: usize,
    pub idx: usize,
    pub line: String,
    pub key: String,
    pub reply: String,
    pub call: usize,
    pub ret: usize,
}

/// `flavor` 0: C02's mix. 1: C01's mix - text and numeric sets, increments, reads and removes of one or two keys (an
/// increment refused because of a text value must leave it alone whatever else runs at that moment).
fn gen_mix(r: &mut Rng, flavor: u8) -> (Vec<Vec<COp>>, Vec<(String, Option<i32>)>) {
    let nkeys = r.range(1, 2);
    let keys: Vec<String> = (0..nkeys).map(|i| format!("k{}", i)).collect();
    // initial state per key: absent, or set n times (version n-1)
    let init: Vec<(String, Option<i32>)> = keys.iter().map(|k| (k.clone(), *r.pick(&[None, Some(0), Some(1), Some(3)]))).collect();
    let nclients = r.range(2, 3);
    let mut clients = vec![];
    for _ in 0..nclients {
        let nops = r.range(1, 3);
        let mut ops = vec![];
        for _ in 0..nops {
            let k = r.pick(&keys).clone();
            let op = if flavor == 1 {
                match r.below(12) {
                    0..=2 => COp::SetText(k),
                    3..=4 => COp::Set(k),
                    5..=8 => COp::Inc(k, *r.pick(&[1i32, 2, 3, 1, 2, 0, -1])),
                    9..=10 => COp::GetSafe(k),
                    _ => COp::Remove(k),
                }
            } else {
              match r.below(13) {
                12 => COp::SetText(k),
                0..=1 => COp::Set(k),
                2..=3 => COp::SetSafeAbs(k, r.below(5) as i32),
                4..=5 => COp::Cas(k),
                6..=8 => COp::Inc(k, *r.pick(&[1i32, 2, 3, 1, 2, 0])),
                9..=10 => COp::GetSafe(k),
                _ => COp::Remove(k),
              }
            };
            if let COp::Cas(k) = &op {
                ops.push(COp::GetSafe(k.clone()));
            }
            ops.push(op);
        }
        ops.truncate(4);
        clients.push(ops);
    }
    (clients, init)
}

fn setup_keys(s: &mut Session, dbs: &Arc<Databases>, init: &[(String, Option<i32>)]) {
    for (k, ver) in init {
        if let Some(ver) = ver {
            s.call(dbs, &format!("set {} 10", k));
            for i in 0..*ver {
                s.call(dbs, &format!("set {} {}", k, 11 + i));
            }
        }
    }
}

/// Executes the mix under the token scheduler on database `db` of `node`.
fn run_mix(node: &Node, db: &str, clients: &[Vec<COp>], rng: &mut Rng, policy: Policy, uniq: &mut u64) -> (Vec<DoneOp>, sched::Outcome) {
    let dbs = node.dbs.clone();
    let base = *uniq;
    *uniq += 100;
    let bodies: Vec<_> = clients
        .iter()
        .enumerate()
        .map(|(ci, ops)| {
            let dbs = dbs.clone();
            let ops = ops.clone();
            let db = db.to_string();
            move |tid: usize, sc: &sched::Sched| {
                let mut s = Session::new();
                s.call(&dbs, &format!("use-db {} tok", db));
                let mut last_ver: BTreeMap<String, i32> = BTreeMap::new();
                for (i, op) in ops.iter().enumerate() {
                    sched::yield_point(sc, tid, "op");
                    let line = match op {
                        COp::Set(k) => format!("set {} {}", k, 1000 + base + (ci * 10 + i) as u64),
                        COp::SetText(k) => format!("set {} t{}", k, 1000 + base + (ci * 10 + i) as u64),
                        COp::SetSafeAbs(k, v) => format!("set-safe {} {} {}", k, v, 1000 + base + (ci * 10 + i) as u64),
                        COp::Cas(k) => format!("set-safe {} {} {}", k, last_ver.get(k).cloned().unwrap_or(0).max(0), 1000 + base + (ci * 10 + i) as u64),
                        COp::Inc(k, n) => format!("increment {} {}", k, n),
                        COp::GetSafe(k) => format!("get-safe {}", k),
                        COp::Remove(k) => format!("remove {}", k),
                    };
                    sc.log(Ev::Call(tid, i, line.clone()));
                    let r = s.call_raw(&dbs, &line);
                    s.drain();
                    if let (COp::GetSafe(k), Response::Value { version, .. }) = (op, &r) {
                        last_ver.insert(k.clone(), *version);
                    }
                    sc.log(Ev::Ret(tid, i, short(&r)));
                }
            }
        })
        .collect();
    let out = sched::run_controlled(bodies, rng, policy);
    let mut done: Vec<DoneOp> = vec![];
    let mut open: BTreeMap<(usize, usize), (String, usize)> = BTreeMap::new();
    for (pos, e) in out.events.iter().enumerate() {
        match e {
            Ev::Call(t, i, line) => {
                open.insert((*t, *i), (line.clone(), pos));
            }
            Ev::Ret(t, i, reply) => {
                if let Some((line, call)) = open.remove(&(*t, *i)) {
                    let key = line.split(' ').nth(1).unwrap_or("").to_string();
                    done.push(DoneOp { client: *t, idx: *i, line, key, reply: reply.clone(), call, ret: pos });
                }
            }
            _ => {}
        }
    }
    (done, out)
}

/// Is there a sequential order of `ops` (one key), respecting real time and program order, in which
/// the same code yields the same replies and the same final (value, version)?
pub fn linearizable_by_reexecution(
    spec: &mut SpecRunner,
    init: Option<i32>,
    key: &str,
    ops: &[DoneOp],
    final_state: &(String, i32),
    budget: &mut u64,
) -> Option<bool> {
    let n = ops.len();
    let mut order: Vec<usize> = vec![];
    let mut used = vec![false; n];
    fn rec(
        spec: &mut SpecRunner,
        init: Option<i32>,
        key: &str,
        ops: &[DoneOp],
        final_state: &(String, i32),
        order: &mut Vec<usize>,
        used: &mut Vec<bool>,
        budget: &mut u64,
    ) -> Option<bool> {
        if *budget == 0 {
            return None;
        }
        let n = ops.len();
        if order.len() == n {
            *budget -= 1;
            return Some(spec.run(init, key, ops, order, Some(final_state)));
        }
        // prefix must already be consistent
        if !order.is_empty() {
            *budget -= 1;
            if !spec.run(init, key, ops, order, None) {
                return Some(false);
            }
        }
        // candidates: unused ops all of whose real-time predecessors are used; prefer earliest return
        let mut cands: Vec<usize> = (0..n)
            .filter(|&i| !used[i])
            .filter(|&i| (0..n).all(|j| used[j] || j == i || !(ops[j].ret < ops[i].call)))
            .collect();
        cands.sort_by_key(|&i| ops[i].ret);
        for c in cands {
            used[c] = true;
            order.push(c);
            match rec(spec, init, key, ops, final_state, order, used, budget) {
                Some(true) => return Some(true),
                None => return None,
                _ => {}
            }
            order.pop();
            used[c] = false;
        }
        Some(false)
    }
    rec(spec, init, key, ops, final_state, &mut order, &mut used, budget)
}

/// Runs candidate orders sequentially on fresh databases of a private node.
pub struct SpecRunner {
    pub node: Node,
    adm: Session,
    n: u64,
    pub strategy: String,
    pub runs: u64,
}

impl SpecRunner {
    pub fn new(strategy: &str) -> SpecRunner {
        let (node, adm) = mem_node(&[]);
        SpecRunner { node, adm, n: 0, strategy: strategy.to_string(), runs: 0 }
    }
    /// true iff every op of `order` gets its recorded reply (and the final state matches when given)
    pub fn run(&mut self, init: Option<i32>, key: &str, ops: &[DoneOp], order: &[usize], final_state: Option<&(String, i32)>) -> bool {
        self.n += 1;
        self.runs += 1;
        if self.n % 2000 == 0 {
            // keep the spec node small
            let strategy = self.strategy.clone();
            *self = SpecRunner::new(&strategy);
        }
        let db = format!("s{}", self.n);
        let dbs = self.node.dbs.clone();
        self.adm.call(&dbs, &format!("create-db {} tok {}", db, self.strategy));
        let mut s = Session::new();
        s.call(&dbs, &format!("use-db {} tok", db));
        setup_keys(&mut s, &dbs, &[(key.to_string(), init)]);
        let mut ok = true;
        for &i in order {
            let r = s.call_raw(&dbs, &ops[i].line);
            s.drain();
            if short(&r) != ops[i].reply {
                ok = false;
                break;
            }
        }
        if ok {
            if let Some(f) = final_state {
                let got = get_safe(&mut s, &dbs, key);
                ok = &got == f;
            }
        }
        self.node.pump();
        ok
    }
}

pub struct CtlStats {
    pub schedules: u64,
    pub distinct_overlapping: BTreeSet<u64>,
    pub distinct: BTreeSet<u64>,
    pub ops: u64,
    pub spec_runs: u64,
    pub stuck: u64,
    pub undecided: u64,
    pub samples: Vec<serde_json::Value>,
    pub outcome_classes: BTreeSet<String>,
}

impl CtlStats {
    pub fn new() -> CtlStats {
        CtlStats { schedules: 0, distinct_overlapping: BTreeSet::new(), distinct: BTreeSet::new(), ops: 0, spec_runs: 0, stuck: 0, undecided: 0, samples: vec![], outcome_classes: BTreeSet::new() }
    }
}

pub fn controlled(v: &Verdicts, seed0: u64, mixes: usize, per_mix: usize, pct: bool, stats: &std::sync::Mutex<CtlStats>, flavor: u8) {
    let next = std::sync::atomic::AtomicUsize::new(0);
    std::thread::scope(|sc| {
        for _w in 0..workers() {
            let (next, v, stats) = (&next, &v, &stats);
            sc.spawn(move || {
                let mut spec = SpecRunner::new("none");
                let (mut node, mut adm) = mem_node(&[]);
                let mut dbn = 0u64;
                let mut uniq = 0u64;
                loop {
                    let m = next.fetch_add(1, std::sync::atomic::Ordering::SeqCst);
                    if m >= mixes {
                        break;
                    }
                    let mut rng = Rng::new(seed0.wrapping_mul(1_000_003).wrapping_add(m as u64));
                    let (clients, init) = gen_mix(&mut rng, flavor);
                    for sidx in 0..per_mix {
                        dbn += 1;
                        if dbn % 1500 == 0 {
                            let (n2, a2) = mem_node(&[]);
                            node = n2;
                            adm = a2;
                        }
                        let db = format!("d{}", dbn);
                        adm.call(&node.dbs, &format!("create-db {} tok none", db));
                        let mut s0 = Session::new();
                        s0.call(&node.dbs, &format!("use-db {} tok", db));
                        setup_keys(&mut s0, &node.dbs, &init);
                        node.pump();
                        let policy = if pct && sidx % 2 == 1 { Policy::Pct(3) } else { Policy::Random };
                        let (done, out) = run_mix(&node, &db, &clients, &mut rng, policy, &mut uniq);
                        node.pump();
                        let mut st = stats.lock().unwrap();
                        st.schedules += 1;
                        if out.stuck {
                            st.stuck += 1;
                            drop(st);
                            v.inconclusive("controlled run: a client thread did not return to a scheduling point within 20 s");
                            // locks may be held by the abandoned run: use a fresh node
                            let (n2, a2) = mem_node(&[]);
                            node = n2;
                            adm = a2;
                            continue;
                        }
                        let h = sched::schedule_hash(&out.events);
                        st.distinct.insert(h);
                        st.ops += done.len() as u64;
                        drop(st);
                        // thread panics are violations in their own right
                        if let Some(Ev::Ret(_, _, msg)) = out.events.iter().find(|e| matches!(e, Ev::Ret(_, i, _) if *i == usize::MAX)) {
                            v.report(
                                json!({"check": "concurrent", "problem": "client-thread-panicked", "panic": msg.split(':').next().unwrap_or("")}),
                                json!({"mix": format!("{:?}", clients), "init": format!("{:?}", init), "events": format!("{:?}", out.events)}),
                            );
                            let (n2, a2) = mem_node(&[]);
                            node = n2;
                            adm = a2;
                            continue;
                        }
                        let mut overlapping = false;
                        for (k, iv) in &init {
                            let ops: Vec<DoneOp> = done.iter().filter(|d| &d.key == k).cloned().collect();
                            if ops.is_empty() {
                                continue;
                            }
                            for a in 0..ops.len() {
                                for b in 0..ops.len() {
                                    if a != b && ops[a].client != ops[b].client && ops[a].call < ops[b].ret && ops[b].call < ops[a].ret {
                                        overlapping = true;
                                    }
                                }
                            }
                            let fin = get_safe(&mut s0, &node.dbs, k);
                            let mut budget = 20_000u64;
                            let res = linearizable_by_reexecution(&mut spec, *iv, k, &ops, &fin, &mut budget);
                            let mut st = stats.lock().unwrap();
                            let winners = ops.iter().filter(|o| o.line.starts_with("set-safe") && o.reply == "Ok").count();
                            let losers = ops.iter().filter(|o| o.line.starts_with("set-safe") && o.reply == "VersionError").count();
                            st.outcome_classes.insert(format!("cas-ok={} cas-refused={} incs={} removes={}", winners, losers,
                                ops.iter().filter(|o| o.line.starts_with("increment")).count(), ops.iter().filter(|o| o.line.starts_with("remove")).count()));
                            match res {
                                Some(true) => {}
                                None => {
                                    st.undecided += 1;
                                }
                                Some(false) => {
                                    drop(st);
                                    // classify the minimal observation
                                    let cas_ok: Vec<&DoneOp> = ops.iter().filter(|o| o.line.starts_with("set-safe") && o.reply == "Ok").collect();
                                    let mut bases = BTreeSet::new();
                                    let mut dup_base = false;
                                    for o in &cas_ok {
                                        let b = o.line.split(' ').nth(2).unwrap().to_string();
                                        if !bases.insert(b) {
                                            dup_base = true;
                                        }
                                    }
                                    let words: BTreeSet<String> = ops.iter().map(|o| o.line.split(' ').next().unwrap().to_string()).collect();
                                    let problem = if dup_base { "two-winners-for-one-base-version" } else { "no-sequential-order-explains-history" };
                                    v.report(
                                        json!({"check": "concurrent", "problem": problem, "ops": words.into_iter().collect::<Vec<_>>()}),
                                        json!({"key": k, "initial_version": iv, "ops": ops.iter().map(|o| json!({"client": o.client, "line": o.line, "reply": o.reply, "call": o.call, "ret": o.ret})).collect::<Vec<_>>(),
                                               "final": [fin.0, fin.1], "decisions": out.decisions, "events": out.events.iter().map(|e| format!("{:?}", e)).collect::<Vec<_>>(),
                                               "explanation": "no order of these operations that respects real time gives the same replies and final state when the same code runs them one at a time"}),
                                    );
                                }
                            }
                        }
                        let mut st = stats.lock().unwrap();
                        if overlapping {
                            st.distinct_overlapping.insert(h);
                            if st.samples.len() < 3 {
                                st.samples.push(json!({"clients": clients.iter().map(|c| format!("{:?}", c)).collect::<Vec<_>>(), "init": format!("{:?}", init),
                                    "history": done.iter().map(|o| json!([o.client, o.line, o.reply, o.call, o.ret])).collect::<Vec<_>>(), "decisions": out.decisions}));
                            }
                        }
                        st.spec_runs = st.spec_runs.max(0) + 0;
                    }
                }
                stats.lock().unwrap().spec_runs += spec.runs;
            });
        }
    });
}

// ------------------------------------------------------------------ (c) free-running stress
fn stress(v: &Verdicts, rounds: usize, seed0: u64, secondary: bool) -> (u64, u64, u64) {
    sched::install_delay_injection(seed0);
    let (mut node, _adm) = mem_node(&[("db", "none")]);
    if secondary {
        // a replica serving clients: same rule (increments are only forwarded there, so no increment rounds)
        node.set_role(ClusterRole::Secoundary);
    }
    let dbs = node.dbs.clone();
    let threads = 8usize;
    let mut cas_rounds = 0u64;
    let mut inc_rounds = 0u64;
    let mut contended = 0u64;
    let mut main = Session::new();
    main.call(&dbs, "use-db db tok");
    let sessions: Vec<std::sync::Mutex<Session>> = (0..threads)
        .map(|_| {
            let mut s = Session::new();
            s.call(&dbs, "use-db db tok");
            std::sync::Mutex::new(s)
        })
        .collect();
    for r in 0..rounds {
        let k = format!("r{}", r);
        let kind = if secondary { [0, 2][r % 2] } else { r % 3 };
        // base state
        let base_sets = r % 4;
        main.call(&dbs, &format!("set {} 0", k));
        for _ in 0..base_sets {
            main.call(&dbs, &format!("set {} 0", k));
        }
        let (_, base) = get_safe(&mut main, &dbs, &k);
        let barrier = std::sync::Barrier::new(threads);
        let results: Vec<Vec<String>> = std::thread::scope(|sc| {
            let hs: Vec<_> = (0..threads)
                .map(|t| {
                    let (dbs, k, barrier, sessions) = (&dbs, &k, &barrier, &sessions);
                    sc.spawn(move || {
                        let mut s = sessions[t].lock().unwrap();
                        barrier.wait();
                        let mut out = vec![];
                        match kind {
                            0 => {
                                let r = s.call_raw(dbs, &format!("set-safe {} {} {}", k, base, 100 + t));
                                out.push(short(&r));
                            }
                            1 => {
                                for _ in 0..5 {
                                    let r = s.call_raw(dbs, &format!("increment {} {}", k, t + 1));
                                    out.push(short(&r));
                                }
                            }
                            _ => {
                                // read-then-CAS retry loop: an atomic CAS makes this a correct counter
                                for _ in 0..3 {
                                    loop {
                                        let (val, ver) = get_safe(&mut s, dbs, k);
                                        let cur: i64 = val.parse().unwrap_or(0);
                                        let r = s.call_raw(dbs, &format!("set-safe {} {} {}", k, ver, cur + 1));
                                        if matches!(r, Response::Ok {}) {
                                            out.push("Ok".into());
                                            break;
                                        }
                                    }
                                }
                            }
                        }
                        s.drain();
                        out
                    })
                })
                .collect();
            hs.into_iter().map(|h| h.join().unwrap()).collect()
        });
        node.pump();
        let (fval, fver) = get_safe(&mut main, &dbs, &k);
        match kind {
            0 => {
                cas_rounds += 1;
                let winners: Vec<usize> = (0..threads).filter(|t| results[*t][0] == "Ok").collect();
                if winners.len() != 1 {
                    v.report(
                        json!({"check": "stress", "problem": if winners.len() > 1 {"two-winners-for-one-base-version"} else {"no-winner"}}),
                        json!({"round": r, "base_version": base, "replies": results, "final": [fval, fver]}),
                    );
                } else {
                    contended += 1;
                    if fval != format!("{}", 100 + winners[0]) {
                        v.report(json!({"check": "stress", "problem": "winner-value-lost"}), json!({"round": r, "replies": results, "final": [fval, fver]}));
                    }
                }
            }
            1 => {
                inc_rounds += 1;
                let want: usize = (0..threads).map(|t| 5 * (t + 1)).sum();
                if fval != want.to_string() || results.iter().flatten().any(|x| x != "Ok") {
                    v.report(json!({"check": "stress", "problem": "acknowledged-increment-lost"}), json!({"round": r, "expected_sum": want, "final": [fval, fver], "replies": results}));
                }
                if fver <= base {
                    v.report(json!({"check": "stress", "problem": "version-did-not-grow"}), json!({"round": r, "base": base, "final": [fval, fver]}));
                }
            }
            _ => {
                let want = threads * 3;
                if fval != want.to_string() {
                    v.report(
                        json!({"check": "stress", "problem": "lost-update-in-cas-retry-counter"}),
                        json!({"round": r, "expected": want, "final": [fval, fver], "explanation": "each client retried get-safe/set-safe until accepted; with an atomic compare-and-set the counter equals the number of accepted writes"}),
                    );
                }
            }
        }
    }
    sched::clear_callback();
    (cas_rounds, inc_rounds, contended)
}

pub fn run(tier: &str) -> i32 {
    quiet_panics();
    let thorough = tier == "thorough";
    let v = Verdicts::load("C02");
    let mut ev = Evidence::new("C02", tier, "exploration");
    let mut rng = Rng::new(seed());
    let (seq_n1, mut seq_classes) = sequential_sweep(&v, &mut rng, thorough, false);
    let (seq_n2, seq_classes2) = sequential_sweep(&v, &mut rng, thorough, true);
    seq_classes.extend(seq_classes2);
    let seq_n = seq_n1 + seq_n2;
    let stats = std::sync::Mutex::new(CtlStats {
        schedules: 0,
        distinct_overlapping: BTreeSet::new(),
        distinct: BTreeSet::new(),
        ops: 0,
        spec_runs: 0,
        stuck: 0,
        undecided: 0,
        samples: vec![],
        outcome_classes: BTreeSet::new(),
    });
    let (mixes, per_mix) = if thorough { (2400, 80) } else { (240, 40) };
    sched::install_callback_inner();
    controlled(&v, seed(), mixes, per_mix, true, &stats, 0);
    let (cas_rounds, inc_rounds, contended) = stress(&v, if thorough { 6000 } else { 600 }, seed(), false);
    let (cas_rounds2, _, contended2) = stress(&v, if thorough { 2000 } else { 200 }, seed() ^ 0x5ec, true);
    let (cas_rounds, contended) = (cas_rounds + cas_rounds2, contended + contended2);
    // no acknowledged write is lost to the snapshot thread either: sessions writing, removing and re-creating their keys
    // while incremental and space-reclaiming snapshots of the database are written (the part C06 owns; here only its
    // in-memory verdict matters: after the writers stopped, every key holds its writer's last acknowledged command)
    let (race_rounds, race_overlapped) = crate::c06::snapshot_race(&v, if thorough { 60 } else { 6 });
    ev.set("writers_racing_the_snapshot_thread", json!({"rounds": race_rounds, "rounds_with_at_least_3_snapshots_completed_while_the_writers_ran": race_overlapped}));
    let st = stats.into_inner().unwrap();
    ev.evaluations = st.schedules + seq_n + cas_rounds + inc_rounds;
    ev.distinct_nontrivial = st.distinct_overlapping.len() as u64;
    ev.rule = format!("{} op mixes (2-3 clients x 1-4 ops of set (numbers, now and then a text)/set-safe/CAS-from-own-read/increment/get-safe/remove on 1-2 keys, initial key absent or at version 0/1/3) x {} seeded schedules each (uniform random and PCT d=3 token passing at the hook points before every Database.map / Watchers.map acquisition); distinct = hash of the (thread,site,call,return) sequence; non-trivial = distinct schedules in which two clients' operations on the same key overlap", mixes, per_mix);
    ev.samples = st.samples.clone();
    ev.set("schedules_run", json!(st.schedules));
    ev.set("distinct_schedules", json!(st.distinct.len()));
    ev.set("client_operations", json!(st.ops));
    ev.set("sequential_reexecutions_by_checker", json!(st.spec_runs));
    ev.set("checker_undecided_keys", json!(st.undecided));
    ev.set("stuck_runs", json!(st.stuck));
    ev.set("outcome_classes", json!(st.outcome_classes.iter().cloned().collect::<Vec<_>>()));
    ev.set("sequential_rule_cases", json!(seq_n));
    ev.set("sequential_rule_classes", json!(seq_classes.iter().cloned().collect::<Vec<_>>()));
    ev.set("stress_rounds", json!({"same_base_cas": cas_rounds, "increments": inc_rounds, "cas_rounds_with_exactly_one_winner": contended, "threads": 8}));
    ev.set("known_findings_seen", json!(v.known_seen()));
    ev.violations = v.violation_count();
    ev.assumptions = vec![
        "sequential specification = the same nun-db code executing the recorded command lines one at a time on a fresh database (plus the sequential sweep of the version rule); linearizability is searched per key (P-compositionality)".into(),
        "interleavings are explored at the granularity of lock acquisitions (hook H3); preemption inside a critical section cannot change outcomes".into(),
        "database strategy none, in-memory only (no tombstones)".into(),
        "the sequential sweep and a quarter of the stress rounds also run on a node whose cluster role is secondary (a replica serving clients; no primary attached, so nothing comes back)".into(),
    ];
    ev.write();
    cleanup_scratch();
    let code = v.finish(tier);
    if code == 0 && (st.distinct_overlapping.len() < 500 || st.stuck > st.schedules / 20) {
        println!("INCONCLUSIVE property=C02 reason=coverage floor not met ({} overlapping schedules, {} stuck)", st.distinct_overlapping.len(), st.stuck);
        return 2;
    }
    println!("C02 {}: {} schedules ({} distinct, {} with overlap on a key), {} ops, {} spec re-executions, {} sequential cases, stress {}+{} rounds, {} violations",
        tier, st.schedules, st.distinct.len(), st.distinct_overlapping.len(), st.ops, st.spec_runs, seq_n, cas_rounds, inc_rounds, v.violation_count());
    code
}
