//! C11 — a crash during a snapshot never damages previously persisted data.
//! Every boundary between file-system calls of the snapshot path is enumerated
//! with strace (the process is killed on entry to the n-th call of each kind
//! inside the window); after each kill a fresh process runs the start-up
//! sequence and every key must hold its pre-snapshot or its being-written pair.
use crate::c06::load_probe;
use crate::common::evidence::Evidence;
use crate::common::kf::Verdicts;
use crate::common::*;
use crate::crash::*;
use serde_json::json;
use std::collections::{BTreeMap, BTreeSet};
use std::sync::Mutex;

fn s(v: &[&str]) -> Vec<String> {
    v.iter().map(|x| x.to_string()).collect()
}

pub fn scenarios(thorough: bool) -> Vec<Scenario> {
    let big = "B".repeat(400);
    let base = s(&["create-db one t1", "use-db one t1", "set ka aaaa", "set kb bbbb", "set kc cccc", "set kd dddd", "snapshot false one"]);
    let mut v = vec![
        Scenario { name: "incremental-new-keys", before: base.clone(), mutate: s(&["set ne 1111", "set nf 2222"]), snap: "snapshot false one".into(), reclaim: false },
        Scenario { name: "incremental-updates", before: base.clone(), mutate: s(&["set ka AAAA", "set kc CCCC"]), snap: "snapshot false one".into(), reclaim: false },
        Scenario { name: "incremental-removes", before: base.clone(), mutate: s(&["remove kb", "remove kd"]), snap: "snapshot false one".into(), reclaim: false },
        Scenario { name: "incremental-mixed", before: base.clone(), mutate: s(&["set ka AAAA", "remove kb", "set ng 3333", "increment cnt 5"]), snap: "snapshot false one".into(), reclaim: false },
        Scenario { name: "reclaim-mixed", before: base.clone(), mutate: s(&["set ka AAAA", "remove kb", "set ng 3333"]), snap: "snapshot true one".into(), reclaim: true },
        Scenario { name: "reclaim-no-change", before: base.clone(), mutate: vec![], snap: "snapshot true one".into(), reclaim: true },
        // a value larger than the writer's buffer goes to the values file before its key record is redirected
        Scenario { name: "incremental-large-update", before: base.clone(), mutate: vec![format!("set ka {}", big), "set kc CCCC".into()], snap: "snapshot false one".into(), reclaim: false },
        // ... and nothing but such values: here a key must never point at bytes that are not in the values file yet
        Scenario { name: "incremental-only-large-updates", before: base.clone(), mutate: vec![format!("set ka {}", big), format!("set kc {}", "C".repeat(700))], snap: "snapshot false one".into(), reclaim: false },
        // the key that owns the last record of the values file (written alone by the snapshot before) gets a shorter value /
        // is removed: whatever the snapshot does to the tail of that file, the old record is still referenced until the key
        // record has been redirected
        Scenario { name: "incremental-shorter-update-of-last-record", before: { let mut b = base.clone(); b.push(format!("set kz {}", "z".repeat(48))); b.push("snapshot false one".into()); b }, mutate: s(&["set kz zz", "set ka AAAA"]), snap: "snapshot false one".into(), reclaim: false },
        Scenario { name: "incremental-remove-of-last-record", before: { let mut b = base.clone(); b.push(format!("set kz {}", "z".repeat(48))); b.push("snapshot false one".into()); b }, mutate: s(&["remove kz", "set ka AAAA"]), snap: "snapshot false one".into(), reclaim: false },
        // every key of the database - the token included - was written or removed since the last snapshot (round 11): an
        // incremental snapshot still only appends and redirects, whatever share of the database is dirty
        Scenario { name: "incremental-every-key-rewritten", before: base.clone(), mutate: vec![format!("set ka {}", "A".repeat(300)), format!("set kb {}", "B".repeat(300)), format!("set kc {}", "C".repeat(300)), format!("set kd {}", "D".repeat(300)), "set $$token t1".into(), "set $connections 1".into()], snap: "snapshot false one".into(), reclaim: false },
        Scenario { name: "incremental-every-key-rewritten-or-removed", before: base.clone(), mutate: vec![format!("set ka {}", "A".repeat(300)), "remove kb".into(), format!("set kc {}", "C".repeat(300)), "remove kd".into(), "set $$token t1".into(), "set $connections 1".into()], snap: "snapshot false one".into(), reclaim: false },
    ];
    if thorough {
        v.push(Scenario { name: "incremental-large-new", before: base.clone(), mutate: vec![format!("set nh {}", big), "set ni 4".into(), "set ka AAAA".into()], snap: "snapshot false one".into(), reclaim: false });
        v.push(Scenario { name: "reclaim-large", before: base.clone(), mutate: vec![format!("set ka {}", big), "remove kc".into()], snap: "snapshot true one".into(), reclaim: true });
        let two = s(&["create-db one t1", "create-db two t2 arbiter", "use-db one t1", "set ka aaaa", "set kb bbbb", "use-db two t2", "set za zzzz", "snapshot false one|two"]);
        v.push(Scenario { name: "incremental-two-dbs", before: two.clone(), mutate: s(&["set za ZZZZ", "use-db one t1", "set ka AAAA"]), snap: "snapshot false one|two".into(), reclaim: false });
        v.push(Scenario { name: "reclaim-two-dbs", before: two, mutate: s(&["set za ZZZZ", "use-db one t1", "remove kb"]), snap: "snapshot true one|two".into(), reclaim: true });
        v.push(Scenario { name: "incremental-update-after-update", before: { let mut b = base.clone(); b.push("set ka a2a2".into()); b.push("snapshot false one".into()); b }, mutate: s(&["set ka a3a3"]), snap: "snapshot false one".into(), reclaim: false });
    }
    v
}

fn payload(sc: &Scenario) -> String {
    json!({"before": sc.before, "mutate": sc.mutate, "snap": sc.snap}).to_string()
}

/// Compares what the restarted node holds with the old and the being-written image.
fn judge(old: &serde_json::Value, new: &serde_json::Value, loaded: &serde_json::Value) -> Option<(String, String)> {
    for (db, oimg) in old.as_object().unwrap() {
        let Some(limg) = loaded.get(db) else {
            return Some(("previously-snapshotted-db-missing".into(), format!("database {} is gone", db)));
        };
        let nimg = new.get(db).unwrap_or(oimg);
        if limg["id"] != oimg["id"] || limg["strategy"] != oimg["strategy"] {
            return Some(("metadata-differs".into(), format!("{}: id/strategy {} {} vs {} {}", db, limg["id"], limg["strategy"], oimg["id"], oimg["strategy"])));
        }
        let (ok, nk, lk) = (oimg["keys"].as_object().unwrap(), nimg["keys"].as_object().unwrap(), limg["keys"].as_object().unwrap());
        let all: BTreeSet<&String> = ok.keys().chain(nk.keys()).chain(lk.keys()).collect();
        for k in all {
            if k == "$connections" {
                continue;
            }
            let (o, n, l) = (ok.get(k), nk.get(k), lk.get(k));
            if l == o || l == n {
                continue;
            }
            let untouched = o == n;
            let class = match (o, n, l) {
                // a key that is being removed is either still there as it was or gone: anything else is another key's bytes
                (Some(ov), None, Some(lv)) if ov[0] != lv[0] => "removed-key-back-with-a-value-it-never-had",
                (Some(_), Some(_), None) => if untouched { "neighbour-key-missing" } else { "previously-persisted-key-missing" },
                (_, _, Some(lv)) => {
                    let val_known = o.map(|x| x[0] == lv[0]).unwrap_or(false) || n.map(|x| x[0] == lv[0]).unwrap_or(false);
                    if untouched { "neighbour-key-changed" } else if !val_known { "value-never-stored" } else { "value-version-pair-never-stored" }
                }
                (None, Some(_), None) | (Some(_), None, None) | (None, None, None) => continue,
            };
            return Some((class.to_string(), format!("{} key {}: old {:?} being-written {:?} loaded {:?}", db, k, o, n, l)));
        }
    }
    None
}

pub struct Stats {
    pub kill_points: u64,
    pub outside_window: u64,
    pub distinct: BTreeSet<String>,
    pub roles: BTreeSet<String>,
    pub samples: Vec<serde_json::Value>,
    pub windows: BTreeMap<String, usize>,
}

pub fn run(tier: &str) -> i32 {
    quiet_panics();
    let thorough = tier == "thorough";
    let v = Verdicts::load("C11");
    let mut ev = Evidence::new("C11", tier, "fault_enumeration");
    if !strace_available() {
        println!("INCONCLUSIVE property=C11 reason=strace is not available");
        return 2;
    }
    let scs = scenarios(thorough);
    let st = Mutex::new(Stats { kill_points: 0, outside_window: 0, distinct: BTreeSet::new(), roles: BTreeSet::new(), samples: vec![], windows: BTreeMap::new() });
    // reference + counting runs, then the list of kill points
    struct Point {
        sc: usize,
        kind: String,
        ordinal: usize,
        rep: usize,
    }
    let mut points: Vec<Point> = vec![];
    let mut refs: Vec<(serde_json::Value, serde_json::Value)> = vec![];
    let reps = if thorough { 3 } else { 2 };
    for (i, sc) in scs.iter().enumerate() {
        let dir = fresh_dir(&format!("c11-ref-{}", i));
        let log = format!("{}/../ref-{}.strace", dir, i);
        let r = run_child("crash-child", &payload(sc), &dir, None, &log);
        let (calls, b, e, _) = parse_log(&log);
        let (old, new) = (parse_images(&r.stdout, "OLD "), parse_images(&r.stdout, "NEW "));
        if !r.status_ok || b.is_none() || e.is_none() || old.is_none() || new.is_none() {
            println!("INCONCLUSIVE property=C11 reason=reference run of scenario {} failed (status_ok={}, markers {:?} {:?})", sc.name, r.status_ok, b, e);
            return 2;
        }
        // the uninterrupted run must itself restore the new image (C06 owns that; here it validates the harness)
        match load_probe(&dir) {
            Ok(out) => {
                let loaded: serde_json::Value = serde_json::from_str(out.trim()).unwrap_or(json!({}));
                if judge(new.as_ref().unwrap(), new.as_ref().unwrap(), &loaded).is_some() {
                    v.inconclusive(&format!("uninterrupted run of {} does not restore its own image", sc.name));
                }
            }
            Err(e) => v.inconclusive(&format!("uninterrupted run of {} cannot be loaded: {}", sc.name, e)),
        }
        refs.push((old.unwrap(), new.unwrap()));
        let (b, e) = (b.unwrap(), e.unwrap());
        let window = &calls[b + 1..e];
        st.lock().unwrap().windows.insert(sc.name.to_string(), window.len());
        let mut per_kind: BTreeMap<String, (usize, usize)> = BTreeMap::new();
        for c in window {
            let ent = per_kind.entry(c.kind.clone()).or_insert((c.ordinal, c.ordinal));
            ent.0 = ent.0.min(c.ordinal);
            ent.1 = ent.1.max(c.ordinal);
        }
        for (k, (lo, hi)) in per_kind {
            // one extra ordinal on each side absorbs run-to-run variation of buffered writes
            for n in lo.saturating_sub(1).max(1)..=hi + 1 {
                for rep in 0..reps {
                    points.push(Point { sc: i, kind: k.clone(), ordinal: n, rep });
                }
            }
        }
    }
    let next = std::sync::atomic::AtomicUsize::new(0);
    std::thread::scope(|scope| {
        for w in 0..workers() {
            let (next, points, scs, refs, st, v) = (&next, &points, &scs, &refs, &st, &v);
            scope.spawn(move || loop {
                let i = next.fetch_add(1, std::sync::atomic::Ordering::SeqCst);
                if i >= points.len() {
                    break;
                }
                let p = &points[i];
                let sc = &scs[p.sc];
                let dir = fresh_dir(&format!("c11-w{}", w));
                let log = format!("{}.strace", dir);
                let _r = run_child("crash-child", &payload(sc), &dir, Some((&p.kind, p.ordinal)), &log);
                let (calls, b, e, killed) = parse_log(&log);
                let in_window = killed && b.is_some() && e.is_none() && b.unwrap() + 1 < calls.len();
                if !in_window {
                    st.lock().unwrap().outside_window += 1;
                    let _ = std::fs::remove_dir_all(&dir);
                    let _ = std::fs::remove_file(&log);
                    continue;
                }
                let b = b.unwrap();
                let killed_call = calls.last().unwrap().clone();
                let done = structural_done(&calls[..calls.len() - 1], b);
                let completed_in_window = calls.len() - 1 - (b + 1);
                let (old, new) = &refs[p.sc];
                let verdict: Option<(String, String)> = match load_probe(&dir) {
                    Err(why) => Some((format!("restart-fails:{}", why.split(':').next().unwrap_or("")), why)),
                    Ok(out) => {
                        let loaded: serde_json::Value = serde_json::from_str(out.trim()).unwrap_or(json!({}));
                        judge(old, new, &loaded)
                    }
                };
                {
                    let mut s = st.lock().unwrap();
                    s.kill_points += 1;
                    s.distinct.insert(format!("{}|{}:{}|{}", sc.name, killed_call.kind, killed_call.role, completed_in_window));
                    s.roles.insert(format!("{}:{}", killed_call.kind, killed_call.role));
                    if s.samples.len() < 4 && p.rep == 0 && completed_in_window > 2 {
                        s.samples.push(json!({"scenario": sc.name, "killed_on_entry_to": killed_call.line, "calls_completed_in_window": completed_in_window,
                            "window_so_far": calls[b + 1..calls.len() - 1].iter().map(|c| format!("{}:{}", c.kind, c.role)).collect::<Vec<_>>(),
                            "verdict": verdict.as_ref().map(|v| v.0.clone()).unwrap_or("every key holds its old or its being-written pair".into())}));
                    }
                }
                if let Some((failure, detail)) = verdict {
                    let raw_failure = failure.clone();
                    // collapse to four outcome classes (which key is hit depends on hash-map order)
                    let failure = if failure.starts_with("restart-fails") {
                        "restart-fails"
                    } else if failure.contains("db-missing") {
                        "previously-snapshotted-db-missing"
                    } else if failure.ends_with("key-missing") {
                        "persisted-key-lost"
                    } else if failure == "metadata-differs" {
                        "metadata-differs"
                    } else if failure == "removed-key-back-with-a-value-it-never-had" {
                        "removed-key-back-with-a-value-it-never-had"
                    } else {
                        "key-holds-a-pair-that-was-never-stored"
                    };
                    // where every written value exceeds the writer's buffer, a value is in the file before its key record
                    // points at it: a loaded value that is neither the old nor the new one is not the known two-step update
                    let sig = if sc.name == "incremental-only-large-updates" && raw_failure == "value-never-stored" {
                        json!({"check": "crash", "snapshot": "incremental", "killed_before": format!("{}:{}", killed_call.kind, killed_call.role), "structural_done": done, "failure": "key-holds-a-value-it-never-had", "every_written_value_exceeds_the_writer_buffer": true})
                    } else {
                        json!({"check": "crash", "snapshot": if sc.reclaim {"reclaim"} else {"incremental"}, "killed_before": format!("{}:{}", killed_call.kind, killed_call.role), "structural_done": done, "failure": failure})
                    };
                    v.report(sig, json!({"scenario": sc.name, "mutate": sc.mutate, "inject": format!("{}:when={}", p.kind, p.ordinal), "killed_on_entry_to": killed_call.line,
                        "window_calls_completed": calls[b + 1..calls.len() - 1].iter().map(|c| c.line.clone()).collect::<Vec<_>>(), "detail": detail, "old_image": old, "being_written": new}));
                }
                let _ = std::fs::remove_dir_all(&dir);
                let _ = std::fs::remove_file(&log);
            });
        }
    });
    let s = st.into_inner().unwrap();
    ev.evaluations = s.kill_points;
    ev.distinct_nontrivial = s.distinct.len() as u64;
    ev.exhaustive = Some(true);
    ev.rule = format!("{} scenarios (clean snapshot of a 'before' dataset, mutations, interrupted {{incremental|reclaiming}} snapshot); for every kind of file-system call ({}) seen between the window markers of a counting run, the child is re-run {} times per ordinal with `strace -e inject=<kind>:signal=KILL:when=<n>` (kill on entry, call not executed); runs whose kill fell outside the window are discarded ({}); distinct_nontrivial = distinct (scenario, killed call kind:file role, number of calls completed in the window) kill points judged", scs.len(), TRACE_SET, reps, s.outside_window);
    ev.samples = s.samples.clone();
    ev.set("window_sizes_in_calls", json!(s.windows));
    ev.set("killed_call_roles", json!(s.roles.iter().cloned().collect::<Vec<_>>()));
    ev.set("kills_outside_window_discarded", json!(s.outside_window));
    ev.set("known_findings_seen", json!(v.known_seen()));
    ev.violations = v.violation_count();
    ev.assumptions = vec![
        "kill = SIGKILL at a system-call boundary: user-space buffers are lost, completed calls are durable (no power loss, no torn single write)".into(),
        "old and being-written images come from the uninterrupted run of the same deterministic scenario".into(),
        "restart = the start-up sequence of src/bin/main.rs mirrored by the harness, run in a fresh process".into(),
    ];
    ev.write();
    cleanup_scratch();
    let code = v.finish(tier);
    if code == 0 && (s.kill_points < 100 || v.inconclusive_count() > 0) {
        println!("INCONCLUSIVE property=C11 reason=coverage floor not met ({} kill points) or harness self-check failed", s.kill_points);
        return 2;
    }
    println!("C11 {}: {} scenarios, {} kill points judged ({} distinct, {} outside window discarded), {} violations", tier, scs.len(), s.kill_points, s.distinct.len(), s.outside_window, v.violation_count());
    code
}
