//! C15 — pending-operation accounting is exact and acknowledgements are idempotent.
//! (a) every sequence of register/ack events up to a bound is replayed on the
//! real bookkeeping and compared with a set-based model after every event;
//! (b) racing acknowledgements from several threads; (c) the same accounting
//! observed end-to-end in the simulated cluster (see cluster.rs).
use crate::common::evidence::Evidence;
use crate::common::kf::Verdicts;
use crate::common::rng::Rng;
use crate::common::*;
use nundb::bo::Databases;
use serde_json::json;
use std::collections::{BTreeMap, BTreeSet};
use std::sync::{Arc, Mutex};

#[derive(Clone, Copy, Debug, PartialEq)]
pub enum Ev {
    Reg(u64, usize),
    Ack(u64, usize),
    /// the node wins an election (a join, a forced election, a fail-over): nothing about who still owes an ack changes
    Win,
    /// a member leaves the cluster (leave / replicate-leave, or its link died). Whatever the node does about what the
    /// leaver still owed, an operation that another targeted node has not acknowledged stays pending
    Leave(usize),
}

const NODES: [&str; 4] = ["n-a:1", "n-b:2", "n-c:3", "foreign:9"];

fn new_dbs() -> Arc<Databases> {
    let (s1, _r1) = futures::channel::mpsc::channel::<String>(10);
    let (s2, _r2) = futures::channel::mpsc::channel::<String>(10);
    Arc::new(Databases::new("a".into(), "p".into(), "self:0".into(), "self:0".into(), s1, s2, std::collections::HashMap::new(), 1, true))
}

#[derive(Default, Clone)]
struct ModelOp {
    targeted: BTreeSet<usize>,
    acked: BTreeSet<usize>,
}

/// Returns Some(problem) on the first disagreement.
fn replay(evs: &[Ev], classes: &mut BTreeSet<String>) -> Option<(serde_json::Value, serde_json::Value)> {
    let dbs = new_dbs();
    for n in 0..3 {
        dbs.add_cluster_member(nundb::bo::ClusterMember { name: NODES[n].to_string(), role: nundb::bo::ClusterRole::Secoundary, sender: None });
    }
    let mut model: BTreeMap<u64, ModelOp> = BTreeMap::new();
    let mut trace = vec![];
    let mut unspecified = false;
    // operations targeted at a node that left since: their counters may or may not still include the leaver
    let mut loose: BTreeSet<u64> = BTreeSet::new();
    let mut left: BTreeSet<usize> = BTreeSet::new();
    for (i, e) in evs.iter().enumerate() {
        let class;
        match e {
            Ev::Leave(n) => {
                left.insert(*n);
                let touched: Vec<u64> = model.iter().filter(|(_, m)| m.targeted.contains(n)).map(|(o, _)| *o).collect();
                class = if touched.is_empty() { "member-leaves-owing-nothing" } else if touched.iter().any(|o| model[o].acked.contains(n)) { "member-leaves-after-acknowledging" } else { "member-leaves-before-acknowledging" };
                for o in touched {
                    loose.insert(o);
                }
                if let Err(p) = std::panic::catch_unwind(std::panic::AssertUnwindSafe(|| dbs.remove_cluster_member(&NODES[*n].to_string()))) {
                    return Some((json!({"check": "pending", "problem": "panic", "event": class}), json!({"events": format!("{:?}", evs), "at": i, "msg": panic_msg(&p)})));
                }
                trace.push(json!([format!("{:?}", e), "left"]));
            }
            Ev::Win => {
                class = "node-wins-an-election";
                if let Err(p) = std::panic::catch_unwind(std::panic::AssertUnwindSafe(|| nundb::election_ops::election_win(&dbs))) {
                    return Some((json!({"check": "pending", "problem": "panic", "event": class}), json!({"events": format!("{:?}", evs), "at": i, "msg": panic_msg(&p)})));
                }
                trace.push(json!([format!("{:?}", e), "won"]));
            }
            Ev::Reg(op, n) => {
                let m = model.entry(*op).or_default();
                if m.targeted.contains(n) {
                    // registering the same still-pending (operation, node) pair twice never happens in the
                    // replication loop and the statement does not say what it means
                    unspecified = true;
                    class = "register-duplicate";
                } else {
                    class = if m.targeted.is_empty() { "register-first" } else { "register-another-node" };
                    m.targeted.insert(*n);
                }
                let r = std::panic::catch_unwind(std::panic::AssertUnwindSafe(|| dbs.register_pending_opp(*op, format!("msg-{}", op), &NODES[*n].to_string())));
                match r {
                    Ok(msg) => {
                        trace.push(json!([format!("{:?}", e), msg]));
                        if msg != format!("rp {} msg-{}", op, op) {
                            return Some((json!({"check": "pending", "problem": "message-to-replicate-differs", "event": "register"}), json!({"events": format!("{:?}", evs), "at": i, "trace": trace})));
                        }
                    }
                    Err(p) => return Some((json!({"check": "pending", "problem": "panic", "event": "register"}), json!({"events": format!("{:?}", evs), "at": i, "msg": panic_msg(&p)}))),
                }
            }
            Ev::Ack(op, n) => {
                let expected_counts;
                match model.get_mut(op) {
                    None => {
                        class = "ack-unknown-op";
                        expected_counts = false;
                    }
                    Some(m) => {
                        if !m.targeted.contains(n) {
                            class = "ack-from-untargeted-node";
                            expected_counts = false;
                        } else if m.acked.contains(n) {
                            class = "ack-duplicate";
                            expected_counts = false;
                        } else {
                            m.acked.insert(*n);
                            class = if m.acked == m.targeted { "ack-completes" } else { "ack-partial" };
                            expected_counts = true;
                        }
                    }
                }
                if model.get(op).map(|m| m.acked == m.targeted && !m.targeted.is_empty()).unwrap_or(false) {
                    model.remove(op);
                }
                let r = std::panic::catch_unwind(std::panic::AssertUnwindSafe(|| dbs.acknowledge_pending_opp(*op, &NODES[*n].to_string())));
                match r {
                    Ok(counted) => {
                        trace.push(json!([format!("{:?}", e), counted]));
                        if !unspecified && !loose.contains(op) && counted != expected_counts {
                            return Some((json!({"check": "pending", "problem": if counted {"ack-counted-although-it-must-change-nothing"} else {"valid-ack-not-counted"}, "event": class}), json!({"events": format!("{:?}", evs), "at": i, "trace": trace})));
                        }
                    }
                    Err(p) => return Some((json!({"check": "pending", "problem": "panic", "event": class}), json!({"events": format!("{:?}", evs), "at": i, "msg": panic_msg(&p)}))),
                }
            }
        }
        classes.insert(class.to_string());
        // an operation that only nodes that left still owe: the statement does not say whether it stays pending
        if model.iter().any(|(o, m)| loose.contains(o) && m.targeted.difference(&m.acked).all(|n| left.contains(n))) {
            unspecified = true;
        }
        // a node that left and is targeted again: a new membership, outside this model
        if let Ev::Reg(_, n) = e {
            if left.contains(n) {
                unspecified = true;
            }
        }
        if unspecified {
            // only the weak invariants from here on
            let n = dbs.pending_opps.read().unwrap().len();
            if n > 3 {
                return Some((json!({"check": "pending", "problem": "more-pending-than-operations"}), json!({"events": format!("{:?}", evs), "at": i})));
            }
            continue;
        }
        // ---- compare with the model after every event
        let pend: BTreeSet<u64> = dbs.pending_opps.read().unwrap().keys().cloned().collect();
        let want: BTreeSet<u64> = model.keys().cloned().collect();
        if pend != want {
            let stuck = pend.difference(&want).next().is_some();
            return Some((
                json!({"check": "pending", "problem": if stuck {"operation-reported-pending-although-all-targeted-nodes-acknowledged"} else {"operation-not-pending-although-a-targeted-node-has-not-acknowledged"}, "event": class}),
                json!({"events": format!("{:?}", evs), "at": i, "pending": pend, "model": want, "trace": trace}),
            ));
        }
        for (op, m) in &model {
            let c = dbs.get_pending_opp_copy(*op).unwrap();
            if loose.contains(op) {
                continue;
            }
            if c.count_replication() != m.targeted.len() || c.count_acknowledged() != m.acked.len() || c.is_full_acknowledged() {
                return Some((
                    json!({"check": "pending", "problem": "counters-differ-from-model", "event": class}),
                    json!({"events": format!("{:?}", evs), "at": i, "op": op, "replicate_count": c.count_replication(), "ack_count": c.count_acknowledged(), "model_targeted": m.targeted, "model_acked": m.acked}),
                ));
            }
        }
    }
    None
}

fn alphabet() -> Vec<Ev> {
    let mut a = vec![];
    for op in [1u64, 2] {
        for n in 0..2 {
            a.push(Ev::Reg(op, n));
        }
        for n in [0usize, 1, 3] {
            a.push(Ev::Ack(op, n));
        }
    }
    a.push(Ev::Ack(7, 0)); // unknown operation
    a.push(Ev::Win);
    a.push(Ev::Leave(0));
    a
}

pub fn run(tier: &str) -> i32 {
    quiet_panics();
    let thorough = tier == "thorough";
    let v = Verdicts::load("C15");
    let mut ev = Evidence::new("C15", tier, "exploration");
    nundb::verif::set_dir(Some(fresh_dir("c15")));
    let alpha = alphabet();
    let depth = if thorough { 7 } else { 6 };
    let total: usize = (1..=depth).map(|d| alpha.len().pow(d as u32)).sum();
    let nw = workers();
    let classes = std::sync::Mutex::new(BTreeSet::new());
    let distinct_orders = std::sync::atomic::AtomicU64::new(0);
    let evaluated = std::sync::atomic::AtomicU64::new(0);
    let samples = std::sync::Mutex::new(vec![]);
    std::thread::scope(|sc| {
        for w in 0..nw {
            let (v, alpha, classes, distinct_orders, evaluated, samples) = (&v, &alpha, &classes, &distinct_orders, &evaluated, &samples);
            sc.spawn(move || {
                let mut local = BTreeSet::new();
                let mut n_local = 0u64;
                let mut nontrivial = 0u64;
                // sequence number i encodes the sequence in base |alpha| with a length prefix
                let mut i = w;
                let mut offsets = vec![];
                let mut acc = 0usize;
                for d in 1..=depth {
                    offsets.push((acc, d));
                    acc += alpha.len().pow(d as u32);
                }
                while i < total {
                    let (off, d) = *offsets.iter().rev().find(|(o, _)| *o <= i).unwrap();
                    let mut x = i - off;
                    let mut evs = Vec::with_capacity(d);
                    for _ in 0..d {
                        evs.push(alpha[x % alpha.len()]);
                        x /= alpha.len();
                    }
                    n_local += 1;
                    let has_reg = evs.iter().any(|e| matches!(e, Ev::Reg(..)));
                    let has_ack_after = evs.iter().position(|e| matches!(e, Ev::Reg(..))).map(|p| evs[p..].iter().any(|e| matches!(e, Ev::Ack(..)))).unwrap_or(false);
                    if has_reg && has_ack_after {
                        nontrivial += 1;
                    }
                    if let Some((sig, rp)) = replay(&evs, &mut local) {
                        v.report(sig, rp);
                    }
                    if w == 0 && n_local % 40_000 == 1 && d >= 4 {
                        let mut s = samples.lock().unwrap();
                        if s.len() < 4 {
                            s.push(json!(format!("{:?}", evs)));
                        }
                    }
                    i += nw;
                }
                classes.lock().unwrap().extend(local);
                distinct_orders.fetch_add(nontrivial, std::sync::atomic::Ordering::SeqCst);
                evaluated.fetch_add(n_local, std::sync::atomic::Ordering::SeqCst);
            });
        }
    });
    // random longer sequences over 3 operations x 3 nodes
    let mut rng = Rng::new(seed());
    let n_random = if thorough { 400_000 } else { 40_000 };
    let mut local = BTreeSet::new();
    for _ in 0..n_random {
        let len = rng.range(5, 16);
        let evs: Vec<Ev> = (0..len)
            .map(|_| {
                let op = rng.range(1, 3) as u64;
                if rng.chance(2, 5) {
                    Ev::Reg(op, rng.below(3))
                } else if rng.chance(1, 8) {
                    Ev::Leave(rng.below(3))
                } else {
                    Ev::Ack(*rng.pick(&[op, op, op, 9]), rng.below(4))
                }
            })
            .collect();
        if let Some((sig, rp)) = replay(&evs, &mut local) {
            v.report(sig, rp);
        }
    }
    classes.lock().unwrap().extend(local);
    // racing acknowledgements: 4 threads ack every (op,node) pair, with duplicates, in different orders
    let race_rounds = if thorough { 20_000 } else { 2_000 };
    let mut race_bad = 0;
    for r in 0..race_rounds {
        let dbs = new_dbs();
        let ops: Vec<u64> = (1..=3).collect();
        for op in &ops {
            for n in 0..3 {
                dbs.register_pending_opp(*op, "m".into(), &NODES[n].to_string());
            }
        }
        let counted = std::sync::atomic::AtomicU64::new(0);
        let panicked: Mutex<Option<String>> = Mutex::new(None);
        std::thread::scope(|sc| {
            for t in 0..4u64 {
                let (dbs, ops, counted, panicked) = (&dbs, &ops, &counted, &panicked);
                sc.spawn(move || {
                    let mut rng = Rng::new(r as u64 * 4 + t);
                    let mut pairs: Vec<(u64, usize)> = ops.iter().flat_map(|o| (0..4).map(move |n| (*o, n))).collect();
                    for i in (1..pairs.len()).rev() {
                        pairs.swap(i, rng.below(i + 1));
                    }
                    for (o, n) in pairs {
                        // a panic in the accounting itself (it would also poison the pending map) is a finding, not a harness error
                        match std::panic::catch_unwind(std::panic::AssertUnwindSafe(|| dbs.acknowledge_pending_opp(o, &NODES[n].to_string()))) {
                            Ok(true) => {
                                counted.fetch_add(1, std::sync::atomic::Ordering::SeqCst);
                            }
                            Ok(false) => {}
                            Err(e) => {
                                panicked.lock().unwrap().get_or_insert(panic_msg(&e));
                                return;
                            }
                        }
                    }
                });
            }
        });
        if let Some(msg) = panicked.into_inner().unwrap() {
            v.report(json!({"check": "pending", "problem": "acknowledgement-panicked", "event": "racing-acks"}), json!({"round": r, "panic": msg, "pending_map_poisoned": dbs.pending_opps.is_poisoned()}));
            break;
        }
        let left = dbs.pending_opps.read().unwrap().len();
        let c = counted.into_inner();
        if left != 0 || c != 9 {
            race_bad += 1;
            v.report(json!({"check": "pending", "problem": if left != 0 {"pending-not-zero-after-all-acks"} else {"acks-counted-more-or-less-than-once-per-node"}, "event": "racing-acks"}), json!({"round": r, "pending_left": left, "acks_counted": c, "expected_counted": 9}));
        }
    }
    let _ = race_bad;
    // an acknowledgement racing the registration of the same operation for another node (the replication loop registers
    // node by node while the first node may already answer): whichever order they take effect in, the operation is still
    // pending afterwards, because the second node has not acknowledged
    let reg_rounds = if thorough { 400_000 } else { 60_000 };
    let mut reg_seen_both_orders = (0u64, 0u64);
    {
        let dbs = new_dbs();
        let go = std::sync::atomic::AtomicU64::new(0);
        let done = std::sync::atomic::AtomicU64::new(0);
        let stop = std::sync::atomic::AtomicBool::new(false);
        let (n0, n1) = (NODES[0].to_string(), NODES[1].to_string());
        std::thread::scope(|sc| {
            // the acknowledging session of node 0
            sc.spawn(|| {
                let mut seen = 0u64;
                loop {
                    let g = go.load(std::sync::atomic::Ordering::Acquire);
                    if stop.load(std::sync::atomic::Ordering::Acquire) {
                        break;
                    }
                    if g == seen {
                        std::hint::spin_loop();
                        continue;
                    }
                    seen = g;
                    dbs.acknowledge_pending_opp(g, &n0);
                    done.fetch_add(1, std::sync::atomic::Ordering::AcqRel);
                }
            });
            for op in 1..=reg_rounds as u64 {
                dbs.register_pending_opp(op, "m".into(), &n0);
                let before = done.load(std::sync::atomic::Ordering::Acquire);
                go.store(op, std::sync::atomic::Ordering::Release);
                // a few spins so that the two calls overlap in varying ways
                for _ in 0..(op % 7) * 3 {
                    std::hint::spin_loop();
                }
                dbs.register_pending_opp(op, "m".into(), &n1);
                while done.load(std::sync::atomic::Ordering::Acquire) == before {
                    std::hint::spin_loop();
                }
                let copy = dbs.get_pending_opp_copy(op);
                match &copy {
                    None => {
                        v.report(json!({"check": "pending", "problem": "operation-not-pending-although-a-targeted-node-has-not-acknowledged", "event": "ack-racing-registration"}), json!({"round": op, "registered_for": [n0, n1], "acknowledged_by": [n0]}));
                        break;
                    }
                    Some(m) => {
                        // which order took effect: registered for both (count 2) or re-registered after completion (count 1)
                        if m.count_replication() == 2 {
                            reg_seen_both_orders.0 += 1;
                        } else {
                            reg_seen_both_orders.1 += 1;
                        }
                    }
                }
                // clean up: the second node acknowledges
                dbs.acknowledge_pending_opp(op, &n1);
                dbs.acknowledge_pending_opp(op, &n0);
            }
            stop.store(true, std::sync::atomic::Ordering::Release);
        });
    }
    // free-running end to end: the real replication loop on its own thread, one secondary that acknowledges every message
    // the instant it sees it (on another thread, as its link does): when everything has been acknowledged nothing is pending
    let fast_ack_ops = if thorough { 20_000 } else { 3_000 };
    let mut fast_ack_done = 0u64;
    {
        use futures::channel::mpsc::channel;
        use nundb::bo::{ClusterMember, ClusterRole};
        let dir = fresh_dir("c15-fastack");
        nundb::verif::set_dir(Some(dir.clone()));
        let addr = "10.3.0.1:3014".to_string();
        let (repl_tx, repl_rx) = channel::<String>(1 << 20);
        let (sup_tx, _sup_rx) = channel::<String>(1000);
        let dbs = Arc::new(Databases::new("admin".into(), "pwd".into(), addr.clone(), addr.clone(), sup_tx, repl_tx, std::collections::HashMap::new(), 1000, true));
        dbs.node_state.store(ClusterRole::Primary as usize, std::sync::atomic::Ordering::SeqCst);
        {
            let (d, dir1) = (dbs.clone(), dir.clone());
            std::thread::spawn(move || {
                nundb::verif::set_dir(Some(dir1));
                let _ = std::panic::catch_unwind(std::panic::AssertUnwindSafe(|| futures::executor::block_on(nundb::replication_ops::start_replication_thread(repl_rx, d))));
            });
        }
        let member = "10.3.0.2:3014".to_string();
        let (mtx, mut mrx) = channel::<String>(1 << 20);
        dbs.add_cluster_member(ClusterMember { name: member.clone(), role: ClusterRole::Secoundary, sender: Some(mtx) });
        let stop = std::sync::atomic::AtomicBool::new(false);
        let acked = std::sync::atomic::AtomicU64::new(0);
        let mut adm = crate::common::session::Session::new();
        adm.call(&dbs, "auth admin pwd");
        adm.call(&dbs, "create-db fa tok");
        adm.call(&dbs, "use-db fa tok");
        std::thread::scope(|sc| {
            let (dbs2, stop2, acked2, member2) = (dbs.clone(), &stop, &acked, member.clone());
            sc.spawn(move || {
                let mut link = crate::common::session::Session::new();
                link.call(&dbs2, "auth admin pwd");
                loop {
                    match mrx.try_next() {
                        Ok(Some(m)) => {
                            if let Some(rest) = m.strip_prefix("rp ") {
                                let id = rest.split(' ').next().unwrap_or("0");
                                link.call_raw(&dbs2, &format!("ack {} {}", id, member2));
                                acked2.fetch_add(1, std::sync::atomic::Ordering::AcqRel);
                            }
                        }
                        _ => {
                            if stop2.load(std::sync::atomic::Ordering::Acquire) {
                                break;
                            }
                            std::hint::spin_loop();
                        }
                    }
                }
            });
            let big = "v".repeat(200_000);
            for i in 0..fast_ack_ops {
                // now and then a large value: the loop is busy with the message for longer
                if i % 50 == 0 {
                    adm.call(&dbs, &format!("set k{} {}", i % 7, big));
                } else {
                    adm.call(&dbs, &format!("set k{} v{}", i % 7, i));
                }
                fast_ack_done += 1;
            }
            // everything sent has been acknowledged when the counts meet and stay there
            let deadline = std::time::Instant::now() + std::time::Duration::from_secs(30);
            let mut last = (u64::MAX, std::time::Instant::now());
            loop {
                let a = acked.load(std::sync::atomic::Ordering::Acquire);
                if a != last.0 {
                    last = (a, std::time::Instant::now());
                }
                if (a >= fast_ack_done && last.1.elapsed() > std::time::Duration::from_millis(300)) || std::time::Instant::now() > deadline {
                    break;
                }
                std::thread::sleep(std::time::Duration::from_millis(5));
            }
            stop.store(true, std::sync::atomic::Ordering::Release);
        });
        let a = acked.load(std::sync::atomic::Ordering::Acquire);
        let pending = dbs.pending_opps.read().map(|p| p.len()).unwrap_or(usize::MAX);
        if a < fast_ack_done {
            v.inconclusive(&format!("fast-ack part: only {} of {} messages reached the secondary within 30 s", a, fast_ack_done));
        } else if pending != 0 {
            v.report(json!({"check": "pending", "problem": "operations-left-pending-although-every-message-was-acknowledged", "event": "secondary-acknowledges-at-once"}), json!({"writes": fast_ack_done, "acknowledgements_sent": a, "left_pending": pending}));
        }
    }
    // observable through the client command too
    {
        let dbs = new_dbs();
        dbs.register_pending_opp(5, "m".into(), &NODES[0].to_string());
        let s = dbs.get_oplog_state();
        if !s.starts_with("pending_ops: 1,") {
            v.report(json!({"check": "pending", "problem": "metrics-state-does-not-report-pending-count"}), json!({"state": s}));
        }
    }
    let cl = crate::cluster::c15_end_to_end(&v, tier);
    ev.evaluations = evaluated.load(std::sync::atomic::Ordering::SeqCst) + n_random as u64 + race_rounds as u64 + cl.runs;
    ev.distinct_nontrivial = distinct_orders.load(std::sync::atomic::Ordering::SeqCst);
    ev.exhaustive = Some(true);
    ev.rule = format!("all {} sequences of 1-{} events over register(op, node) / ack(op, node) for 2 operations x 2 targeted nodes + a never-targeted node + an unknown operation + the node winning an election + a targeted member leaving the cluster (exhaustive; after a leave only 'an operation another targeted node still owes stays pending' is demanded), {} random sequences of 5-16 events over 3 operations x 3 nodes + foreign/unknown acks, {} rounds of 4 threads racing to acknowledge 9 (op,node) pairs with duplicates, {} rounds of an acknowledgement racing the registration of the same operation for a second node (ack took effect first in {}, registration first in {}), {} writes through the real replication loop on its own thread with a secondary that acknowledges each message at once from another thread (nothing may be left pending), and {} simulated-cluster runs whose pending count must be 0 at quiescence; after every event the real pending set and counters are compared with a set-based model; distinct_nontrivial = exhaustively enumerated distinct event orders that contain an acknowledgement after a registration", total, depth, n_random, race_rounds, reg_rounds, reg_seen_both_orders.1, reg_seen_both_orders.0, fast_ack_done, cl.runs);
    ev.samples = samples.into_inner().unwrap();
    ev.set("event_classes_seen", json!(classes.lock().unwrap().iter().cloned().collect::<Vec<_>>()));
    ev.set("cluster_runs_with_pending_zero_at_quiescence", json!(cl.runs));
    ev.set("cluster_acks_observed", json!(cl.acks));
    ev.set("known_findings_seen", json!(v.known_seen()));
    ev.violations = v.violation_count();
    ev.assumptions = vec![
        "registering the same still-pending (operation, node) pair twice is treated as unspecified (the replication loop registers each pair once); such sequences are only checked for panics and a bounded pending set".into(),
        "an acknowledgement that arrives before its registration counts as unknown/foreign".into(),
    ];
    ev.write();
    cleanup_scratch();
    let code = v.finish(tier);
    println!("C15 {}: {} exhaustive sequences (depth {}), {} random, {} race rounds, {} cluster runs, {} violations", tier, total, depth, n_random, race_rounds, cl.runs, v.violation_count());
    code
}
