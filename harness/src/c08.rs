//! C08 — secure ($$) keys are invisible and immutable to non-administrators.
//! Two-run noninterference monitor: the same non-admin command sequence is run
//! on two nodes that differ only in the contents of $$ keys; every reply and
//! pushed line must be identical, and the $$ keys of each node unchanged.
use crate::c02::mem_node;
use crate::common::evidence::Evidence;
use crate::common::kf::Verdicts;
use crate::common::node::Node;
use crate::common::rng::Rng;
use crate::common::session::{resp_str, Session};
use crate::common::*;
use serde_json::json;
use std::collections::{BTreeMap, BTreeSet};
use std::sync::Mutex;

#[derive(Clone, Copy, Debug, PartialEq)]
pub enum Kind {
    DbToken,
    UserToken,
    NoDb,
}

fn normalize(s: &str) -> String {
    // 15+ digit runs are op ids / timestamps
    let mut out = String::new();
    let mut run = String::new();
    for ch in s.chars() {
        if ch.is_ascii_digit() {
            run.push(ch);
        } else {
            if run.len() >= 15 {
                out.push('N');
            } else {
                out.push_str(&run);
            }
            run.clear();
            out.push(ch);
        }
    }
    if run.len() >= 15 {
        out.push('N');
    } else {
        out.push_str(&run);
    }
    out
}

/// Builds one twin. `side` selects the secret contents.
fn build(side: usize, kind: Kind, with_conflict: bool) -> Node {
    let (node, mut adm) = mem_node(&[("db", "none"), ("adb", "arbiter")]);
    let dbs = node.dbs.clone();
    let sec = if side == 0 { "alpha-secret-0" } else { "bravo-secret-1" };
    for db in ["db", "adb"] {
        adm.call(&dbs, &format!("use-db {} tok", db));
        adm.call(&dbs, "create-user u utok");
        adm.call(&dbs, "set-permissions u rwix *");
        adm.call(&dbs, &format!("create-user x xtok-{}", sec));
        adm.call(&dbs, &format!("set-permissions x {} *", if side == 0 { "r" } else { "rw" }));
        adm.call(&dbs, &format!("set $$secret {}", sec));
        if side == 0 {
            adm.call(&dbs, "set $$only1 present");
        } else {
            // same key count/shape is not required; existence differs on purpose
        }
        adm.call(&dbs, "set secret public");
        adm.call(&dbs, "set $secret onedollar");
        match kind {
            Kind::UserToken => {
                // the db token is not the credential of this session: it may differ
                adm.call(&dbs, &format!("set $$token tok-{}", sec));
            }
            Kind::DbToken | Kind::NoDb => {
                adm.call(&dbs, &format!("set $$user_u utok-{}", sec));
                adm.call(&dbs, &format!("set-permissions u {} a*", if side == 0 { "r" } else { "w" }));
            }
        }
    }
    if with_conflict {
        // an unresolved conflict on a secure key of the arbiter database, created by administrators
        let mut arb = Session::new();
        arb.call(&dbs, "auth admin pwd");
        let tok = if kind == Kind::UserToken { format!("tok-{}", sec) } else { "tok".to_string() };
        arb.call(&dbs, &format!("use-db adb {}", tok));
        arb.call(&dbs, "arbiter");
        adm.call(&dbs, &format!("use-db adb {}", tok));
        adm.call(&dbs, &format!("set $$secret {}-b", sec));
        adm.call(&dbs, &format!("set-safe $$secret 0 newer-{}", sec));
        arb.call(&dbs, "unwatch-all");
    }
    node
}

/// Name of the conflict record an administrator conflict on $$secret left behind (a client can learn it with `keys $conflicts`).
fn conflict_key(node: &Node) -> String {
    let map = node.dbs.map.read().unwrap();
    if let Some(d) = map.get("adb") {
        for k in d.map.read().unwrap().keys() {
            if k.starts_with("$conflicts_$$secret") {
                return k.clone();
            }
        }
    }
    "$conflicts_none".to_string()
}

fn secure_dump(node: &Node) -> BTreeMap<String, String> {
    let mut out = BTreeMap::new();
    let map = node.dbs.map.read().unwrap();
    for (n, d) in map.iter() {
        for (k, v) in d.map.read().unwrap().iter() {
            if k.starts_with("$$") {
                out.insert(format!("{}/{}", n, k), format!("{:?} v{} {:?}", v.value, v.version, v.state));
            }
        }
    }
    out
}

fn login(kind: Kind, s: &mut Session, node: &Node) {
    match kind {
        Kind::DbToken => {
            s.call(&node.dbs, "use-db db tok");
        }
        Kind::UserToken => {
            s.call(&node.dbs, "use-db db u utok");
        }
        Kind::NoDb => {}
    }
}

const KEYS: [&str; 9] = ["$$token", "$$user_x", "$$permission_$x", "$$secret", "$$only1", "$secret", "secret", "$$", "$$user_u"];
const PATS: [&str; 8] = ["", "*", "$$*", "*$$", "$$", "secret", "*secret", "$*"];

fn templates() -> Vec<String> {
    let mut t: Vec<String> = vec![];
    for k in KEYS.iter() {
        for f in [
            "get {}", "get-safe {}", "set {} v", "set-safe {} 0 v", "set-safe {} 99 v", "remove {}", "increment {}", "increment {} 5", "watch {}",
            "unwatch {}", "resolve 1 db {} 5 x", "resolve 1 adb {} 5 x", "replicate db {} 1 v", "replicate-remove db {}", "replicate-increment db {} 1",
            "rp 1 get {}", "rp 1 set {} v", "rp 7 resolve 1 db {} 5 x", "create-user {} t", "set-permissions {} r *", "election foo {}", "unknown {}",
        ] {
            t.push(f.replace("{}", k));
        }
    }
    for p in PATS.iter() {
        t.push(format!("keys {}", p).trim_end().to_string());
        t.push(format!("ls {}", p).trim_end().to_string());
        t.push(format!("watch {}", p).trim_end().to_string());
        t.push(format!("unwatch {}", p).trim_end().to_string());
        t.push(format!("set-permissions x rwix {}", p));
        t.push(format!("set-permissions u rwix {}", p));
    }
    for s in [
        "arbiter", "unwatch-all", "use-db db tok", "use-db adb tok", "use-db db u utok", "use-db adb u utok", "use-db db x guess", "use-db db wrong",
        "create-user x t", "snapshot false", "snapshot false db", "create-db n t", "ack 1 x", "auth admin wrong", "auth wrong pwd", "cluster-state",
        "metrics-state", "debug list-dbs", "debug pending-ops", "debug pendding-conflitcts", "list-commands", "election win", "election candidate 1 x",
        "join x", "leave x", "replicate-join x", "replicate-leave x", "set-primary x", "set-secoundary x", "replicate-since x 0",
        "replicate-snapshot db false",
        // values that carry a line break followed by a cluster command naming a $$ key: the links between nodes are
        // line-framed and run with administrator authority (HTTP and WebSocket sessions can send such a value)
        "set note a\nreplicate db $$secret -1 pwned", "set note a\r\nreplicate db $$secret -1 pwned", "set-safe note 0 a\nreplicate-remove db $$only1",
        "set note a\nrp 1 replicate db $$token -1 t", "set note a\nreplicate-increment db $$user_x 1", "set note a\nresolve 1 db $$secret 5 x",
        // a $$ key decorated with white space other than the separator: the client-facing guard and the parser of the
        // forwarded message must agree on what the key is
        "remove \t$$secret", "remove $$secret\t", "remove \u{a0}$$secret", "set \t$$secret v", "increment \t$$secret", "remove \t$$only1", "remove \r$$secret", "set-safe \t$$secret 9 v",
        "keys $conflicts", "get {CK}", "get-safe {CK}", "watch {CK}", "set {CK} x", "remove {CK}", "watch $conflicts", "get $connections", "set a 1", "get a", "watch secret", "set secret s2", "remove secret",
    ] {
        t.push(s.to_string());
    }
    for a in ADM_LINES.iter() {
        t.push(a.to_string());
    }
    t
}

/// What an administrator does on the node between the commands of the session under observation (prefix `ADM:<db>:`;
/// `{SEC}` is the twin's own secret text). The $$ keys differ between the twins before and after; whatever reaches the
/// observed session because of these commands must be the same on both twins.
const ADM_LINES: [&str; 12] = [
    "ADM:db:set $$secret {SEC}-2", "ADM:adb:set $$secret {SEC}-2", "ADM:db:set-safe $$secret 7 {SEC}-3", "ADM:db:remove $$secret", "ADM:db:increment $$count_{SEC} 3", "ADM:db:increment $$count 3",
    "ADM:db:create-user y ytok-{SEC}", "ADM:db:set-permissions x rw {SEC}*", "ADM:db:set $$token2 {SEC}", "ADM:db:remove $$only1", "ADM:adb:remove $$only1", "ADM:db:set secret fromadmin",
];

fn random_line(r: &mut Rng, words: &[String], tmpl: &[String]) -> String {
    if r.chance(3, 4) {
        return r.pick(tmpl).clone();
    }
    // any command word the parser knows, with arguments from the secure-key pool
    let w = r.pick(words).clone();
    let pool = ["$$token", "$$secret", "$$user_x", "$$permission_$x", "$$only1", "secret", "db", "adb", "tok", "u", "utok", "x", "0", "1", "5", "-1", "*", "$$*", "r $$*", "v", "true"];
    let n = r.below(5);
    if w == "keys" || w == "ls" {
        return format!("{} {}", w, r.pick(&PATS));
    }
    let mut line = w;
    for _ in 0..n {
        line.push(' ');
        let a: &str = *r.pick(&pool[..]);
        line.push_str(a);
    }
    line
}

pub struct Stats {
    pub sequences: u64,
    pub commands: u64,
    pub cells: BTreeSet<String>,
    pub distinct: BTreeSet<u64>,
    pub samples: Vec<serde_json::Value>,
}

fn run_pair(kind: Kind, with_conflict: bool, lines: &[String], v: &Verdicts, stats: &Mutex<Stats>) {
    run_pair_on(kind, with_conflict, false, lines, v, stats)
}

/// `secondary`: the twins are secondaries; what they forward to their primary is part of the observation (a write to a $$
/// key that is refused locally but forwarded would be applied cluster-wide).
fn run_pair_on(kind: Kind, with_conflict: bool, secondary: bool, lines: &[String], v: &Verdicts, stats: &Mutex<Stats>) {
    let a = build(0, kind, with_conflict);
    let b = build(1, kind, with_conflict);
    let mut links = vec![];
    // for secondary twins: a primary with the same contents stands at the other end of the link and executes, with the
    // authority every cluster link has, each line the secondary hands to it
    let upstream: Vec<Node> = if secondary { vec![build(0, kind, with_conflict), build(1, kind, with_conflict)] } else { vec![] };
    let upstream_before: Vec<BTreeMap<String, String>> = upstream.iter().map(|n| secure_dump(n)).collect();
    let mut upstream_links: Vec<Session> = upstream.iter().map(|n| { let mut l = Session::new(); l.call(&n.dbs, "auth admin pwd"); l }).collect();
    let mut upstream_changed: Option<(String, String)> = None;
    if secondary {
        for n in [&a, &b] {
            let (tx, rx) = futures::channel::mpsc::channel::<String>(10_000);
            n.dbs.add_cluster_member(nundb::bo::ClusterMember { name: "10.1.1.1:3014".to_string(), role: nundb::bo::ClusterRole::Primary, sender: Some(tx) });
            n.set_role(nundb::bo::ClusterRole::Secoundary);
            links.push(rx);
        }
    }
    let mut forwarded_secure: Option<(String, String)> = None;
    let mut secure_notice: Option<(String, String)> = None;
    let mut before = [secure_dump(&a), secure_dump(&b)];
    let mut traces: Vec<Vec<(String, String, Vec<String>)>> = vec![];
    let mut panicked = None;
    let mut culprit: Option<String> = None;
    for (i, node) in [&a, &b].iter().enumerate() {
        let mut s = Session::new();
        login(kind, &mut s, node);
        let mut tr = vec![];
        for l in lines {
            let dbs = node.dbs.clone();
            let l_raw = l;
            if let Some(rest) = l_raw.strip_prefix("ADM:") {
                // (secondary twins: an administrator's write would be forwarded with the link's authority, which is
                // not what is observed here)
                if !secondary {
                    let (db, cmd) = rest.split_once(':').unwrap_or(("db", rest));
                    let sec = if i == 0 { "alpha-secret-0" } else { "bravo-secret-1" };
                    let mut adm = Session::new();
                    adm.call(&dbs, "auth admin pwd");
                    let tok = if kind == Kind::UserToken { format!("tok-{}", sec) } else { "tok".to_string() };
                    adm.call(&dbs, &format!("use-db {} {}", db, tok));
                    let _ = std::panic::catch_unwind(std::panic::AssertUnwindSafe(|| adm.call_raw(&dbs, &cmd.replace("{SEC}", sec))));
                    adm.drain();
                    adm.disconnect(&dbs);
                    before[i] = secure_dump(node);
                    let pushed: Vec<String> = s.drain().iter().map(|p| normalize(p)).collect();
                    if secure_notice.is_none() {
                        if let Some(n) = pushed.iter().find(|p| ["changed $$", "changed-version $$", "removed $$"].iter().any(|x| p.starts_with(x))) {
                            secure_notice = Some((l_raw.clone(), n.clone()));
                        }
                    }
                    tr.push((l_raw.clone(), "(administrator)".to_string(), pushed));
                }
                continue;
            }
            let l = &l_raw.replace("{CK}", &conflict_key(node));
            let r = std::panic::catch_unwind(std::panic::AssertUnwindSafe(|| s.call_raw(&dbs, l)));
            match r {
                Ok(r) => {
                    let mut pushed: Vec<String> = s.drain().iter().map(|p| normalize(p)).collect();
                    if secondary {
                        while let Ok(Some(m)) = links[i].try_next() {
                            // the key a forwarded message acts on: replicate* <db> <key> ..., resolve <id> <db> <key> ...
                            // the link is line-framed (read_line: '\n' ends a command, '\r' does not): every line handed to it is a command
                            let targets_secure = m.split('\n').any(|line| {
                                let mut w: Vec<&str> = line.trim().split(' ').collect();
                                if w.first() == Some(&"rp") && w.len() > 2 {
                                    w.drain(..2);
                                }
                                let key = if w.first().map(|x| x.starts_with("replicate")).unwrap_or(false) { w.get(2) } else if w.first() == Some(&"resolve") { w.get(3) } else { None };
                                key.map(|k| k.starts_with("$$")).unwrap_or(false)
                            });
                            if forwarded_secure.is_none() && targets_secure {
                                forwarded_secure = Some((l_raw.clone(), m.clone()));
                            }
                            pushed.push(format!("->primary: {}", normalize(&m)));
                            // the primary reads the link line by line
                            for line in m.split('\n') {
                                if line.trim().is_empty() {
                                    continue;
                                }
                                let udbs = upstream[i].dbs.clone();
                                let _ = std::panic::catch_unwind(std::panic::AssertUnwindSafe(|| upstream_links[i].call_raw(&udbs, line)));
                                upstream_links[i].drain();
                            }
                            if upstream_changed.is_none() && secure_dump(&upstream[i]) != upstream_before[i] {
                                upstream_changed = Some((l_raw.clone(), m.clone()));
                            }
                        }
                    }
                    tr.push((l_raw.clone(), normalize(&resp_str(&r)), pushed));
                    if culprit.is_none() && secure_dump(node) != before[i] {
                        culprit = Some(l_raw.clone());
                    }
                }
                Err(e) => {
                    panicked = Some((i, l_raw.clone(), panic_msg(&e)));
                    tr.push((l_raw.clone(), "PANIC".into(), vec![]));
                    break;
                }
            }
        }
        traces.push(tr);
    }
    let cells: Vec<String> = lines
        .iter()
        .map(|l| {
            let mut p = l.split(' ');
            let w = p.next().unwrap_or("").to_string();
            let pos = l.split(' ').position(|x| x.starts_with("$$")).map(|x| x.to_string()).unwrap_or("-".into());
            format!("{}/{}/{:?}", w, pos, kind)
        })
        .collect();
    {
        let mut st = stats.lock().unwrap();
        st.sequences += 1;
        st.commands += 2 * lines.len() as u64;
        for c in cells {
            st.cells.insert(c);
        }
        st.distinct.insert(fnv(&format!("{:?}{}{}", kind, with_conflict, lines.join("\n"))));
        if st.samples.len() < 4 && lines.len() >= 3 {
            st.samples.push(json!({"session": format!("{:?}", kind), "pending_conflict_on_secure_key": with_conflict, "lines": lines, "trace_on_both_twins": traces[0].iter().map(|t| json!([t.0, t.1, t.2])).collect::<Vec<_>>()}));
        }
    }
    let replay = |why: &str| {
        json!({"session": format!("{:?}", kind), "pending_conflict_on_secure_key": with_conflict, "lines": lines,
               "trace_twin_A": traces[0].iter().map(|t| json!([t.0, t.1, t.2])).collect::<Vec<_>>(),
               "trace_twin_B": traces[1].iter().map(|t| json!([t.0, t.1, t.2])).collect::<Vec<_>>(), "explanation": why})
    };
    if let Some((_i, l, msg)) = panicked {
        v.report(json!({"check": "twin", "problem": "panic", "word": l.split(' ').next().unwrap_or(""), "panic": msg.split(':').next().unwrap_or("")}), replay("command panicked"));
        return;
    }
    if let Some((l, m)) = &upstream_changed {
        v.report(json!({"check": "twin", "problem": "secure-key-changed-on-the-primary-through-a-secondary", "word": l.split(' ').next().unwrap_or(""), "session": format!("{:?}", kind)}), replay(&format!("'{}' made the secondary send {:?}; executed by the primary it changed a $$ key there", l, m)));
    }
    if let Some((l, n)) = &secure_notice {
        v.report(json!({"check": "twin", "problem": "notification-naming-a-secure-key-reached-non-admin", "word": l.splitn(3, ':').nth(2).unwrap_or("").split(' ').next().unwrap_or(""), "session": format!("{:?}", kind)}), replay(&format!("after the administrator's '{}' the observed session was sent {:?}", l, n)));
    }
    if let Some((l, m)) = &forwarded_secure {
        v.report(json!({"check": "twin", "problem": "secure-key-write-forwarded-to-the-primary-by-non-admin", "word": l.split(' ').next().unwrap_or(""), "session": format!("{:?}", kind)}), replay(&format!("'{}' made the secondary send '{}' to its primary", l, m)));
    }
    // 1. noninterference
    if traces[0] != traces[1] {
        let idx = (0..traces[0].len().min(traces[1].len())).find(|i| traces[0][*i] != traces[1][*i]).unwrap_or(0);
        let l = &traces[0][idx].0.clone();
        let word = if l.starts_with("ADM:") { format!("administrator:{}", l.splitn(3, ':').nth(2).unwrap_or("").split(' ').next().unwrap_or("")) } else { l.split(' ').next().unwrap_or("").to_string() };
        let no_arg_words = ["arbiter", "unwatch-all", "cluster-state", "metrics-state", "list-commands"];
        let arg = l.split(' ').nth(1).unwrap_or("");
        let arg_class = if no_arg_words.contains(&word.as_str()) || arg.is_empty() {
            "none"
        } else if arg == "{CK}" {
            "$conflicts-record-of-$$-key"
        } else if arg.starts_with("$$") {
            "$$-key"
        } else if arg.contains('*') {
            "pattern"
        } else {
            "other"
        };
        v.report(
            json!({"check": "twin", "problem": "reply-depends-on-secure-key-contents", "word": word, "arg_class": arg_class, "pending_conflict_on_secure_key": with_conflict}),
            replay("the two nodes differ only in $$ key contents, yet the non-admin session saw different replies/notifications"),
        );
    }
    // 2. integrity
    for (i, node) in [&a, &b].iter().enumerate() {
        let after = secure_dump(node);
        if after != before[i] {
            let changed: Vec<String> = after
                .iter()
                .filter(|(k, val)| before[i].get(*k) != Some(val))
                .map(|(k, _)| k.split('/').nth(1).unwrap_or("").to_string())
                .chain(before[i].keys().filter(|k| !after.contains_key(*k)).map(|k| k.split('/').nth(1).unwrap_or("").to_string()))
                .collect();
            let culprit = culprit.clone().unwrap_or_default();
            let word = culprit.split(' ').next().unwrap_or("").to_string();
            let inner = if word == "rp" { culprit.split(' ').nth(2).unwrap_or("").to_string() } else { word.clone() };
            v.report(
                json!({"check": "twin", "problem": "secure-key-changed-by-non-admin", "word": inner, "session": format!("{:?}", kind)}),
                replay(&format!("$$ keys changed on twin {}: {:?}", i, changed)),
            );
            break;
        }
    }
}

pub fn run(tier: &str) -> i32 {
    quiet_panics();
    let thorough = tier == "thorough";
    let v = Verdicts::load("C08");
    let mut ev = Evidence::new("C08", tier, "exploration");
    let stats = Mutex::new(Stats { sequences: 0, commands: 0, cells: BTreeSet::new(), distinct: BTreeSet::new(), samples: vec![] });
    // $$token cannot be removed by anyone: whoever sends it (administrator, database-token session, user session with
    // every permission), in whatever form a remove can take (the client command, the cluster's own replicate-remove, either
    // wrapped as a replicated request, spelled with extra blanks), to a primary or to a secondary whose primary executes
    // what the secondary forwards - afterwards every node still holds the token and still lets a session in with it
    let mut token_cases = 0u64;
    {
        let forms = ["remove $$token", "remove $$token ", "remove  $$token", "replicate-remove db $$token", "rp 9 remove $$token", "rp 9 replicate-remove db $$token", "replicate-remove db  $$token", "remove $$token;remove $$token"];
        for secondary in [false, true] {
            for who in ["administrator", "administrator-without-a-database", "database-token", "user-with-every-permission"] {
                for form in forms {
                    token_cases += 1;
                    let (node, mut adm) = mem_node(&[("db", "none")]);
                    let (up, mut upadm) = mem_node(&[("db", "none")]);
                    for (n, a) in [(&node, &mut adm), (&up, &mut upadm)] {
                        a.call(&n.dbs, "use-db db tok");
                        a.call(&n.dbs, "create-user u utok");
                        a.call(&n.dbs, "set-permissions u rwix *");
                    }
                    let mut link_rx = None;
                    if secondary {
                        let (tx, rx) = futures::channel::mpsc::channel::<String>(10_000);
                        node.dbs.add_cluster_member(nundb::bo::ClusterMember { name: "10.1.1.1:3014".to_string(), role: nundb::bo::ClusterRole::Primary, sender: Some(tx) });
                        node.set_role(nundb::bo::ClusterRole::Secoundary);
                        link_rx = Some(rx);
                    }
                    let mut s = Session::new();
                    match who {
                        "administrator" => {
                            s.call(&node.dbs, "auth admin pwd");
                            s.call(&node.dbs, "use-db db tok");
                        }
                        "administrator-without-a-database" => {
                            s.call(&node.dbs, "auth admin pwd");
                        }
                        "database-token" => {
                            s.call(&node.dbs, "use-db db tok");
                        }
                        _ => {
                            s.call(&node.dbs, "use-db db u utok");
                        }
                    }
                    let dbs = node.dbs.clone();
                    let mut replies = vec![];
                    for part in form.split(';') {
                        let r = std::panic::catch_unwind(std::panic::AssertUnwindSafe(|| s.call(&dbs, part)));
                        replies.push(r.map(|r| r.resp).unwrap_or_else(|_| "panicked".into()));
                    }
                    // what the secondary hands to its primary is executed there with the authority of a cluster link
                    let mut forwarded = vec![];
                    if let Some(rx) = link_rx.as_mut() {
                        let mut uplink = Session::new();
                        uplink.call(&up.dbs, "auth admin pwd");
                        while let Ok(Some(m)) = rx.try_next() {
                            for line in m.split('\n').filter(|l| !l.trim().is_empty()) {
                                forwarded.push(line.to_string());
                                let udbs = up.dbs.clone();
                                let _ = std::panic::catch_unwind(std::panic::AssertUnwindSafe(|| uplink.call_raw(&udbs, line)));
                                uplink.drain();
                            }
                        }
                    }
                    let mut nodes: Vec<(&str, &Node, &mut Session)> = vec![(if secondary { "the-secondary-that-took-the-command" } else { "the-node-that-took-the-command" }, &node, &mut adm)];
                    if secondary {
                        nodes.push(("the-primary-behind-the-secondary", &up, &mut upadm));
                    }
                    for (at, n, a) in nodes {
                        let still = a.call(&n.dbs, "get $$token");
                        let mut fresh = Session::new();
                        let login = fresh.call(&n.dbs, "use-db db tok");
                        if still.pushed != vec!["value tok\n".to_string()] || login.is_error() {
                            v.report(
                                json!({"check": "token", "problem": "$$token-removed", "sent_by": who, "sent_to": if secondary { "secondary" } else { "primary" }, "gone_at": at, "form": form.split(' ').find(|w| w.starts_with("re")).unwrap_or("remove")}),
                                json!({"line": form, "replies": replies, "forwarded_to_the_primary": forwarded, "get_$$token_afterwards": still.pushed, "use-db_with_the_token_afterwards": login.resp}),
                            );
                        }
                    }
                }
            }
        }
    }
    ev.set("token_removal_cases", json!(token_cases));
    let tmpl = templates();
    let words: Vec<String> = {
        let mut w = nundb::bo::Request::command_list();
        w.sort();
        w.push("frobnicate".into());
        w
    };
    let mut cases: Vec<(Kind, bool, Vec<String>)> = vec![];
    let kinds = [Kind::DbToken, Kind::UserToken, Kind::NoDb];
    // systematic: every template alone, for every session kind, with and without the pending conflict
    for k in kinds {
        for c in [false, true] {
            for t in &tmpl {
                cases.push((k, c, vec![t.clone()]));
            }
        }
    }
    // systematic pairs: a session-changing command followed by every template
    for k in [Kind::DbToken, Kind::UserToken] {
        for first in ["use-db adb tok", "use-db adb u utok", "arbiter", "auth admin wrong", "use-db db x guess", "watch secret"] {
            for t in &tmpl {
                for c in [false, true] {
                    cases.push((k, c, vec![first.to_string(), t.clone()]));
                }
            }
        }
    }
    // systematic: a subscription (by name or by pattern), then every administrator action, then the end of the subscription
    for k in [Kind::DbToken, Kind::UserToken] {
        for w in PATS.iter().map(|p| format!("watch {}", p).trim_end().to_string()).chain(["watch $$secret", "watch secret", "watch $$count", "watch $$only1", "watch $secret"].iter().map(|x| x.to_string())) {
            for a in ADM_LINES.iter() {
                cases.push((k, false, vec![w.clone(), a.to_string(), "unwatch-all".to_string(), a.to_string()]));
            }
        }
    }
    let systematic = cases.len();
    let mut rng = Rng::new(seed());
    let n_random = if thorough { 400_000 } else { 25_000 };
    for _ in 0..n_random {
        let k = *rng.pick(&kinds);
        let len = rng.range(2, 6);
        let lines = (0..len).map(|_| random_line(&mut rng, &words, &tmpl)).collect();
        cases.push((k, rng.chance(1, 3), lines));
    }
    let next = std::sync::atomic::AtomicUsize::new(0);
    std::thread::scope(|sc| {
        for _ in 0..workers() {
            let (next, v, stats, cases) = (&next, &v, &stats, &cases);
            sc.spawn(move || loop {
                let i = next.fetch_add(1, std::sync::atomic::Ordering::SeqCst);
                if i >= cases.len() {
                    break;
                }
                if i % 3 == 2 {
                    run_pair_on(cases[i].0, cases[i].1, true, &cases[i].2, v, stats);
                } else {
                    run_pair(cases[i].0, cases[i].1, &cases[i].2, v, stats);
                }
            });
        }
    });
    let st = stats.into_inner().unwrap();
    // the same guarantee for sessions over the real TCP / HTTP / WebSocket servers, after and between administrator sessions
    let mut iso_rng = Rng::new(seed() ^ 0x150c08);
    let iso = crate::transports::session_isolation(&v, true, &mut iso_rng, if thorough { 400 } else { 40 });
    ev.set("sessions_over_real_transports", iso.to_json());
    ev.evaluations = st.sequences;
    ev.distinct_nontrivial = st.cells.len() as u64;
    ev.rule = format!("twin runs (every third pair of twins are secondaries whose link to the primary is observed: nothing naming a $$ key may be forwarded): {} systematic sequences (every one of {} command templates alone and after a session-changing command, for db-token / user-token / no-db sessions, with and without an unresolved administrator conflict on a $$ key of an arbiter database) + {} seeded random sequences of length 2-6 over the templates and over every parser command word ({} words incl. an unknown one) with 0-4 arguments from a pool of $$ keys, patterns, names and numbers; distinct_nontrivial = distinct (command word, argument position holding a $$ key, session kind) cells executed; + {} non-administrator sessions over the real TCP / HTTP / WebSocket servers of one node, each after / between administrator sessions over the same servers (12 administrator requests first in every other round so that every HTTP worker has served one): no reply may contain the current $$ value or an unnamed $$ key name and the $$ keys are re-read after every session", systematic, tmpl.len(), n_random, words.len(), iso.other_sessions);
    ev.samples = st.samples.clone();
    ev.set("commands_executed_on_both_twins", json!(st.commands));
    ev.set("distinct_sequences", json!(st.distinct.len()));
    ev.set("command_words_covered", json!(words.len()));
    ev.set("known_findings_seen", json!(v.known_seen()));
    ev.violations = v.violation_count();
    ev.assumptions = vec![
        "the twins differ in: $$secret, existence of $$only1, $$user_x, $$permission_$x, and (db-token / no-db sessions) $$user_u + $$permission_$u or (user-token sessions) $$token; the differing values never appear in the client's argument pool (guessing a secret is authentication, not a leak)".into(),
        "digit runs of 15+ characters (op ids, timestamps) are normalised before comparing traces".into(),
    ];
    ev.write();
    cleanup_scratch();
    let code = v.finish(tier);
    if code == 0 && st.cells.len() < 150 {
        println!("INCONCLUSIVE property=C08 reason=coverage floor not met ({} cells)", st.cells.len());
        return 2;
    }
    println!("C08 {}: {} twin sequences, {} commands, {} (word, $$ position, session) cells, {} violations", tier, st.sequences, st.commands, st.cells.len(), v.violation_count());
    code
}
