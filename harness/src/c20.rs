//! C20 — HTTP replies line up, entry by entry, with the commands that caused them.
//! Generated bodies are POSTed to the real HTTP server; the i-th entry of the
//! reply is compared with what a small session/key model says command i must
//! produce; subscriptions and the connection count must be released afterwards.
use crate::common::evidence::Evidence;
use crate::common::kf::Verdicts;
use crate::common::rng::Rng;
use crate::common::*;
use crate::transports::{http_post, LiveNode, WsClient};
use serde_json::json;
use std::collections::{BTreeMap, BTreeSet};
use std::time::{Duration, Instant};

#[derive(Clone, Debug, PartialEq)]
pub enum T {
    AuthOk,
    AuthBad,
    UseOk,
    UseBad,
    UseUser,
    Get(usize),
    GetSafe(usize),
    Set(usize),
    SetSafeOk(usize),
    SetSafeStale(usize),
    Remove(usize),
    IncNum,
    IncText,
    Keys,
    CreateDb,
    /// create-db naming the database the worker already uses, with another token: refused, and nothing may change
    CreateExisting,
    GetSecure,
    /// user-permission probes (only meaningful after UseUser): read of b-key (no r), write of a-key (no w), read of a-key (ok), write of b-key (ok)
    UserReadDenied,
    UserWriteDenied,
    UserReadOk,
    UserWriteOk,
    Watch(usize),
    Unknown,
}

#[derive(Clone, Debug, PartialEq)]
enum Exp {
    Exact(String),
    /// one of several texts is acceptable (statement silent)
    OneOf(Vec<String>),
    /// get-safe: "value-version <any> <value>\n"
    SafeValue(String),
}

struct Model {
    admin: bool,
    db: bool,
    user: bool,
    vals: BTreeMap<String, String>,
    vers: BTreeMap<String, i32>,
    watched: BTreeSet<String>,
}

const NO_DB: &str = "error no-db-selected\n";

fn render(t: &T, id: u64, seq: usize, db: &str) -> String {
    let k = |i: &usize| format!("k{}x{}", id, i);
    match t {
        T::AuthOk => "auth admin pwd".into(),
        T::AuthBad => "auth admin nope".into(),
        T::UseOk => format!("use-db {} tok", db),
        T::UseBad => format!("use-db {} wrong", db),
        T::UseUser => format!("use-db {} u utok", db),
        T::Get(i) => format!("get {}", k(i)),
        T::GetSafe(i) => format!("get-safe {}", k(i)),
        T::Set(i) => format!("set {} v{}s{}", k(i), id, seq),
        T::SetSafeOk(i) => format!("set-safe {} {} w{}s{}", k(i), 999 + 1000 * seq, id, seq),
        T::SetSafeStale(i) => format!("set-safe {} 0 stale{}", k(i), seq),
        T::Remove(i) => format!("remove {}", k(i)),
        T::IncNum => format!("increment n{}", id),
        T::IncText => "increment s0".into(),
        T::Keys => format!("keys k{}x*", id),
        T::CreateDb => format!("create-db c{}s{} t", id, seq),
        T::CreateExisting => format!("create-db {} other", db),
        T::GetSecure => "get $$secret".into(),
        T::UserReadDenied => format!("get b{}", id),
        T::UserWriteDenied => format!("set a{} nope", id),
        T::UserReadOk => format!("get a{}", id),
        T::UserWriteOk => format!("set b{} yes{}", id, seq),
        T::Watch(i) => format!("watch {}", k(i)),
        T::Unknown => "frobnicate now".into(),
    }
}

/// What entry must command `t` produce, given the session so far? (and update the model)
fn expect(m: &mut Model, t: &T, line: &str) -> Exp {
    let e = |s: &str| Exp::Exact(s.to_string());
    let key = line.split(' ').nth(1).unwrap_or("").to_string();
    let val = line.splitn(3, ' ').nth(2).unwrap_or("").to_string();
    // user sessions: permission list "r a*|w b*"
    let user_can = |m: &Model, key: &str, kind: char| -> bool {
        // (the user binding of a session is kept when it later authenticates as admin or re-selects with
        // the database token: the permission list keeps applying to non-secure keys; this check is about
        // alignment of entries, C09 owns the credential rules)
        if !m.user {
            return true;
        }
        match kind {
            'r' => key.starts_with('a'),
            'w' => key.starts_with('b'),
            _ => false,
        }
    };
    match t {
        T::AuthOk => {
            m.admin = true;
            e("valid auth\n")
        }
        T::AuthBad => e(if m.admin { "valid auth\n" } else { "invalid auth\n" }),
        T::UseOk => {
            m.db = true;
            e("empty")
        }
        T::UseBad => e("Invalid token"),
        T::UseUser => {
            m.db = true;
            m.user = true;
            e("empty")
        }
        T::Unknown => e("unknown command: frobnicate"),
        T::CreateDb => {
            if m.admin {
                e("create-db success\n")
            } else {
                e("Not auth")
            }
        }
        T::CreateExisting => {
            if m.admin {
                e("database already exists")
            } else {
                e("Not auth")
            }
        }
        T::GetSecure => {
            if !m.admin {
                e("To read security keys you must auth as an admin!")
            } else if !m.db {
                e(NO_DB)
            } else {
                e("value s\n")
            }
        }
        T::Keys => {
            if !m.db {
                return e(NO_DB);
            }
            let prefix = line.split(' ').nth(1).unwrap().trim_end_matches('*').to_string();
            let ks: String = m.vals.keys().filter(|k| k.starts_with(&prefix)).fold(String::new(), |a, k| format!("{},{}", a, k));
            e(&format!("keys {}\n", ks))
        }
        T::Get(_) | T::UserReadDenied | T::UserReadOk | T::GetSafe(_) => {
            if !m.db {
                return e(NO_DB);
            }
            if !user_can(m, &key, 'r') {
                return e("permission denied\n");
            }
            let v = m.vals.get(&key).cloned().unwrap_or("<Empty>".into());
            if let T::GetSafe(_) = t {
                Exp::SafeValue(v)
            } else {
                e(&format!("value {}\n", v))
            }
        }
        T::Set(_) | T::UserWriteDenied | T::UserWriteOk | T::SetSafeOk(_) | T::SetSafeStale(_) => {
            if !m.db {
                return e(NO_DB);
            }
            if !user_can(m, &key, 'w') {
                return e("permission denied\n");
            }
            // version rule (checked on its own by C02): plain set = current + 1 (new key: 0); set-safe v is
            // accepted iff the key is absent or v >= current, and leaves v + 1
            let cur = m.vers.get(&key).cloned();
            let sent: Option<i32> = match t {
                T::SetSafeOk(_) | T::SetSafeStale(_) => line.split(' ').nth(2).and_then(|x| x.parse().ok()),
                _ => None,
            };
            let newval = match t {
                T::SetSafeOk(_) | T::SetSafeStale(_) => line.splitn(4, ' ').nth(3).unwrap_or("").to_string(),
                _ => val.clone(),
            };
            if let (Some(sent), Some(cur)) = (sent, cur) {
                if sent < cur {
                    return e("Invalid version!");
                }
            }
            let newver = match (sent, cur) {
                (Some(sv), _) => sv + 1,
                (None, Some(c)) => c + 1,
                (None, None) => 0,
            };
            m.vers.insert(key.clone(), newver);
            m.vals.insert(key.clone(), newval.clone());
            if m.watched.contains(&key) {
                // the session watches the key it writes: its own notification may be the entry
                Exp::OneOf(vec!["empty".into(), format!("changed {} {}\n", key, newval)])
            } else {
                e("empty")
            }
        }
        T::Remove(_) => {
            if !m.db {
                return e(NO_DB);
            }
            if !user_can(m, &key, 'x') {
                return e("permission denied\n");
            }
            m.vals.remove(&key);
            m.vers.remove(&key);
            if m.watched.contains(&key) {
                Exp::OneOf(vec!["empty".into(), format!("removed {}\n", key)])
            } else {
                e("empty")
            }
        }
        T::IncNum | T::IncText => {
            if !m.db {
                return e(NO_DB);
            }
            if !user_can(m, &key, 'i') {
                return e("permission denied\n");
            }
            let cur = m.vals.get(&key).cloned().unwrap_or("0".into());
            match cur.parse::<i32>() {
                Ok(n) => {
                    let nv = m.vers.get(&key).map(|c| c + 1).unwrap_or(1);
                    m.vers.insert(key.clone(), nv);
                    m.vals.insert(key, (n + 1).to_string());
                    e("empty")
                }
                Err(_) => e("Key is not numeric"),
            }
        }
        T::Watch(_) => {
            if !m.db {
                return e(NO_DB);
            }
            if !user_can(m, &key, 'r') {
                return e("permission denied\n");
            }
            m.watched.insert(key);
            e("empty")
        }
    }
}

fn templates() -> Vec<T> {
    vec![
        T::AuthOk, T::AuthBad, T::UseOk, T::UseBad, T::UseUser, T::Get(0), T::GetSafe(0), T::Set(0), T::Set(1), T::SetSafeOk(0), T::SetSafeStale(0), T::Remove(0),
        T::IncNum, T::IncText, T::Keys, T::CreateDb, T::CreateExisting, T::GetSecure, T::UserReadDenied, T::UserWriteDenied, T::UserReadOk, T::UserWriteOk, T::Watch(0), T::Unknown, T::Get(1),
    ]
}

fn classify(t: &T, m_db: bool, exp: &Exp) -> &'static str {
    match exp {
        Exp::Exact(s) if s == NO_DB => "refused:no-db-selected",
        Exp::Exact(s) if s == "permission denied\n" => "refused:permission",
        Exp::Exact(s) if s.starts_with("To read security") => "refused:secure-key",
        Exp::Exact(s) if s == "Not auth" || s == "Invalid token" || s == "Invalid version!" || s == "Key is not numeric" || s == "database already exists" || s.starts_with("unknown command") => "refused:other",
        Exp::Exact(s) if s == "empty" => "ok:empty",
        _ => {
            let _ = (t, m_db);
            "ok:value"
        }
    }
}

pub struct Stats {
    pub bodies: u64,
    pub commands: u64,
    pub shapes: BTreeSet<String>,
    pub release_checks: u64,
    pub samples: Vec<serde_json::Value>,
}

fn wait_released(live: &LiveNode, db: &str, keys: &[String], base_conn: usize) -> Option<String> {
    let deadline = Instant::now() + Duration::from_secs(5);
    loop {
        // never block on the node's locks: a wedged node (a lock held forever) must end in a report, not in a hang
        let observed = (|| {
            let map = live.dbs.map.try_read().ok()?;
            let d = map.get(db)?;
            let w = d.watchers.map.try_read().ok()?;
            let left: Vec<String> = keys.iter().filter(|k| w.get(*k).map(|s| !s.is_empty()).unwrap_or(false)).cloned().collect();
            let c = d.connections.try_read().ok().map(|c| c.load(std::sync::atomic::Ordering::Relaxed))?;
            Some((c, left))
        })();
        let Some((conn, leftover)) = observed else {
            if Instant::now() > deadline {
                return Some("node-state-not-readable-a-lock-is-held".to_string());
            }
            std::thread::sleep(Duration::from_millis(3));
            continue;
        };
        if conn == base_conn && leftover.is_empty() {
            return None;
        }
        if Instant::now() > deadline {
            return Some(if !leftover.is_empty() { "subscription-not-released".to_string() } else { format!("connections-not-released") });
        }
        std::thread::sleep(Duration::from_millis(3));
    }
}

pub fn run(tier: &str) -> i32 {
    quiet_panics();
    let thorough = tier == "thorough";
    let v = Verdicts::load("C20");
    let mut ev = Evidence::new("C20", tier, "exploration");
    let mut st = Stats { bodies: 0, commands: 0, shapes: BTreeSet::new(), release_checks: 0, samples: vec![] };
    let dir = fresh_dir("c20-live");
    let live = match LiveNode::start(&dir, false) {
        Some(l) => l,
        None => {
            println!("INCONCLUSIVE property=C20 reason=could not bind loopback ports");
            return 2;
        }
    };
    // one database per worker, so that the connection count seen after a request is that worker's own
    for w in 0..10usize {
        let mut adm = crate::common::session::Session::new();
        adm.call(&live.dbs, "auth admin pwd");
        adm.call(&live.dbs, &format!("create-db h{} tok", w));
        adm.call(&live.dbs, &format!("use-db h{} tok", w));
        adm.call(&live.dbs, "create-user u utok");
        adm.call(&live.dbs, "set-permissions u r a*|w b*");
        adm.call(&live.dbs, "set $$secret s");
        adm.call(&live.dbs, "set s0 text");
        adm.disconnect(&live.dbs);
    }
    let base_conn = 0usize;
    let tm = templates();
    let mut bodies: Vec<Vec<T>> = vec![];
    // systematic: all bodies of length 1 and 2, and length 3 with a session-forming first command
    for a in &tm {
        bodies.push(vec![a.clone()]);
        for b in &tm {
            bodies.push(vec![a.clone(), b.clone()]);
        }
    }
    for first in [T::UseOk, T::UseUser, T::AuthOk, T::Get(0), T::UserReadDenied, T::GetSecure, T::UseBad] {
        for b in &tm {
            for c in &tm {
                bodies.push(vec![first.clone(), b.clone(), c.clone()]);
            }
        }
    }
    let systematic = bodies.len();
    let mut rng = Rng::new(seed());
    let n_random = if thorough { 200_000 } else { 12_000 };
    for _ in 0..n_random {
        let len = rng.range(3, 6);
        bodies.push((0..len).map(|_| rng.pick(&tm).clone()).collect());
    }
    if let Ok(n) = std::env::var("VERIF_MAX_CASES") {
        bodies.truncate(n.parse().unwrap_or(bodies.len()));
    }
    let next = std::sync::atomic::AtomicUsize::new(0);
    let stm = std::sync::Mutex::new(&mut st);
    let ids = std::sync::atomic::AtomicU64::new(1);
    take_panics();
    std::thread::scope(|sc| {
        for w in 0..8usize {
            let (next, v, stm, bodies, live, ids) = (&next, &v, &stm, &bodies, &live, &ids);
            sc.spawn(move || {
                let mut rng = Rng::new(seed() * 977 + w as u64);
                let dbname = format!("h{}", w);
                let mut base_conn = base_conn;
                let mut release_failures = 0;
                let mut unanswered = 0;
                loop {
                    let i = next.fetch_add(1, std::sync::atomic::Ordering::SeqCst);
                    if i >= bodies.len() {
                        break;
                    }
                    let id = ids.fetch_add(1, std::sync::atomic::Ordering::SeqCst);
                    let cmds = &bodies[i];
                    let lines: Vec<String> = cmds.iter().enumerate().map(|(s, t)| render(t, id, s, &dbname)).collect();
                    // separators: plain, trailing ';', blank statements, spaces
                    let style = rng.below(4);
                    let body = match style {
                        0 => lines.join(";"),
                        1 => format!("{};", lines.join(";")),
                        2 => format!(" ; {} ;; ", lines.join(" ;  ; ")),
                        _ => lines.join("; "),
                    };
                    let mut m = Model { admin: false, db: false, user: false, vals: BTreeMap::new(), vers: BTreeMap::new(), watched: BTreeSet::new() };
                    m.vals.insert("s0".into(), "text".into());
                    let mut exps = vec![];
                    let mut shape = vec![];
                    for (t, l) in cmds.iter().zip(lines.iter()) {
                        let db_before = m.db;
                        let e = expect(&mut m, t, l);
                        shape.push(classify(t, db_before, &e));
                        exps.push(e);
                    }
                    let t0 = Instant::now();
                    let reply = http_post(&live.http, body.as_bytes(), Duration::from_secs(20));
                    if t0.elapsed() > Duration::from_secs(1) && std::env::var("VERIF_DEBUG").is_ok() {
                        eprintln!("slow http {:?} body={:?} reply={:?}", t0.elapsed(), body, reply);
                    }
                    let reply = match reply {
                        Ok(r) => r,
                        Err(e) => {
                            v.report(json!({"check": "http", "problem": "request-not-answered"}), json!({"body": body, "error": e}));
                            // a server that stopped answering costs the full time-out per request: give up on it
                            unanswered += 1;
                            if unanswered >= 3 {
                                break;
                            }
                            continue;
                        }
                    };
                    let entries: Vec<String> = reply.split(';').map(|s| s.to_string()).collect();
                    let mut problem: Option<(String, usize)> = None;
                    if entries.len() != exps.len() && !(exps.is_empty() && reply.is_empty()) {
                        problem = Some((if entries.len() < exps.len() { "fewer-entries-than-commands".into() } else { "more-entries-than-commands".into() }, 0));
                    } else {
                        for (i, (got, exp)) in entries.iter().zip(exps.iter()).enumerate() {
                            let ok = match exp {
                                Exp::Exact(s) => got == s,
                                Exp::OneOf(o) => o.contains(got),
                                Exp::SafeValue(val) => got.starts_with("value-version ") && got.ends_with(&format!(" {}\n", val)) && got.split(' ').count() >= 3,
                            };
                            if !ok {
                                // which earlier command explains the entry?
                                let shifted = (0..i).rev().find(|j| match &exps[*j] {
                                    Exp::Exact(s) => s == got,
                                    _ => false,
                                });
                                let kind = if shifted.is_some() { "entry-belongs-to-an-earlier-command" } else { "entry-is-not-the-commands-own-result" };
                                problem = Some((kind.to_string(), i));
                                break;
                            }
                        }
                    }
                    // release of subscriptions / connection count after the request
                    let watched: Vec<String> = m.watched.iter().cloned().collect();
                    let mut rel = None;
                    if m.db || !watched.is_empty() {
                        let t1 = Instant::now();
                        rel = wait_released(live, &dbname, &watched, base_conn);
                        if t1.elapsed() > Duration::from_secs(1) && std::env::var("VERIF_DEBUG").is_ok() {
                            eprintln!("slow release {:?} body={:?} rel={:?}", t1.elapsed(), body, rel);
                        }
                    }
                    {
                        let mut s = stm.lock().unwrap();
                        s.bodies += 1;
                        s.commands += cmds.len() as u64;
                        s.shapes.insert(format!("{}|sep{}", shape.join(","), style));
                        if m.db || !watched.is_empty() {
                            s.release_checks += 1;
                        }
                        if s.samples.len() < 4 && cmds.len() >= 3 {
                            s.samples.push(json!({"body": body, "reply": reply, "expected": exps.iter().map(|e| format!("{:?}", e)).collect::<Vec<_>>()}));
                        }
                    }
                    if let Some((kind, at)) = problem {
                        // signature: what kind of refusal/success precedes the first wrong entry
                        let before: Vec<&str> = shape.iter().take(at).cloned().collect();
                        let cause = if before.iter().any(|s| *s == "refused:no-db-selected") {
                            "after-no-db-selected-refusal"
                        } else if before.iter().any(|s| *s == "refused:permission") {
                            "after-permission-refusal"
                        } else if cmds.iter().take(at).any(|t| matches!(t, T::Watch(_))) {
                            "after-own-notification"
                        } else {
                            "other"
                        };
                        v.report(
                            json!({"check": "http", "problem": kind, "context": cause}),
                            json!({"body": body, "reply": reply, "entries": entries, "expected": exps.iter().map(|e| format!("{:?}", e)).collect::<Vec<_>>(), "first_wrong_entry": at}),
                        );
                    }
                    if let Some(r) = rel {
                        v.report(json!({"check": "http", "problem": r}), json!({"body": body, "watched": watched}));
                        // what leaked stays leaked: re-base, so that the next request is judged on its own, and give up on a
                        // node that keeps leaking (every wait costs its full time-out)
                        base_conn = live.dbs.map.try_read().ok().and_then(|m| m.get(&dbname).and_then(|d| d.connections.try_read().ok().map(|c| c.load(std::sync::atomic::Ordering::Relaxed)))).unwrap_or(base_conn);
                        release_failures += 1;
                        if release_failures >= 5 {
                            break;
                        }
                    }
                }
            });
        }
    });
    drop(stm);
    // large bodies: one long value, or very many commands, in one request - around and beyond 1 MiB, the size at which
    // front ends commonly cut or refuse a body. Every command is executed once with its whole text and has its entry;
    // a request the server does not want must be refused as a whole (any answer other than 200 is accepted as that)
    let mut large = (0u64, 0u64, 0u64);
    {
        let db = "h9";
        let mib = 1usize << 20;
        let mut cases: Vec<(String, Vec<String>)> = vec![];
        for total in if thorough { vec![300_000usize, mib - 40, mib - 1, mib, mib + 1, mib + 40, mib + mib / 2, 3 * mib, 6 * mib] } else { vec![300_000usize, mib - 1, mib + 40, mib + mib / 2, 3 * mib] } {
            // (a) one long value in the middle of the batch
            let pad = "x".repeat(total.saturating_sub(120));
            cases.push((format!("one-value-{}", total), vec![format!("use-db {} tok", db), "set t0 before".into(), format!("set big {}", pad), "get t0".into(), "set t1 after".into(), "get t1".into(), "get big".into()]));
            // (b) multi-byte characters all along (a cut at any byte offset falls inside one now and then)
            let pad2 = "\u{20ac}".repeat(total / 3);
            cases.push((format!("one-multibyte-value-{}", total), vec![format!("use-db {} tok", db), format!("set bigm {}{}", ["", "a", "ab"][total % 3], pad2), "set t2 after".into(), "get t2".into()]));
            // (c) very many short commands
            let n = total / 22;
            let mut cmds = vec![format!("use-db {} tok", db)];
            for i in 0..n {
                cmds.push(format!("set m{:07} w{:07}", i % 500, i));
            }
            cmds.push(format!("get m{:07}", (n - 1) % 500));
            cases.push((format!("many-commands-{}", total), cmds));
        }
        for (name, cmds) in cases {
            let body = cmds.join(";");
            large.0 += 1;
            large.1 = large.1.max(body.len() as u64);
            let kind = name.rsplitn(2, '-').nth(1).unwrap_or("").to_string();
            let size_class = if body.len() <= mib { "up-to-1MiB" } else { "over-1MiB" };
            match http_post(&live.http, body.as_bytes(), Duration::from_secs(120)) {
                Err(e) if e.starts_with("status:") => {
                    // refused as a whole: nothing of it may have been executed
                    let mut a = crate::common::session::Session::new();
                    a.call(&live.dbs, &format!("use-db {} tok", db));
                    let probe = cmds.iter().rev().find(|c| c.starts_with("set ")).unwrap();
                    let (k, val) = (probe.split(' ').nth(1).unwrap(), probe.splitn(3, ' ').nth(2).unwrap());
                    let got = a.call(&live.dbs, &format!("get {}", k)).pushed;
                    a.disconnect(&live.dbs);
                    if got == vec![format!("value {}\n", val)] {
                        v.report(json!({"check": "http", "problem": "refused-request-was-executed", "body": kind, "size": size_class}), json!({"case": name, "body_bytes": body.len(), "answer": e}));
                    }
                }
                Err(e) => {
                    v.report(json!({"check": "http", "problem": "request-not-answered", "body": kind, "size": size_class}), json!({"case": name, "body_bytes": body.len(), "error": e}));
                }
                Ok(reply) => {
                    let entries: Vec<&str> = reply.split(';').collect();
                    large.2 += entries.len() as u64;
                    let mut problem: Option<String> = None;
                    if entries.len() != cmds.len() {
                        problem = Some(if entries.len() < cmds.len() { "fewer-entries-than-commands".into() } else { "more-entries-than-commands".into() });
                    } else {
                        for (c, e) in cmds.iter().zip(entries.iter()) {
                            let want = if c.starts_with("get ") {
                                let k = c.split(' ').nth(1).unwrap();
                                let val = cmds.iter().rev().find(|x| x.starts_with(&format!("set {} ", k))).map(|x| x.splitn(3, ' ').nth(2).unwrap().to_string()).unwrap_or("<Empty>".into());
                                format!("value {}\n", val)
                            } else {
                                "empty".to_string()
                            };
                            if *e != want {
                                problem = Some("entry-is-not-the-commands-own-result".into());
                                break;
                            }
                        }
                    }
                    // what was stored, read in-process afterwards
                    if problem.is_none() {
                        let mut a = crate::common::session::Session::new();
                        a.call(&live.dbs, &format!("use-db {} tok", db));
                        for c in cmds.iter().filter(|c| c.starts_with("set big") || c.starts_with("set t")) {
                            let (k, val) = (c.split(' ').nth(1).unwrap(), c.splitn(3, ' ').nth(2).unwrap());
                            if a.call(&live.dbs, &format!("get {}", k)).pushed != vec![format!("value {}\n", val)] {
                                problem = Some("command-not-executed-with-its-whole-text".into());
                            }
                        }
                        a.disconnect(&live.dbs);
                    }
                    if let Some(pb) = problem {
                        v.report(json!({"check": "http", "problem": pb, "body": kind, "size": size_class}), json!({"case": name, "body_bytes": body.len(), "commands": cmds.len(), "entries": entries.len(), "reply_head": reply.chars().take(200).collect::<String>()}));
                    }
                }
            }
        }
    }
    ev.set("large_bodies", json!({"requests": large.0, "largest_body_bytes": large.1, "entries_checked": large.2}));
    // every way a request can subscribe its session (round 10): a plain watch, the arbiter registration (a subscription
    // to the conflicts of the database), either of them wrapped as a replicated request, spelled with extra blanks,
    // alone or after the session's plain watch was already given back - when the request has ended NO sender is left in
    // any watcher list of the (otherwise unused) database, whatever the command was called that put it there, and the
    // connection count is back. Judged on the node's own watcher table, for plain and arbiter-strategy databases.
    let mut subscribe_forms = (0u64, 0u64, BTreeSet::<String>::new());
    {
        let mut adm = crate::common::session::Session::new();
        adm.call(&live.dbs, "auth admin pwd");
        adm.call(&live.dbs, "create-db hsubplain tok");
        adm.call(&live.dbs, "create-db hsubarb tok arbiter");
        adm.disconnect(&live.dbs);
        let forms: Vec<(&str, Vec<&str>)> = vec![
            ("watch", vec!["watch s1"]),
            ("arbiter", vec!["arbiter"]),
            ("rp-watch", vec!["rp 1 watch s2"]),
            ("rp-arbiter", vec!["rp 2 arbiter"]),
            ("watch-unwatch-then-arbiter", vec!["watch s1", "unwatch s1", "arbiter"]),
            ("watch-unwatch-all-then-rp-watch", vec!["watch s1", "unwatch-all", "rp 3 watch s3"]),
            ("arbiter-twice", vec!["arbiter", "arbiter"]),
            ("watch-after-a-refused-command", vec!["get $$secret", "frobnicate", "watch s4"]),
            ("arbiter-then-writes", vec!["arbiter", "set s5 a", "set-safe s5 0 b", "get s5"]),
            ("watch-of-many-keys", vec!["watch a1", "watch a2", "watch a3", "watch a4", "watch a5", "watch a1"]),
            ("watch-then-use-db-again", vec!["watch s6", "use-db {db} tok", "get s6"]),
        ];
        let senders_left = |db: &str| -> Option<(usize, Vec<String>)> {
            let map = live.dbs.map.try_read().ok()?;
            let d = map.get(db)?;
            let w = d.watchers.map.try_read().ok()?;
            let left: Vec<String> = w.iter().filter(|(_, s)| !s.is_empty()).map(|(k, s)| format!("{} x{}", k, s.len())).collect();
            let c = d.connections.try_read().ok().map(|c| c.load(std::sync::atomic::Ordering::Relaxed))?;
            Some((c, left))
        };
        'forms: for db in ["hsubplain", "hsubarb"] {
            for (name, cmds) in &forms {
                for sep in [";", "; ", ";;"] {
                    let body = format!("use-db {} tok{}{}", db, sep, cmds.iter().map(|c| c.replace("{db}", db)).collect::<Vec<_>>().join(sep));
                    let reply = http_post(&live.http, body.as_bytes(), Duration::from_secs(20));
                    subscribe_forms.0 += 1;
                    if reply.is_err() {
                        v.report(json!({"check": "http", "problem": "request-not-answered"}), json!({"body": body, "error": format!("{:?}", reply)}));
                        break 'forms;
                    }
                    let deadline = Instant::now() + Duration::from_secs(5);
                    let verdict = loop {
                        match senders_left(db) {
                            Some((0, left)) if left.is_empty() => break None,
                            other if Instant::now() > deadline => break Some(other),
                            _ => std::thread::sleep(Duration::from_millis(3)),
                        }
                    };
                    match verdict {
                        None => {
                            subscribe_forms.1 += 1;
                            subscribe_forms.2.insert(format!("{}|{}", name, if db == "hsubarb" { "arbiter-db" } else { "plain-db" }));
                        }
                        Some(None) => {
                            v.report(json!({"check": "http", "problem": "node-state-not-readable-a-lock-is-held"}), json!({"body": body}));
                            break 'forms;
                        }
                        Some(Some((conn, left))) => {
                            let problem = if !left.is_empty() { "subscription-not-released" } else { "connections-not-released" };
                            v.report(json!({"check": "http", "problem": problem, "context": format!("subscribed-by:{}", name)}), json!({"body": body, "reply": reply, "database": db, "senders_left_in_watcher_lists": left, "connections": conn}));
                            // what leaked stays: forget it so that the next form is judged on its own
                            if let Ok(map) = live.dbs.map.try_read() {
                                if let Some(d) = map.get(db) {
                                    if let Ok(mut w) = d.watchers.map.try_write() {
                                        w.clear();
                                    }
                                    if let Ok(c) = d.connections.try_read() {
                                        c.store(0, std::sync::atomic::Ordering::Relaxed);
                                    }
                                }
                            }
                        }
                    }
                }
            }
        }
    }
    ev.set("ways_of_subscribing_in_a_request", json!({"requests": subscribe_forms.0, "seen_released": subscribe_forms.1, "forms": subscribe_forms.2.iter().cloned().collect::<Vec<_>>()}));
    // requests of different clients on ONE database, served concurrently by the HTTP workers, each with subscriptions of
    // its own and one on a key all of them watch, while a long-lived session of that database (300 subscriptions) adds
    // one more subscription: every entry is the command's own, when the burst is over the subscriptions of the requests
    // are gone, the connection count is back where it was, and the long-lived session hears about the key it subscribed
    // to during the burst
    let mut shared_bursts = 0u64;
    let mut shared_subscriptions_released = 0u64;
    {
        let mut adm = crate::common::session::Session::new();
        adm.call(&live.dbs, "auth admin pwd");
        adm.call(&live.dbs, "create-db hshared tok");
        adm.call(&live.dbs, "use-db hshared tok");
        adm.call(&live.dbs, "set k v");
        let mut resident = crate::common::session::Session::new();
        resident.call(&live.dbs, "use-db hshared tok");
        for i in 0..300 {
            resident.call(&live.dbs, &format!("watch w{}", i));
        }
        let base = 2; // adm and resident stay connected
        let bursts = if thorough { 2000 } else { 150 };
        for b in 0..bursts {
            let barrier = std::sync::Barrier::new(9);
            let bad = std::sync::Mutex::new(vec![]);
            std::thread::scope(|sc| {
                for t in 0..8 {
                    let (live, barrier, bad) = (&live, &barrier, &bad);
                    sc.spawn(move || {
                        barrier.wait();
                        let body = format!("use-db hshared tok;watch b{};watch shared;get k", t);
                        match http_post(&live.http, body.as_bytes(), Duration::from_secs(20)) {
                            Ok(r) if r == "empty;empty;empty;value v\n" => {}
                            other => bad.lock().unwrap().push(format!("request {}: {:?}", t, other)),
                        }
                    });
                }
                let (live, barrier, resident) = (&live, &barrier, &mut resident);
                sc.spawn(move || {
                    barrier.wait();
                    std::thread::sleep(Duration::from_micros(150 + (b as u64 % 7) * 60));
                    resident.call(&live.dbs, &format!("watch n{}", b));
                });
            });
            shared_bursts += 1;
            let bad = bad.into_inner().unwrap();
            if !bad.is_empty() {
                v.report(json!({"check": "http", "problem": "entry-is-not-the-commands-own-result", "context": "concurrent-requests-on-one-database"}), json!({"burst": b, "replies": bad}));
                break;
            }
            let keys: Vec<String> = (0..8).map(|t| format!("b{}", t)).chain(["shared".to_string()]).collect();
            if let Some(r) = wait_released(&live, "hshared", &keys, base) {
                v.report(json!({"check": "http", "problem": r, "context": "concurrent-requests-on-one-database"}), json!({"burst": b, "requests": 8, "each_request": "use-db hshared tok;watch b<t>;watch shared;get k"}));
                break;
            }
            shared_subscriptions_released += 16;
            resident.drain();
            adm.call(&live.dbs, &format!("set n{} 1", b));
            let heard = resident.drain();
            if !heard.iter().any(|m| m.trim_end() == format!("changed n{} 1", b)) {
                v.report(json!({"check": "http", "problem": "request-end-dropped-another-sessions-subscription", "context": "concurrent-requests-on-one-database"}),
                    json!({"burst": b, "resident_session": format!("watch n{} (answered) while 8 requests on the database ended", b), "heard_after_set": heard}));
                break;
            }
        }
        resident.disconnect(&live.dbs);
        adm.disconnect(&live.dbs);
    }
    // the same bodies as one WebSocket frame: executed once each, in order (final state = model)
    let mut ws_frames = 0u64;
    {
        let mut rng = Rng::new(seed() + 5);
        let n = if thorough { 3000 } else { 300 };
        for j in 0..n {
            let id = ids.fetch_add(1, std::sync::atomic::Ordering::SeqCst);
            let len = rng.range(2, 6);
            let mut cmds = vec![T::UseOk];
            for _ in 0..len {
                cmds.push(rng.pick(&[T::Set(0), T::Set(1), T::Remove(0), T::IncNum, T::SetSafeOk(0), T::SetSafeStale(0), T::Get(0), T::IncNum]).clone());
            }
            let lines: Vec<String> = cmds.iter().enumerate().map(|(s, t)| render(t, id, s, "h8")).collect();
            let mut m = Model { admin: false, db: false, user: false, vals: BTreeMap::new(), vers: BTreeMap::new(), watched: BTreeSet::new() };
            for (t, l) in cmds.iter().zip(lines.iter()) {
                expect(&mut m, t, l);
            }
            let mut c = match WsClient::connect(&live.ws) {
                Ok(c) => c,
                Err(e) => {
                    v.report(json!({"check": "ws", "problem": "connect-failed"}), json!({"error": e}));
                    break;
                }
            };
            c.send_text(&lines.join(";"));
            c.send_text(&format!("marker-{}", j));
            let got = c.read_until(&format!("marker-{}", j), Duration::from_secs(20));
            c.close();
            ws_frames += 1;
            let statuses: Vec<String> = match &got {
                Ok(g) => g.iter().filter(|x| x.starts_with("ok") || x.starts_with("error")).map(|x| x.split(' ').next().unwrap().to_string()).collect(),
                Err(_) => vec![],
            };
            // final state through the node's own dump
            let state: BTreeMap<String, String> = {
                let map = live.dbs.map.read().unwrap();
                let d = map.get("h8").unwrap().map.read().unwrap();
                d.iter().filter(|(k, v)| (k.starts_with(&format!("k{}x", id)) || **k == format!("n{}", id)) && v.state != nundb::bo::ValueStatus::Deleted).map(|(k, v)| (k.clone(), v.value.clone())).collect()
            };
            let want: BTreeMap<String, String> = m.vals.iter().filter(|(k, _)| k.starts_with(&format!("k{}x", id)) || **k == format!("n{}", id)).map(|(k, v)| (k.clone(), v.clone())).collect();
            if state != want || statuses.len() != cmds.len() + 1 {
                v.report(json!({"check": "ws", "problem": if state != want {"frame-commands-not-executed-once-in-order"} else {"status-lines-differ-from-commands"}}),
                    json!({"frame": lines.join(";"), "state": state, "model": want, "statuses": statuses, "received": format!("{:?}", got)}));
            }
        }
    }
    let panics: Vec<String> = take_panics().into_iter().filter(|p| p.contains("/repo/")).collect();
    if !panics.is_empty() {
        v.report(json!({"check": "http", "problem": "service-thread-panicked"}), json!({"panics": panics}));
    }
    ev.evaluations = st.bodies + ws_frames;
    ev.distinct_nontrivial = st.shapes.len() as u64;
    ev.rule = format!("{} systematic bodies (all of length 1-2 over {} command templates; length 3 after 7 session-forming/refused first commands) + {} random bodies of 3-6 commands, POSTed to the real HTTP server with 4 separator styles (plain, trailing ';', blank statements, spaces); every entry compared with the per-command expectation of a session/key model; plus {} WebSocket frames of 3-7 commands whose final state must equal the model. distinct_nontrivial = distinct (refused/accepted pattern per position, separator style) body shapes", systematic, tm.len(), n_random, ws_frames);
    ev.samples = st.samples.clone();
    ev.set("http_bodies", json!(st.bodies));
    ev.set("commands", json!(st.commands));
    ev.set("bursts_of_8_concurrent_requests_on_one_database", json!(shared_bursts));
    ev.set("subscriptions_of_concurrent_requests_seen_released", json!(shared_subscriptions_released));
    ev.set("release_checks_after_request", json!(st.release_checks));
    ev.set("ws_frames", json!(ws_frames));
    ev.set("known_findings_seen", json!(v.known_seen()));
    ev.violations = v.violation_count();
    ev.assumptions = vec![
        "entries are split on ';' (no generated value contains ';')".into(),
        "when a session writes a key it watches itself, the entry of that write may be 'empty' or its own changed/removed notification (statement silent); later entries must still be their own".into(),
        "get-safe entries are matched on format and value, not on the version number".into(),
    ];
    ev.write();
    cleanup_scratch();
    let code = v.finish(tier);
    if code == 0 && (st.shapes.len() < 300 || st.release_checks < 1000) {
        println!("INCONCLUSIVE property=C20 reason=coverage floor not met ({} shapes, {} release checks)", st.shapes.len(), st.release_checks);
        return 2;
    }
    println!("C20 {}: {} HTTP bodies, {} commands, {} shapes, {} release checks, {} WS frames, {} violations", tier, st.bodies, st.commands, st.shapes.len(), st.release_checks, ws_frames, v.violation_count());
    code
}
