//! Setup self-test: every hook site the engines rely on is reachable.
use crate::common::node::{Node, NodeOpts};
use crate::common::session::Session;
use crate::common::*;
use nundb::bo::ClusterRole;
use std::collections::BTreeSet;
use std::sync::{Arc, Mutex};

pub fn run() -> i32 {
    let seen: Arc<Mutex<BTreeSet<String>>> = Arc::new(Mutex::new(BTreeSet::new()));
    let s2 = seen.clone();
    nundb::verif::set_point_callback(Some(Arc::new(move |site: &str| {
        s2.lock().unwrap().insert(site.to_string());
    })));
    let dir = fresh_dir("selftest");
    let mut node = Node::start(NodeOpts::simple(&dir));
    node.set_role(ClusterRole::Primary);
    let mut a = Session::new();
    for l in [
        "auth admin pwd", "create-db db tok", "use-db db tok", "set k 1", "watch k", "set k 2", "increment k", "get k",
        "keys", "remove k", "unwatch k", "unwatch-all", "snapshot false",
    ] {
        a.call(&node.dbs, l);
    }
    node.declutter();
    nundb::verif::set_point_callback(None);
    cleanup_scratch();
    let seen = seen.lock().unwrap();
    let need = [
        "db.map:get_value", "db.map:set_value_version", "db.map:inc_value", "db.map:list_keys", "db.map:get_key_value",
        "watchers.map:notify_watchers", "watchers.map:watch_key", "watchers.map:unwatch_key", "watchers.map:unwatch_all",
        "watchers.map:remove_value", "replicate:after_apply", "db.map:set_value", "replicate:after_id",
    ];
    let missing: Vec<&&str> = need.iter().filter(|n| !seen.contains(**n)).collect();
    if !missing.is_empty() {
        println!("INCONCLUSIVE property=setup reason=hook sites not reached: {:?}", missing);
        return 2;
    }
    println!("selftest: {} hook sites reached", seen.len());
    0
}
