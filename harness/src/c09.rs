//! C09 — every command acts only with the credential it requires.
//! The full credential x command x permission-list x key matrix is executed on
//! the real request handler; a tiny AuthModel says allowed / refused; a refused
//! command must answer an error, push no data, leave the state dump unchanged
//! and enqueue nothing for replication or the supervisor.
use crate::common::evidence::Evidence;
use crate::common::kf::Verdicts;
use crate::common::node::{dump_all, Node, NodeOpts};
use crate::common::rng::Rng;
use crate::common::session::{resp_str, Session};
use crate::common::*;
use nundb::bo::ClusterRole;
use serde_json::json;
use std::collections::{BTreeMap, BTreeSet};
use std::sync::Mutex;

#[derive(Clone, Debug, PartialEq)]
pub enum Cred {
    None,
    WrongPwd,
    WrongToken,
    DbToken,
    /// user token session; permission list of the user (None = no list)
    User(Option<String>),
    Admin,
    AdminDb,
}

#[derive(Clone, Debug, PartialEq)]
pub enum Need {
    Admin,
    /// data command on a key needing permission kind (r/w/i/x)
    Key(String, char),
    /// needs a selected database only
    Db,
    /// session commands and unknown words: judged separately
    Free,
}

fn pattern_match(pat: &str, key: &str) -> bool {
    if pat.ends_with('*') {
        key.starts_with(&pat.replace('*', ""))
    } else if pat.starts_with('*') {
        key.ends_with(&pat.replace('*', ""))
    } else {
        key.contains(pat)
    }
}

/// The permission rule as the documentation states it.
fn list_grants(list: &str, key: &str, kind: char) -> bool {
    list.split('|').any(|entry| {
        let mut p = entry.splitn(2, ' ');
        let kinds = p.next().unwrap_or("");
        let keys = p.next().unwrap_or("");
        // an entry without patterns carries the empty pattern, which (contains-semantics) matches every key
        kinds.contains(kind) && keys.split(',').any(|pat| pattern_match(pat, key))
    })
}

fn need_of(line: &str) -> Need {
    let mut p = line.splitn(3, ' ');
    let w = p.next().unwrap_or("");
    let a1 = p.next().unwrap_or("").to_string();
    match w {
        "create-db" | "snapshot" | "create-user" | "set-permissions" | "join" | "leave" | "replicate-join" | "replicate-leave" | "set-primary"
        | "set-secoundary" | "election" | "replicate" | "replicate-remove" | "replicate-increment" | "replicate-since" | "replicate-snapshot" | "ack"
        | "cluster-state" | "metrics-state" | "debug" | "list-commands" => Need::Admin,
        "get" | "get-safe" | "watch" => Need::Key(a1, 'r'),
        "set" | "set-safe" => Need::Key(a1, 'w'),
        "increment" => Need::Key(a1, 'i'),
        "remove" => Need::Key(a1, 'x'),
        "resolve" => {
            // resolve <id> <db> <key> <version> <value>
            let key = line.split(' ').nth(3).unwrap_or("").to_string();
            Need::Key(key, 'w')
        }
        "arbiter" => Need::Key("$conflicts".to_string(), 'r'),
        "unwatch" | "unwatch-all" | "keys" | "ls" => Need::Db,
        "rp" => {
            let inner = line.splitn(3, ' ').nth(2).unwrap_or("");
            need_of(inner)
        }
        _ => Need::Free,
    }
}

fn allowed(cred: &Cred, need: &Need) -> Option<bool> {
    let has_db = matches!(cred, Cred::DbToken | Cred::User(_) | Cred::AdminDb);
    let admin = matches!(cred, Cred::Admin | Cred::AdminDb);
    match need {
        Need::Admin => Some(admin),
        Need::Db => Some(has_db),
        Need::Key(key, kind) => {
            if !has_db {
                return Some(false);
            }
            if key.starts_with("$$") {
                return Some(admin);
            }
            match cred {
                Cred::User(None) => Some(false),
                Cred::User(Some(list)) => Some(list_grants(list, key, *kind)),
                _ => Some(true),
            }
        }
        Need::Free => None,
    }
}

const REFUSAL_LINES: [&str; 2] = ["error no-db-selected\n", "permission denied\n"];

fn is_credential_error(resp: &str) -> bool {
    resp == "Error Not auth" || resp == "Error To read security keys you must auth as an admin!" || resp == "Error error no-db-selected\n" || resp == "Error permission denied\n"
}

struct Fx {
    node: Node,
    adm: Session,
}

fn fixture(dir: &str, list: &Option<String>) -> Fx {
    let mut o = NodeOpts::simple(dir);
    o.addr = "127.0.0.1:4999".into();
    let node = Node::start(o);
    node.set_role(ClusterRole::Primary);
    let mut adm = Session::new();
    adm.call(&node.dbs, "auth admin pwd");
    adm.call(&node.dbs, "create-db db tok");
    adm.call(&node.dbs, "create-db other otok arbiter");
    adm.call(&node.dbs, "use-db db tok");
    adm.call(&node.dbs, "create-user u utok");
    if let Some(l) = list {
        adm.call(&node.dbs, &format!("set-permissions u {}", l));
    }
    // (two keys hold values no command line of the matrix contains: a text and a counter close to the limit - whatever a
    // command answers to a session that may not read them, the answer must not spell them out)
    for (k, v) in [("apple", "1"), ("buzz", "2"), ("xmidx", "3"), ("other", "4"), ("$$secret", "s"), ("n", "5"), ("anote", "t0p-s3cr3t-text"), ("acount", "2147400123")] {
        adm.call(&node.dbs, &format!("set {} {}", k, v));
    }
    // some keys have been written twice: their version is 1, so the `set-safe <key> 0 v` of the matrix is a stale write
    // for them (a refused stale write is one more way a command can answer, and must give nothing away either)
    for (k, v) in [("apple", "1"), ("xmidx", "3")] {
        adm.call(&node.dbs, &format!("set {} {}", k, v));
    }
    // a second database the sessions under test never present a credential for
    adm.call(&node.dbs, "use-db other otok");
    for (k, v) in [("apple", "o1"), ("n", "7"), ("buzz", "o2")] {
        adm.call(&node.dbs, &format!("set {} {}", k, v));
    }
    adm.call(&node.dbs, "use-db db tok");
    Fx { node, adm }
}

fn login(cred: &Cred, s: &mut Session, node: &Node) {
    let dbs = &node.dbs;
    match cred {
        Cred::None => {}
        Cred::WrongPwd => {
            // wrong, and near misses: truncated, extended, other case, swapped, empty
            for l in ["auth admin wrong", "auth wrong pwd", "auth", "auth admin", "auth a p", "auth admin pw", "auth adm pwd", "auth admin pwdx", "auth adminx pwd", "auth ADMIN PWD", "auth pwd admin", "auth  pwd", "auth admin "] {
                s.call(dbs, l);
            }
        }
        Cred::WrongToken => {
            for l in ["use-db db wrong", "use-db db u wrong", "use-db nodb tok", "use-db db", "use-db db t", "use-db db to", "use-db db tokx", "use-db db TOK", "use-db db u", "use-db db u uto", "use-db db u utokx", "use-db db ux utok", "use-db db u tok", "use-db other tok", "use-db db otok"] {
                s.call(dbs, l);
            }
        }
        Cred::DbToken => {
            s.call(dbs, "use-db db tok");
        }
        Cred::User(_) => {
            s.call(dbs, "use-db db u utok");
        }
        Cred::Admin => {
            s.call(dbs, "auth admin pwd");
        }
        Cred::AdminDb => {
            s.call(dbs, "auth admin pwd");
            s.call(dbs, "use-db db tok");
        }
    }
}

pub fn commands() -> Vec<String> {
    let mut c: Vec<String> = vec![];
    for k in ["apple", "buzz", "xmidx", "other", "$$secret", "n", "$conflicts", "fresh"] {
        for f in ["get {}", "get-safe {}", "watch {}", "set {} v", "set-safe {} 99 v", "set-safe {} 0 v", "increment {}", "increment {} 2", "remove {}", "resolve 1 db {} 5 v", "resolve 1 other {} 5 v", "unwatch {}", "rp 1 get {}", "rp 1 set {} v"] {
            c.push(f.replace("{}", k));
        }
    }
    for k in ["anote", "acount"] {
        for f in ["get {}", "increment {}", "increment {} 2147483647", "increment {} -2147483647", "set-safe {} 0 v", "set-safe {} x v", "increment {} x", "remove {} {}", "watch {}", "rp 1 increment {} 2147483647"] {
            c.push(f.replace("{}", k));
        }
    }
    for s in [
        "create-db n t", "create-db n2 t arbiter", "snapshot false", "snapshot true db", "snapshot false db|other", "create-user nu t", "set-permissions u rwix *", "set-permissions nu r a*",
        "join 127.0.0.1:1", "leave 127.0.0.1:1", "replicate-join 127.0.0.1:1", "replicate-leave 127.0.0.1:1", "set-primary 127.0.0.1:1", "set-secoundary 127.0.0.1:1",
        "election win", "election candidate 5 127.0.0.1:1", "election active 127.0.0.1:1", "election foo", "election", "replicate db apple 1 v", "replicate db $$token 1 v", "replicate-remove db apple",
        "replicate-increment db n 1", "replicate-since 127.0.0.1:1 0", "replicate-snapshot db false", "ack 1 127.0.0.1:1", "cluster-state", "metrics-state",
        "debug list-dbs", "debug pending-ops", "debug pendding-conflitcts", "debug force-election", "debug process-info", "list-commands", "arbiter", "unwatch-all", "keys", "keys a*", "ls *z",
        "rp 1 create-db viarp t", "rp 1 cluster-state", "rp 1 election win", "rp 1 join 127.0.0.1:1", "rp 2 replicate db apple 1 v", "rp 3 snapshot false db", "frobnicate apple",
    ] {
        c.push(s.to_string());
    }
    c
}

pub struct Stats {
    pub cells: u64,
    pub refused_cells: u64,
    pub allowed_cells: u64,
    pub distinct: BTreeSet<String>,
    pub samples: Vec<serde_json::Value>,
}

/// Runs `lines` in one session with credential `cred`; admin may change the user's list mid-session.
fn run_session(cred: &Cred, lines: &[(String, Option<Option<String>>)], secondary: bool, dir: &str, v: &Verdicts, stats: &Mutex<Stats>) {
    let list0 = if let Cred::User(l) = cred { l.clone() } else { Some("rwix *".to_string()) };
    let mut fx = fixture(dir, &list0);
    // in every other session with permission changes the fixture (users and permission lists included) has been through a
    // snapshot: a list removed later leaves a tombstone behind instead of vanishing from memory
    let persisted = lines.iter().any(|l| l.1.is_some()) && lines.len() % 2 == 0;
    if persisted {
        fx.adm.call(&fx.node.dbs, "snapshot false db");
        fx.node.declutter();
    }
    let mut cur_cred = cred.clone();
    let mut s = Session::new();
    login(cred, &mut s, &fx.node);
    s.drain();
    fx.node.pump();
    while fx.node.take_sup().is_some() {}
    // the same session on a secondary: writes are forwarded to the primary over its link, which is observed here; a
    // refused command must put nothing on it
    let mut primary_link = if secondary {
        let (tx, rx) = futures::channel::mpsc::channel::<String>(10_000);
        fx.node.dbs.add_cluster_member(nundb::bo::ClusterMember { name: "10.1.1.1:3014".to_string(), role: ClusterRole::Primary, sender: Some(tx) });
        fx.node.set_role(ClusterRole::Secoundary);
        Some(rx)
    } else {
        None
    };
    let mut trace = vec![];
    let mut cells = 0u64;
    let mut refused_n = 0u64;
    let mut allowed_n = 0u64;
    let mut distinct: Vec<String> = vec![];
    // keys this session subscribed to with a watch the model allowed
    let mut subscribed: BTreeSet<String> = BTreeSet::new();
    for (line, perm_change) in lines {
        if let Some(newlist) = perm_change {
            // permission change made by an administrator in the middle of the session
            match newlist {
                Some(l) => {
                    fx.adm.call(&fx.node.dbs, &format!("set-permissions u {}", l));
                }
                None => {
                    fx.adm.call(&fx.node.dbs, "remove $$permission_$u");
                }
            }
            fx.node.pump();
            if let Cred::User(_) = cur_cred {
                cur_cred = Cred::User(newlist.clone());
            }
            trace.push(json!({"admin-changes-permissions-of-u-to": newlist, "fixture_snapshotted_before_the_session": persisted}));
        }
        let need = need_of(line);
        let expect = allowed(&cur_cred, &need);
        if let (Need::Key(k, 'r'), Some(true), true) = (&need, expect, line.starts_with("watch ") || line == "arbiter" || line.ends_with(" arbiter")) {
            subscribed.insert(k.clone());
        }
        let before = dump_all(&fx.node.dbs);
        let other_before = crate::common::node::dump_db(&fx.node.dbs, "other");
        let sel_before = (s.client.selected_db_name(), s.client.selected_db_user_name(), s.client.is_admin_auth());
        let dbs = fx.node.dbs.clone();
        let res = std::panic::catch_unwind(std::panic::AssertUnwindSafe(|| s.call(&dbs, line)));
        let reply = match res {
            Ok(r) => r,
            Err(e) => {
                v.report(json!({"check": "auth", "problem": "panic", "word": line.split(' ').next().unwrap_or(""), "panic": panic_msg(&e).split(':').next().unwrap_or("")}), json!({"cred": format!("{:?}", cur_cred), "line": line, "trace": trace}));
                return;
            }
        };
        let mut repl_msgs = vec![];
        while let Some(m) = fx.node.take_repl() {
            repl_msgs.push(m);
        }
        let mut sup_msgs = vec![];
        while let Some(m) = fx.node.take_sup() {
            sup_msgs.push(m);
        }
        let mut to_primary: Vec<String> = vec![];
        if let Some(rx) = primary_link.as_mut() {
            while let Ok(Some(m)) = rx.try_next() {
                to_primary.push(m);
            }
        }
        let after = dump_all(&fx.node.dbs);
        cells += 1;
        let word = line.split(' ').next().unwrap_or("").to_string();
        let inner_word = if word == "rp" { line.split(' ').nth(2).unwrap_or("").to_string() } else { word.clone() };
        let cred_class = match &cur_cred {
            Cred::User(None) => "User(no-list)".to_string(),
            Cred::User(Some(_)) => "User(list)".to_string(),
            c => format!("{:?}", c),
        };
        trace.push(json!({"line": line, "reply": reply.resp, "pushed": reply.pushed, "replication_queue": repl_msgs, "supervisor_queue": sup_msgs, "sent_to_the_primary": to_primary}));
        // pushed lines without the rp acknowledgement
        let pushed: Vec<String> = reply.pushed.iter().filter(|p| !(word == "rp" && p.starts_with("ack "))).cloned().collect();
        let mut problem: Option<&str> = None;
        // whatever the command and its verdict (refused, failed, done): a user session that holds no read grant for a key
        // is not told what the key holds - not in a value line, not in the text of an error, not in a notification it did
        // not subscribe to while it could
        if let Cred::User(list) = &cur_cred {
            for (k, held) in [("anote", "t0p-s3cr3t-text"), ("acount", "2147400123")] {
                let may_read = list.as_ref().map(|l| list_grants(l, k, 'r')).unwrap_or(false) || subscribed.contains(k);
                if !may_read && (reply.resp.contains(held) || pushed.iter().any(|p| p.contains(held))) {
                    problem = Some("answer-spells-out-a-value-the-session-may-not-read");
                }
            }
        }
        // whatever the command and its verdict: a database this session never presented a credential for stays as it is
        let other_changed = !matches!(cur_cred, Cred::Admin | Cred::AdminDb) && crate::common::node::dump_db(&fx.node.dbs, "other") != other_before;
        match expect {
            Some(false) => {
                refused_n += 1;
                distinct.push(format!("{}/{}/refused", cred_class, inner_word));
                if !reply.is_error() {
                    problem = Some("refusable-command-not-refused");
                } else if pushed.iter().any(|p| !REFUSAL_LINES.contains(&p.as_str())) {
                    problem = Some("refused-command-returned-data");
                } else if after != before {
                    problem = Some("refused-command-changed-state");
                } else if !repl_msgs.is_empty() || !sup_msgs.is_empty() || !to_primary.is_empty() {
                    problem = Some("refused-command-emitted-cluster-message");
                }
            }
            Some(true) => {
                allowed_n += 1;
                distinct.push(format!("{}/{}/allowed", cred_class, inner_word));
                if is_credential_error(&reply.resp) {
                    problem = Some("permitted-command-refused");
                } else if let (Cred::User(list), true) = (&cur_cred, !["get", "get-safe"].contains(&inner_word.as_str())) {
                    // a permitted command of another kind (write, increment, remove, watch ...) is no licence to read: a
                    // value may reach a user session only through a read the permission list grants for that key
                    for p in &pushed {
                        let mut it = p.trim_end().splitn(3, ' ');
                        let (w0, k0) = (it.next().unwrap_or(""), it.next().unwrap_or(""));
                        let leaked = match w0 {
                            "value" | "value-version" => true,
                            // (a subscription taken while the list granted the read stays, whatever the list says later)
                            "changed" | "changed-version" | "removed" => !subscribed.contains(k0) && !list.as_ref().map(|l| list_grants(l, k0, 'r')).unwrap_or(false),
                            _ => false,
                        };
                        if leaked {
                            problem = Some("command-without-read-permission-returned-a-value");
                        }
                    }
                    if problem.is_none() && ["set", "set-safe", "increment", "remove"].contains(&word.as_str()) && (repl_msgs.len() > 1 || to_primary.len() > 1) {
                        problem = Some("permitted-command-acted-more-than-once");
                    }
                } else if matches!(cur_cred, Cred::User(_)) && ["set", "set-safe", "increment", "remove"].contains(&word.as_str()) && (repl_msgs.len() > 1 || to_primary.len() > 1) {
                    // one permitted write of a user is one change: one record for the operation log, one message for the primary
                    problem = Some("permitted-command-acted-more-than-once");
                }
            }
            None => {
                distinct.push(format!("{}/{}/free", cred_class, inner_word));
                // session commands: a failed use-db / auth leaves the session as it was
                if word == "use-db" || word == "use" {
                    if reply.is_error() {
                        let sel_after = (s.client.selected_db_name(), s.client.selected_db_user_name(), s.client.is_admin_auth());
                        if sel_after != sel_before {
                            problem = Some("failed-use-db-changed-selection");
                        }
                    }
                } else if word == "auth" {
                } else if reply.is_error() && (after != before || !repl_msgs.is_empty() || !sup_msgs.is_empty()) {
                    problem = Some("refused-command-changed-state");
                }
            }
        }
        if problem.is_none() && other_changed {
            problem = Some("command-changed-a-database-the-session-has-no-credential-for");
        }
        if let Some(p) = problem {
            let sub = if inner_word == "election" { format!("election {}", line.split(' ').nth(if word == "rp" { 3 } else { 1 }).unwrap_or("")) } else { inner_word.clone() };
            let sig = if secondary { json!({"check": "auth", "problem": p, "command": sub, "credential": cred_class, "via_rp": word == "rp", "node_role": "secondary"}) } else { json!({"check": "auth", "problem": p, "command": sub, "credential": cred_class, "via_rp": word == "rp"}) };
            let known = v.report(sig, json!({"credential": format!("{:?}", cur_cred), "line": line, "need": format!("{:?}", need), "trace": trace, "dump_before": before, "dump_after": after}));
            if !known {
                break;
            }
        }
    }
    let mut st = stats.lock().unwrap();
    st.cells += cells;
    st.refused_cells += refused_n;
    st.allowed_cells += allowed_n;
    for d in distinct {
        st.distinct.insert(d);
    }
    if st.samples.len() < 4 && trace.len() > 3 {
        st.samples.push(json!({"credential": format!("{:?}", cred), "first_steps": trace.iter().take(6).cloned().collect::<Vec<_>>()}));
    }
}

pub fn perm_lists() -> Vec<Option<String>> {
    let mut out: Vec<Option<String>> = vec![None];
    for kinds in ["r", "w", "i", "x", "rw", "ix", "rwix"] {
        for pat in ["a*", "*z", "mid", "*", "n", "$conflicts*"] {
            out.push(Some(format!("{} {}", kinds, pat)));
        }
    }
    for l in ["r a*|w b*", "r a*,b*|ix n", "w *|r xmidx", "rwix apple,buzz", "x *z|i n|r $conflicts", "r", "rw "] {
        out.push(Some(l.to_string()));
    }
    out
}

/// A command that was refused must stay without effect when its session ends, too: the end of a connection makes the
/// node act on what the session was (subscriptions, the database it selected, the cluster member it said it was). One
/// node (a secondary that knows its primary and another secondary) with its real TCP / WebSocket servers; per case a
/// connection that presents a credential or none, sends one administrator / cluster command, and ends (closed or
/// reset). Observed before and after: the member list, the role, what the node's threads handed to the supervisor and
/// (for sessions that never selected a database) to the replication loop.
fn sessions_that_end(v: &Verdicts, thorough: bool) -> serde_json::Value {
    use crate::transports::{LiveNode, TcpClient, WsClient};
    use std::sync::atomic::Ordering;
    use std::time::{Duration, Instant};
    let dir = fresh_dir("c09-end");
    let ln = match LiveNode::start(&dir, false) {
        Some(l) => l,
        None => {
            v.inconclusive("could not bind loopback ports");
            return json!({"cases": 0});
        }
    };
    let (primary, other) = ("10.1.1.1:3014", "10.1.1.2:3014");
    let mut rxs = vec![];
    for (name, role) in [(primary, nundb::bo::ClusterRole::Primary), (other, nundb::bo::ClusterRole::Secoundary)] {
        let (tx, rx) = futures::channel::mpsc::channel::<String>(10_000);
        ln.dbs.add_cluster_member(nundb::bo::ClusterMember { name: name.to_string(), role, sender: Some(tx) });
        rxs.push(rx);
    }
    ln.dbs.node_state.store(nundb::bo::ClusterRole::Secoundary as usize, Ordering::SeqCst);
    let observe = |ln: &LiveNode| -> (String, usize, usize, u64) {
        let members = {
            let cs = ln.dbs.cluster_state.lock().unwrap();
            let m = cs.members.lock().unwrap();
            let mut l: Vec<String> = m.iter().map(|(k, mem)| format!("{}={}", k, mem.role as usize)).collect();
            l.sort();
            l.join(",")
        };
        (members, ln.dbs.node_state.load(Ordering::SeqCst), ln.sup_log.lock().unwrap().len(), ln.repl_msgs.load(Ordering::Relaxed))
    };
    let settle = |ln: &LiveNode| {
        // until nothing has moved for 60 ms (at most 2 s)
        let deadline = Instant::now() + Duration::from_secs(2);
        let mut last = observe(ln);
        let mut since = Instant::now();
        while Instant::now() < deadline {
            std::thread::sleep(Duration::from_millis(10));
            let now = observe(ln);
            if now != last {
                last = now;
                since = Instant::now();
            } else if since.elapsed() > Duration::from_millis(60) {
                break;
            }
        }
    };
    let mut cmds: Vec<String> = vec![];
    for n in [primary, other, &ln.tcp.clone(), "10.9.9.9:3014"] {
        for w in ["set-primary", "set-secoundary", "join", "leave", "replicate-join", "replicate-leave", "election candidate 1", "election win", "election alive", "replicate-since"] {
            cmds.push(if w == "replicate-since" { format!("{} {} 0", w, n) } else { format!("{} {}", w, n) });
        }
    }
    for c in ["election win", "debug force-election", "snapshot false db", "create-db zz t", "create-user q t", "arbiter", "watch $$secret", "auth admin wrong", "auth wrong pwd", "cluster-state", "ack 1 10.1.1.2:3014"] {
        cmds.push(c.to_string());
    }
    let creds: [(&str, Vec<&str>); 3] = [("none", vec![]), ("db-token", vec!["use-db db tok"]), ("user-token", vec!["use-db db u utok"])];
    let (mut cases, mut acted) = (0u64, 0u64);
    let mut words = BTreeSet::new();
    let rounds = if thorough { 4 } else { 1 };
    for round in 0..rounds {
        for (ci, cmd) in cmds.iter().enumerate() {
            for (cname, login) in creds.iter() {
                for transport in ["tcp-close", "tcp-reset", "ws"] {
                    if transport == "ws" && (ci + round) % 4 != 0 {
                        continue;
                    }
                    settle(&ln);
                    let before = observe(&ln);
                    if transport == "ws" {
                        if let Ok(mut c) = WsClient::connect(&ln.ws) {
                            for l in login.iter() {
                                c.send_text(l);
                            }
                            c.send_text(cmd);
                            let _ = c.read_until("\u{1}never", Duration::from_millis(30));
                            if ci % 2 == 0 { c.close() } else { c.reset() }
                        } else {
                            continue;
                        }
                    } else {
                        match TcpClient::connect(&ln.tcp) {
                            Ok(mut c) => {
                                for l in login.iter() {
                                    c.send(format!("{}\n", l).as_bytes());
                                }
                                c.send(format!("{}\n", cmd).as_bytes());
                                // the reply to the last line (ok / error ...), then the end
                                let _ = c.read_for(Duration::from_millis(25));
                                if transport == "tcp-reset" {
                                    let _ = nix_linger_zero(&c.s);
                                }
                                drop(c);
                            }
                            Err(_) => continue,
                        }
                    }
                    // the handler sees the end of the connection some time later
                    std::thread::sleep(Duration::from_millis(15));
                    settle(&ln);
                    let after = observe(&ln);
                    cases += 1;
                    words.insert(cmd.split(' ').next().unwrap().to_string());
                    let new_sup: Vec<String> = ln.sup_log.lock().unwrap()[before.2..].to_vec();
                    let changed = before.0 != after.0 || before.1 != after.1 || !new_sup.is_empty() || (*cname == "none" && before.3 != after.3);
                    if changed {
                        acted += 1;
                        let what = if !new_sup.is_empty() { format!("supervisor-told:{}", new_sup[0].split(' ').next().unwrap_or("")) } else if before.0 != after.0 { "member-list-changed".to_string() } else if before.1 != after.1 { "role-changed".to_string() } else { "cluster-message-queued".to_string() };
                        v.report(json!({"check": "session-end", "problem": "refused-command-acted-when-its-session-ended", "word": cmd.split(' ').next().unwrap(), "credential": cname, "effect": what}),
                            json!({"transport": transport, "login": login, "command": cmd, "members_before": before.0, "members_after": after.0, "role_before": before.1, "role_after": after.1, "told_to_supervisor": new_sup, "replication_messages": [before.3, after.3]}));
                        // put the node back the way it was
                        ln.dbs.node_state.store(nundb::bo::ClusterRole::Secoundary as usize, Ordering::SeqCst);
                    }
                }
            }
        }
    }
    drop(rxs);
    json!({"cases": cases, "cases_in_which_the_node_acted": acted, "command_words": words.len(), "credentials": ["none", "db-token", "user-token"], "ends": ["tcp close", "tcp reset", "websocket close / reset"]})
}

fn nix_linger_zero(s: &std::net::TcpStream) -> std::io::Result<()> {
    use std::os::unix::io::AsRawFd;
    let l = libc::linger { l_onoff: 1, l_linger: 0 };
    let r = unsafe { libc::setsockopt(s.as_raw_fd(), libc::SOL_SOCKET, libc::SO_LINGER, &l as *const _ as *const libc::c_void, std::mem::size_of::<libc::linger>() as u32) };
    if r == 0 { Ok(()) } else { Err(std::io::Error::last_os_error()) }
}

pub fn run(tier: &str) -> i32 {
    quiet_panics();
    std::env::set_var("NUN_ELECTION_TIMEOUT", "10");
    let thorough = tier == "thorough";
    let v = Verdicts::load("C09");
    let mut ev = Evidence::new("C09", tier, "exploration");
    let stats = Mutex::new(Stats { cells: 0, refused_cells: 0, allowed_cells: 0, distinct: BTreeSet::new(), samples: vec![] });
    let cmds = commands();
    let mut sessions: Vec<(Cred, Vec<(String, Option<Option<String>>)>, bool)> = vec![];
    let mut creds = vec![Cred::None, Cred::WrongPwd, Cred::WrongToken, Cred::DbToken, Cred::AdminDb];
    for l in perm_lists() {
        creds.push(Cred::User(l));
    }
    // the whole matrix once: every credential x every command (cluster commands are not run with admin credentials: they start elections)
    for c in &creds {
        let lines: Vec<(String, Option<Option<String>>)> = cmds
            .iter()
            .filter(|l| {
                if *c != Cred::AdminDb {
                    return true;
                }
                let w = l.split(' ').next().unwrap();
                let inner = if w == "rp" { l.split(' ').nth(2).unwrap() } else { w };
                !["join", "leave", "replicate-join", "replicate-leave", "set-primary", "set-secoundary", "election", "replicate-since", "debug"].contains(&inner)
            })
            .map(|l| (l.clone(), None))
            .collect();
        sessions.push((c.clone(), lines.clone(), false));
        // and on a node that is a secondary (administrator sessions excepted: their commands reconfigure the cluster)
        if *c != Cred::AdminDb {
            sessions.push((c.clone(), lines, true));
        }
    }
    // failed use-db must not disturb an existing selection, for every kind of session
    for c in [Cred::DbToken, Cred::User(Some("rwix *".into())), Cred::AdminDb] {
        let lines = ["use-db db wrong", "get apple", "use-db db u wrong", "get apple", "use-db nodb tok", "get apple", "use-db db", "set apple 7", "use db nope", "get apple"];
        sessions.push((c, lines.iter().map(|l| (l.to_string(), None)).collect(), false));
    }
    let matrix_sessions = sessions.len();
    // permission changes in the middle of a session + (thorough) random sessions
    let mut rng = Rng::new(seed());
    let lists = perm_lists();
    let n_random = if thorough { 30_000 } else { 1_500 };
    for _ in 0..n_random {
        let start = rng.pick(&lists).clone();
        let len = rng.range(3, 12);
        let mut lines = vec![];
        for _ in 0..len {
            let change = if rng.chance(1, 4) { Some(rng.pick(&lists).clone()) } else { None };
            lines.push((rng.pick(&cmds).clone(), change));
        }
        sessions.push((Cred::User(start), lines, false));
    }
    let next = std::sync::atomic::AtomicUsize::new(0);
    std::thread::scope(|sc| {
        for w in 0..workers() {
            let (next, v, stats, sessions) = (&next, &v, &stats, &sessions);
            sc.spawn(move || {
                let dir = fresh_dir(&format!("c09-w{}", w));
                loop {
                    let i = next.fetch_add(1, std::sync::atomic::Ordering::SeqCst);
                    if i >= sessions.len() {
                        break;
                    }
                    let _ = std::fs::remove_dir_all(&dir);
                    std::fs::create_dir_all(&dir).unwrap();
                    run_session(&sessions[i].0, &sessions[i].1, sessions[i].2, &dir, v, stats);
                }
            });
        }
    });
    let st = stats.into_inner().unwrap();
    // credentials must not carry over between sessions of different clients on the real servers
    let mut iso_rng = Rng::new(seed() ^ 0x150c09);
    let iso = crate::transports::session_isolation(&v, false, &mut iso_rng, if tier == "thorough" { 400 } else { 40 });
    ev.set("sessions_over_real_transports", iso.to_json());
    let ended = sessions_that_end(&v, thorough);
    ev.set("sessions_that_end_over_real_transports", ended);
    ev.evaluations = st.cells;
    ev.distinct_nontrivial = st.distinct.len() as u64;
    ev.exhaustive = Some(true);
    ev.rule = format!("matrix: {} credentials (none, wrong password, wrong token, db token, admin+db, user token with no list and {} permission lists over kinds r/w/i/x x patterns prefix*/ *suffix / contains / multi-entry) x {} commands (every command word, data commands over 8 keys incl. $$ and $conflicts, rp-wrapped forms, unknown word) = {} sessions executed completely (exhaustive for this alphabet), + {} random user sessions of 3-12 commands with administrator permission changes in the middle; distinct_nontrivial = distinct (credential class, command word, model verdict) cells; + {} sessions without administrator credential over the real TCP / HTTP / WebSocket servers of one node, after / between administrator sessions over the same servers (every HTTP worker has served one): administrator commands must leave databases, users and permission lists unchanged and return no cluster data, and keys outside the session's credential stay unread and unchanged (state re-read after every session)", creds.len(), perm_lists().len() - 1, cmds.len(), matrix_sessions, n_random, iso.other_sessions);
    ev.samples = st.samples.clone();
    ev.set("refused_cells_checked_for_error_nodata_unchanged_noclustermsg", json!(st.refused_cells));
    ev.set("allowed_cells_checked_for_no_credential_error", json!(st.allowed_cells));
    ev.set("known_findings_seen", json!(v.known_seen()));
    ev.violations = v.violation_count();
    ev.assumptions = vec![
        "AuthModel: admin/cluster words need the admin password; data words need a selected database; $$ keys need admin; user-token sessions need kind r (get, get-safe, watch, arbiter on $conflicts), w (set, set-safe, resolve), i (increment), x (remove) on a pattern matching the key; a user without a list reaches no value; rp <id> <cmd> is judged as <cmd> (its ack line is protocol noise)".into(),
        "a refused command may push only the documented refusal lines (error no-db-selected / permission denied)".into(),
        "cluster commands are not executed with valid admin credentials here (they start elections; C07/C14 own that)".into(),
    ];
    ev.write();
    cleanup_scratch();
    let code = v.finish(tier);
    if code == 0 && (st.refused_cells < 2000 || st.allowed_cells < 500) {
        println!("INCONCLUSIVE property=C09 reason=coverage floor not met");
        return 2;
    }
    println!("C09 {}: {} cells ({} refused-by-model, {} allowed-by-model), {} distinct (credential, command, verdict) cells, {} violations", tier, st.cells, st.refused_cells, st.allowed_cells, st.distinct.len(), v.violation_count());
    code
}
