//! Engine R parts of C04, C05, C06, C07 (and through them C16's restart path): the same oracles as the simulated
//! cluster / the in-process node, but the nodes are real `nun-db` processes (src/bin/main.rs: start-up sequence, signal
//! handler, timer thread, `ask_to_join`, the TCP body of `start_replication`, `handle_client`'s disconnect handling).
//! A failed expectation is re-run on a fresh cluster (same scenario) before it is reported: a scenario that fails three
//! times out of three is a verdict, anything less is an inconclusive case (the machine may have been too slow for the
//! timing premise of the statement).
use crate::c05;
use crate::common::kf::Verdicts;
use crate::common::rng::Rng;
use crate::real::*;
use serde_json::{json, Value};
use std::collections::{BTreeMap, BTreeSet};
use std::sync::atomic::{AtomicUsize, Ordering};
use std::sync::Mutex;
use std::time::{Duration, Instant};

fn par_runs<F: Fn(usize) + Sync>(n: usize, width: usize, f: F) {
    // debugging aid: VERIF_NO_REAL=1 skips the real-process parts
    if std::env::var("VERIF_NO_REAL").is_ok() {
        return;
    }
    if let Some(only) = std::env::var("VERIF_ONLY").ok().and_then(|x| x.parse::<usize>().ok()) {
        f(only);
        return;
    }
    let next = AtomicUsize::new(0);
    std::thread::scope(|sc| {
        for _ in 0..width.min(n).max(1) {
            sc.spawn(|| loop {
                let i = next.fetch_add(1, Ordering::SeqCst);
                if i >= n {
                    break;
                }
                f(i);
            });
        }
    });
}

#[derive(Default)]
pub struct RealStats {
    pub runs: u64,
    pub judged_points: u64,
    pub classes: BTreeSet<String>,
    pub inconclusive: u64,
    pub retried: u64,
    pub keys_compared: u64,
    pub ops: u64,
    pub max_settle_ms: u64,
    pub extra: BTreeMap<String, u64>,
    pub samples: Vec<Value>,
}

impl RealStats {
    pub fn to_json(&self) -> Value {
        json!({"runs_with_real_processes": self.runs, "points_judged": self.judged_points, "scenario_classes": self.classes.iter().cloned().collect::<Vec<_>>(), "inconclusive_runs": self.inconclusive,
            "scenarios_re_run_after_a_failed_expectation": self.retried, "keys_compared": self.keys_compared, "client_operations": self.ops, "longest_wait_for_a_settled_cluster_ms": self.max_settle_ms, "counters": self.extra, "samples": self.samples})
    }
    fn bump(&mut self, k: &str, n: u64) {
        *self.extra.entry(k.to_string()).or_insert(0) += n;
    }
}

/// Roles and views of the live nodes, judged like c07::judge. `order` = live node indexes, oldest first.
pub fn judge_real(c: &mut RealCluster, order: &[usize]) -> Result<(), (String, String)> {
    if order.is_empty() {
        return Ok(());
    }
    let mut views = vec![];
    for i in order {
        if !c.alive(*i) {
            return Err(("node-process-died".into(), format!("n{} exited; output tail {:?}", i, c.log_tail(*i, 6))));
        }
        match c.view(*i) {
            Some(v) => views.push(v),
            None => return Err(("node-does-not-answer-cluster-state".into(), format!("n{}", i))),
        }
    }
    let detail = format!("live nodes oldest first {:?}; views {:?}", order.iter().map(|i| c.nodes[*i].tcp.clone()).collect::<Vec<_>>(), views);
    for v in &views {
        if v.1.values().filter(|r| r.as_str() == "Primary").count() > 1 {
            return Err(("a-member-list-names-more-than-one-primary".into(), detail));
        }
    }
    let prims: Vec<usize> = (0..order.len()).filter(|k| views[*k].0 == "Primary").collect();
    if prims.len() > 1 {
        return Err(("more-than-one-primary".into(), detail));
    }
    if prims.is_empty() {
        return Err(("no-primary".into(), detail));
    }
    if prims[0] != 0 {
        return Err(("primary-is-not-the-oldest-live-node".into(), detail));
    }
    for k in 1..order.len() {
        if views[k].0 != "Secoundary" {
            return Err(("non-primary-node-is-not-secondary".into(), detail));
        }
    }
    let paddr = c.nodes[order[0]].tcp.clone();
    for v in &views {
        let named: Vec<&String> = v.1.iter().filter(|(_, r)| r.as_str() == "Primary").map(|(n, _)| n).collect();
        if named.len() != 1 || named[0] != &paddr {
            return Err(("cluster-state-names-a-different-primary".into(), detail));
        }
    }
    Ok(())
}

/// Waits until the live nodes satisfy `judge_real` (and still do 300 ms later). Err = the last failed judgement.
fn settle(c: &mut RealCluster, order: &[usize], secs: u64) -> Result<u64, (String, String)> {
    let start = Instant::now();
    // a node's initial election fires one second after its start: the cluster is not quiet before it has been held
    if let Some(t) = c.last_start {
        // start + 1 s (initial election timer) + one election timeout (a candidate whose message was acknowledged before
        // it looked waits that long) + the 100 ms settle sleep + margin
        let quiet_from = t + Duration::from_millis(1000 + ELECTION_TIMEOUT_MS + 100 + 500);
        if let Some(wait) = quiet_from.checked_duration_since(Instant::now()) {
            std::thread::sleep(wait);
        }
    }
    let mut last = ("never-judged".to_string(), String::new());
    loop {
        match judge_real(c, order) {
            Ok(()) => {
                std::thread::sleep(Duration::from_millis(400));
                if judge_real(c, order).is_ok() {
                    return Ok(start.elapsed().as_millis() as u64);
                }
            }
            Err(e) => last = e,
        }
        if start.elapsed() > Duration::from_secs(secs) {
            return Err(last);
        }
        std::thread::sleep(Duration::from_millis(80));
    }
}

/// Starts the nodes one after the other, each only after the cluster has settled. Returns the live order (oldest first).
fn form(c: &mut RealCluster, n: usize) -> Result<Vec<usize>, (String, String)> {
    form_in(c, &(0..n).collect::<Vec<_>>())
}

/// The same with the nodes started in the given order (the order of their addresses in --replicate-address is the order
/// of their indices: a node that starts later than a node listed after it meets a secondary first when it asks to join).
fn form_in(c: &mut RealCluster, start_order: &[usize]) -> Result<Vec<usize>, (String, String)> {
    let mut order = vec![];
    for &i in start_order {
        if !c.start(i) {
            return Err(("inconclusive".into(), format!("n{} could not be started", i)));
        }
        order.push(i);
        settle(c, &order, 40)?;
    }
    Ok(order)
}

// ------------------------------------------------------------------------------------------------ C07
#[derive(Clone, Debug)]
enum Trigger {
    KillPrimary,
    StopPrimaryCleanly,
    KillSecondary,
    RestartDead,
    ForceElectionOnSecondary,
    ForceElectionOnPrimary,
}

fn c07_scenario(r: &mut Rng) -> (usize, Vec<Trigger>) {
    let n = if r.chance(1, 4) { 2 } else { 3 };
    c07_triggers(r, n)
}

/// start order of the nodes (indices = position in the address list) and whether they bind 0.0.0.0
fn c07_layout(r: &mut Rng, n: usize) -> (Vec<usize>, bool) {
    let mut perm: Vec<usize> = (0..n).collect();
    if r.chance(1, 2) {
        for i in (1..n).rev() {
            perm.swap(i, r.below(i + 1));
        }
    }
    (perm, r.chance(1, 3))
}

fn c07_triggers(r: &mut Rng, n: usize) -> (usize, Vec<Trigger>) {
    let mut t = vec![];
    let (mut live, mut dead) = (n, 0);
    for _ in 0..r.range(2, 4) {
        let mut options = vec![];
        if live >= 2 {
            options.extend([Trigger::KillPrimary, Trigger::StopPrimaryCleanly, Trigger::KillSecondary, Trigger::ForceElectionOnSecondary, Trigger::ForceElectionOnPrimary]);
        }
        if dead >= 1 {
            options.push(Trigger::RestartDead);
            options.push(Trigger::RestartDead);
        }
        let pick = r.pick(&options).clone();
        match pick {
            Trigger::KillPrimary | Trigger::StopPrimaryCleanly | Trigger::KillSecondary => {
                live -= 1;
                dead += 1;
            }
            Trigger::RestartDead => {
                live += 1;
                dead -= 1;
            }
            _ => {}
        }
        t.push(pick);
    }
    (n, t)
}

/// One scenario on a fresh cluster. Ok(points judged, longest settle) or Err((class of the step, problem, detail)).
fn c07_once(n: usize, triggers: &[Trigger], start_order: &[usize], bind_any: bool, tag: &str) -> Result<(u64, u64), (String, String, String)> {
    let mut c = RealCluster::new(n, tag, &[]);
    c.bind_any = bind_any;
    let res = (|| {
        let mut order = form_in(&mut c, start_order).map_err(|e| ("sequential-joins".to_string(), e.0, e.1))?;
        let mut dead: Vec<usize> = vec![];
        let (mut points, mut longest) = (n as u64, 0u64);
        for t in triggers {
            let class = format!("{:?}", t);
            match t {
                Trigger::KillPrimary => {
                    let p = order.remove(0);
                    c.kill(p);
                    dead.push(p);
                }
                Trigger::StopPrimaryCleanly => {
                    let p = order.remove(0);
                    if c.sigint(p).is_none() {
                        return Err((class, "clean-shutdown-did-not-finish".to_string(), format!("n{} did not exit 30 s after SIGINT", p)));
                    }
                    dead.push(p);
                }
                Trigger::KillSecondary => {
                    let s = order.pop().unwrap();
                    c.kill(s);
                    dead.push(s);
                }
                Trigger::RestartDead => {
                    let d = dead.remove(0);
                    if !c.start(d) {
                        return Err((class, "inconclusive".to_string(), format!("n{} could not be restarted", d)));
                    }
                    order.push(d); // a restarted process is the youngest
                }
                Trigger::ForceElectionOnSecondary | Trigger::ForceElectionOnPrimary => {
                    let i = if matches!(t, Trigger::ForceElectionOnPrimary) { order[0] } else { *order.last().unwrap() };
                    if let Some(mut a) = c.admin(i) {
                        let _ = a.cmd("debug force-election");
                    }
                }
            }
            match settle(&mut c, &order, 45) {
                Ok(ms) => {
                    points += 1;
                    longest = longest.max(ms);
                }
                Err((p, d)) => return Err((class, p, d)),
            }
            for i in 0..n {
                let p = c.panics(i);
                if !p.is_empty() {
                    return Err((class, "a-thread-of-the-node-panicked".to_string(), format!("n{}: {:?}", i, p)));
                }
            }
        }
        Ok((points, longest))
    })();
    c.shutdown();
    res
}

pub fn c07_real(v: &Verdicts, runs: usize, seed0: u64) -> RealStats {
    let st = Mutex::new(RealStats::default());
    par_runs(runs, 8, |i| {
        let mut r = Rng::new(seed0.wrapping_mul(7_000_003).wrapping_add(i as u64));
        let (n, triggers) = c07_scenario(&mut r);
        let (start_order, bind_any) = c07_layout(&mut r, n);
        let mut fails: Vec<(String, String, String)> = vec![];
        let mut ok = None;
        for attempt in 0..3 {
            match c07_once(n, &triggers, &start_order, bind_any, &format!("c07-{}-{}", i, attempt)) {
                Ok(x) => {
                    ok = Some(x);
                    break;
                }
                Err(e) if e.1 == "inconclusive" => {
                    fails.clear();
                    break;
                }
                Err(e) => fails.push(e),
            }
        }
        let mut s = st.lock().unwrap();
        s.runs += 1;
        s.classes.insert(format!("{} nodes started {:?}{}: {}", n, start_order, if bind_any { " bound to 0.0.0.0" } else { "" }, triggers.iter().map(|t| format!("{:?}", t)).collect::<Vec<_>>().join(" > ")));
        if !fails.is_empty() {
            s.retried += 1;
        }
        match ok {
            Some((points, longest)) => {
                s.judged_points += points;
                s.max_settle_ms = s.max_settle_ms.max(longest);
                if !fails.is_empty() {
                    s.inconclusive += 1;
                    v.inconclusive(&format!("real-process election scenario failed {} time(s) and then held: {:?}", fails.len(), fails[0]));
                }
            }
            None if fails.len() == 3 && fails.iter().all(|f| f.0 == fails[0].0 && f.1 == fails[0].1) => {
                drop(s);
                v.report(json!({"check": "election-real-processes", "after_trigger": fails[0].0, "problem": fails[0].1}), json!({"nodes": n, "triggers": format!("{:?}", triggers), "started_in_order": start_order, "bound_to_any_address": bind_any, "three_attempts": fails.iter().map(|f| f.2.clone()).collect::<Vec<_>>()}));
            }
            None => {
                s.inconclusive += 1;
                v.inconclusive(&format!("real-process election scenario: {:?}", fails.first()));
            }
        }
    });
    st.into_inner().unwrap()
}

// ------------------------------------------------------------------------------------------------ C04
type Data = BTreeMap<String, Option<BTreeMap<String, (String, i32)>>>;

fn read_all(c: &RealCluster, nodes: &[usize], dbs: &[(String, String)]) -> Option<Vec<Data>> {
    nodes.iter().map(|i| c.dataset(*i, dbs)).collect()
}

/// Polls until every node's data equals the first node's; Err(datasets) once they have been unequal and unchanged for 3 s
/// (or 25 s in total).
fn converge(c: &RealCluster, nodes: &[usize], dbs: &[(String, String)], tainted: &BTreeSet<String>) -> Result<Vec<Data>, Option<Vec<Data>>> {
    let start = Instant::now();
    let mut last: Option<Vec<Data>> = None;
    let mut unchanged_since = Instant::now();
    loop {
        let cur = read_all(c, nodes, dbs);
        if let Some(sets) = &cur {
            if diff(sets, tainted).is_empty() {
                return Ok(cur.unwrap());
            }
        }
        if cur != last {
            unchanged_since = Instant::now();
            last = cur;
        }
        if (unchanged_since.elapsed() > Duration::from_secs(3) && last.is_some()) || start.elapsed() > Duration::from_secs(25) {
            return Err(last);
        }
        std::thread::sleep(Duration::from_millis(100));
    }
}

fn diff(sets: &[Data], tainted: &BTreeSet<String>) -> Vec<(String, String, &'static str, usize)> {
    let mut out = vec![];
    for i in 1..sets.len() {
        let (p, o) = (&sets[0], &sets[i]);
        for (db, pk) in p {
            match (pk, o.get(db).cloned().flatten()) {
                (None, None) => {}
                (Some(_), None) | (None, Some(_)) => out.push((db.clone(), String::new(), "database-list-differs", i)),
                (Some(pk), Some(ok)) => {
                    let all: BTreeSet<&String> = pk.keys().chain(ok.keys()).collect();
                    for k in all {
                        if tainted.contains(k) {
                            continue;
                        }
                        let (a, b) = (pk.get(k), ok.get(k));
                        if a == b {
                            continue;
                        }
                        let d = match (a, b) {
                            (Some(_), None) | (None, Some(_)) => "removed-or-live-status-differs",
                            (Some(a), Some(b)) if a.0 != b.0 => "value-differs",
                            _ => "version-differs",
                        };
                        out.push((db.clone(), k.clone(), d, i));
                    }
                }
            }
        }
    }
    out
}

fn c04_once(seed: u64, tag: &str, v: &Verdicts, st: &Mutex<RealStats>) -> Result<(), String> {
    let mut r = Rng::new(seed);
    let n = r.range(2, 3);
    let failover = r.chance(1, 4);
    let total = if failover { n + 1 } else { n };
    let mut c = RealCluster::new(total, tag, &[("NUN_DECLUTTER_INTERVAL", "1")]);
    let res = (|| -> Result<(), String> {
        let mut order = form(&mut c, total).map_err(|e| format!("formation: {} {}", e.0, e.1))?;
        if failover {
            let p = order.remove(0);
            c.kill(p);
            settle(&mut c, &order, 45).map_err(|e| format!("fail-over: {} {}", e.0, e.1))?;
        }
        // logical node 0 = the primary
        let mut clients = vec![];
        for i in &order {
            clients.push(c.admin(*i).ok_or("no admin session")?);
        }
        let mut dbs = vec![("d".to_string(), "tok".to_string())];
        let mut tainted: BTreeSet<String> = BTreeSet::new();
        clients[0].must("create-db d tok")?;
        converge(&c, &order, &dbs, &tainted).map_err(|_| "create-db did not reach every node".to_string())?;
        for cl in clients.iter_mut() {
            cl.must("use-db d tok")?;
        }
        // a WebSocket session on the primary: the transport that hands a command over exactly as the client framed it
        let mut ws = crate::transports::WsClient::connect(&c.nodes[order[0]].ws).map_err(|e| format!("no WebSocket session: {}", e))?;
        ws.send_text(&format!("auth {} {};use-db d tok", USER, PWD));
        let _ = ws.read_until("ok", Duration::from_secs(10));
        let mut uniq = 0;
        let mut log: Vec<String> = vec![];
        let mut snapshot_earlier = false;
        let len = r.range(3, 8);
        for step in 0..len {
            uniq += 1;
            let k = *r.pick(&["k1", "k2", "num"]);
            let mut node = if r.chance(1, 3) { r.range(1, n - 1) } else { 0 };
            let mut kind: &'static str = match if step == 1 { 14 } else { r.below(15) } {
                14 => "set-with-white-space-at-the-end",
                0..=3 => "set",
                4..=5 => "set-safe",
                6..=7 => "remove",
                8..=10 => "increment",
                11 => "create-user",
                12 => "set-permissions",
                _ => "snapshot",
            };
            if k == "num" && (kind == "set" || kind == "set-safe") {
                kind = "increment";
            }
            let over_ws = kind == "set-with-white-space-at-the-end" && r.chance(2, 3);
            if over_ws {
                node = 0;
            }
            let (line, key) = match kind {
                "set-with-white-space-at-the-end" => (format!("set w{} tail{}{}", uniq % 2, uniq, *r.pick(&[" ", "  ", "\t", " \t "])), format!("w{}", uniq % 2)),
                "set" => (if r.chance(1, 3) { format!("set {} same{}", k, r.below(2)) } else { format!("set {} v{} with words", k, uniq) }, k.to_string()),
                "set-safe" => (format!("set-safe {} {} s{}", k, r.below(4), uniq), k.to_string()),
                "remove" => (format!("remove {}", k), k.to_string()),
                "increment" => (format!("increment {} {}", k, *r.pick(&[1i32, 2, 3, 0, -2])), k.to_string()),
                "create-user" => (format!("create-user u{} secret{}", uniq % 2, uniq), format!("$$user_u{}", uniq % 2)),
                "set-permissions" => (format!("set-permissions u{} rw k*", uniq % 2), format!("$$permission_$u{}", uniq % 2)),
                _ => ("snapshot false d".to_string(), String::new()),
            };
            log.push(format!("n{}{}: {:?}", node, if over_ws { " (websocket)" } else { "" }, line));
            if over_ws {
                if !ws.send_text(&line) {
                    return Err("WebSocket session lost".into());
                }
                let _ = ws.read_until("ok", Duration::from_secs(10));
            } else {
                let _ = clients[node].cmd(&line)?;
            }
            st.lock().unwrap().ops += 1;
            if kind == "snapshot" {
                std::thread::sleep(Duration::from_millis(2300)); // two timer periods: every node has written its snapshot
            }
            match converge(&c, &order, &dbs, &tainted) {
                Ok(sets) => st.lock().unwrap().keys_compared += sets[0].values().flatten().map(|m| m.len() as u64).sum::<u64>() * (n as u64 - 1),
                Err(None) => return Err("a node stopped answering".into()),
                Err(Some(sets)) => {
                    let mut unknown = false;
                    for (db, key2, divergence, at) in diff(&sets, &tainted) {
                        // (a set whose value ends in white space is a set: same signature, the value is in the report)
                        let sig = json!({"check": "convergence", "cause": "sequential-operation", "op": if kind == "set-with-white-space-at-the-end" { "set" } else { kind }, "issued_at": if node == 0 {"primary"} else {"secondary"},
                            "problem": divergence, "differs_at": if at == node { "the-issuing-node" } else { "another-secondary" }, "snapshot_earlier_in_history": snapshot_earlier});
                        let known = v.report(sig, json!({"engine": "real processes", "nodes": n, "after_failover": failover, "seed": seed, "ops": log, "detail": format!("{} key {} (written key {}): node {} differs from the primary", db, key2, key, at), "datasets": sets}));
                        tainted.insert(key2);
                        if !known {
                            unknown = true;
                        }
                    }
                    if unknown {
                        return Ok(());
                    }
                }
            }
            if kind == "snapshot" {
                snapshot_earlier = true;
            }
        }
        if r.chance(1, 4) {
            clients[0].must("create-db second tok2 newer")?;
            dbs.push(("second".into(), "tok2".into()));
            if let Err(Some(sets)) = converge(&c, &order, &dbs, &tainted) {
                v.report(json!({"check": "convergence", "cause": "sequential-operation", "op": "create-db", "issued_at": "primary", "problem": "database-list-differs"}), json!({"engine": "real processes", "ops": log, "datasets": sets}));
                return Ok(());
            }
        }
        // two free-running sessions on the primary: increments on a shared counter (they commute), sets / removes on their own keys
        let paddr = c.nodes[order[0]].tcp.clone();
        let sums: Vec<i64> = std::thread::scope(|sc| {
            let hs: Vec<_> = (0..2)
                .map(|s| {
                    let paddr = paddr.clone();
                    let mut r2 = Rng::new(seed ^ (s as u64 + 11));
                    sc.spawn(move || {
                        let mut sum = 0i64;
                        if let Some(mut cl) = RealClient::connect(&paddr) {
                            let _ = cl.cmd(&format!("auth {} {}", USER, PWD));
                            let _ = cl.cmd("use-db d tok");
                            for j in 0..25 {
                                match r2.below(3) {
                                    0 => {
                                        let d = r2.range(1, 4) as i64;
                                        if matches!(cl.cmd(&format!("increment cnum {}", d)), Ok((true, _, _))) {
                                            sum += d;
                                        }
                                    }
                                    1 => {
                                        let _ = cl.cmd(&format!("set own{} w{}-{}", s, s, j));
                                    }
                                    _ => {
                                        let _ = cl.cmd(&format!("remove own{}", s));
                                    }
                                }
                            }
                        }
                        sum
                    })
                })
                .collect();
            hs.into_iter().map(|h| h.join().unwrap_or(0)).collect()
        });
        st.lock().unwrap().ops += 50;
        match converge(&c, &order, &dbs, &tainted) {
            Ok(sets) => {
                let got = sets[0].get("d").cloned().flatten().and_then(|m| m.get("cnum").map(|x| x.0.clone())).unwrap_or("0".into());
                if got.parse::<i64>().ok() != Some(sums.iter().sum::<i64>()) && sums.iter().sum::<i64>() != 0 {
                    v.report(json!({"check": "convergence", "cause": "two-concurrent-primary-sessions", "problem": "acknowledged-increments-do-not-add-up"}), json!({"engine": "real processes", "expected": sums, "got": got}));
                }
            }
            Err(None) => return Err("a node stopped answering".into()),
            Err(Some(sets)) => {
                let mut seen = BTreeSet::new();
                for (_db, k, divergence, _at) in diff(&sets, &tainted) {
                    let kinds: Vec<&str> = if k == "cnum" { vec!["increment"] } else { vec!["remove", "set"] };
                    let sig = json!({"check": "convergence", "cause": "single-primary-session-on-key", "problem": divergence, "concurrent_ops_on_key": kinds});
                    let sig = if k == "cnum" { json!({"check": "convergence", "cause": "two-concurrent-primary-sessions-on-one-key", "problem": divergence, "concurrent_ops_on_key": kinds}) } else { sig };
                    if seen.insert(sig.to_string()) {
                        v.report(sig, json!({"engine": "real processes", "key": k, "ops": log, "datasets": sets}));
                    }
                }
            }
        }
        for i in 0..total {
            let p = c.panics(i);
            if !p.is_empty() {
                v.report(json!({"check": "convergence", "cause": "sequential-operation", "problem": "service-thread-panicked"}), json!({"engine": "real processes", "node": i, "panics": p, "ops": log}));
            }
        }
        let mut s = st.lock().unwrap();
        s.classes.insert(format!("{} nodes{}", n, if failover { " after a fail-over" } else { "" }));
        if s.samples.len() < 2 {
            s.samples.push(json!({"nodes": n, "after_failover": failover, "sequential_ops": log}));
        }
        Ok(())
    })();
    c.shutdown();
    res
}

pub fn c04_real(v: &Verdicts, runs: usize, seed0: u64) -> RealStats {
    let st = Mutex::new(RealStats::default());
    par_runs(runs, 8, |i| {
        let r = c04_once(seed0.wrapping_mul(4_000_037).wrapping_add(i as u64), &format!("c04-{}", i), v, &st);
        let mut s = st.lock().unwrap();
        s.runs += 1;
        if let Err(why) = r {
            s.inconclusive += 1;
            v.inconclusive(&format!("real-process convergence run: {}", why));
        }
    });
    st.into_inner().unwrap()
}

// ------------------------------------------------------------------------------------------------ C05
fn issue_real(cl: &mut RealClient, ops: &[c05::Op], st: &Mutex<RealStats>) -> Result<bool, String> {
    let mut snap = false;
    for op in ops {
        let (d, line) = c05::render(op);
        if !matches!(op, c05::Op::CreateDb(_) | c05::Op::Snapshot(_)) {
            cl.must(&format!("use-db {} tok-{}", c05::DBS[d].0, c05::DBS[d].0))?;
        }
        if matches!(op, c05::Op::Remove(..)) {
            cl.cmd(&line)?;
        } else {
            cl.must(&line)?;
        }
        st.lock().unwrap().ops += 1;
        if matches!(op, c05::Op::Snapshot(_)) {
            snap = true;
        }
    }
    Ok(snap)
}

fn dbs_of(c: &RealCluster, i: usize) -> Option<BTreeMap<String, c05::Db>> {
    let names: Vec<(String, String)> = c05::DBS.iter().map(|d| (d.0.to_string(), format!("tok-{}", d.0))).collect();
    let data = c.dataset(i, &names)?;
    let mut out = BTreeMap::new();
    // a database is there if it can be selected with its token; one that exists with another token is told apart by
    // the error text
    let mut a = c.admin(i)?;
    for (db, keys) in data {
        match keys {
            Some(mut m) => {
                m.remove("$$token");
                out.insert(db.clone(), (format!("tok-{}", db), String::new(), m));
            }
            None => {
                if let Ok((false, status, _)) = a.cmd(&format!("use-db {} tok-{}", db, db)) {
                    if status.contains("Invalid token") {
                        out.insert(db.clone(), ("<another token>".to_string(), String::new(), BTreeMap::new()));
                    }
                }
            }
        }
    }
    Some(out)
}

fn c05_once(sc: &c05::Scenario, bind_any: bool, tag: &str, v: &Verdicts, st: &Mutex<RealStats>) -> Result<(), String> {
    let n = if sc.bystander { 3 } else { 2 };
    let mut c = RealCluster::new(n, tag, &[("NUN_DECLUTTER_INTERVAL", "1")]);
    c.bind_any = bind_any;
    c.log_level = "debug".into();
    let res = (|| -> Result<(), String> {
        let order = form(&mut c, n).map_err(|e| format!("formation: {} {}", e.0, e.1))?;
        let mut p = c.admin(0).ok_or("no admin session")?;
        let snap = issue_real(&mut p, &sc.before, st)?;
        // the joiner must have everything before it leaves (C04's business if it has not)
        let start = Instant::now();
        loop {
            let (a, b) = (dbs_of(&c, 0), dbs_of(&c, 1));
            if a.is_some() && a == b {
                break;
            }
            if start.elapsed() > Duration::from_secs(15) {
                return Err("the joiner never caught up with the operations before its departure".into());
            }
            std::thread::sleep(Duration::from_millis(100));
        }
        if snap {
            std::thread::sleep(Duration::from_millis(2300));
        }
        if sc.clean_stop {
            if c.sigint(1).is_none() {
                return Err("joiner did not exit after SIGINT".into());
            }
        } else {
            c.kill(1);
        }
        // did the joiner really leave with a usable operation log? (sessions that close while the signal handler runs may
        // register a key after the key map was written: the log is then marked invalid, and a full sync is the right answer)
        nundb::verif::set_dir(Some(c.nodes[1].dir.clone()));
        let flag_valid = std::panic::catch_unwind(|| nundb::disk_ops::is_oplog_valid()).unwrap_or(false);
        nundb::verif::set_dir(None);
        let mut sc_sig = sc.clone();
        sc_sig.leaves_with_valid_oplog = sc.leaves_with_valid_oplog && flag_valid;
        let sc_sig = &sc_sig;
        if sc.wipe {
            let _ = std::fs::remove_dir_all(&c.nodes[1].dir);
            std::fs::create_dir_all(&c.nodes[1].dir).unwrap();
        }
        let survivors: Vec<usize> = order.iter().cloned().filter(|i| *i != 1).collect();
        settle(&mut c, &survivors, 45).map_err(|e| format!("after the departure: {} {}", e.0, e.1))?;
        if issue_real(&mut p, &sc.away, st)? {
            std::thread::sleep(Duration::from_millis(2300));
        }
        let log_before = std::fs::metadata(c.log_path(0)).map(|m| m.len()).unwrap_or(0);
        if !c.start(1) {
            return Err("joiner could not be restarted".into());
        }
        issue_real(&mut p, &sc.during, st)?;
        let mut back = survivors.clone();
        back.push(1);
        let mut problems: Vec<(String, String)> = vec![];
        if let Err(e) = settle(&mut c, &back, 45) {
            problems.push(("roles-after-rejoin".into(), format!("{} {}", e.0, e.1)));
        }
        // synchronisation complete = the joiner's data has stopped changing (two equal readings 1.2 s apart)
        let start = Instant::now();
        let mut prev = None;
        let join = loop {
            let cur = dbs_of(&c, 1);
            if cur.is_some() && cur == prev && start.elapsed() > Duration::from_millis(2500) {
                break cur.unwrap();
            }
            prev = cur;
            if start.elapsed() > Duration::from_secs(40) {
                return Err("the joiner's data never stopped changing".into());
            }
            std::thread::sleep(Duration::from_millis(1200));
        };
        let prim = dbs_of(&c, 0).ok_or("primary does not answer")?;
        // which synchronisation did the joiner ask for? (the primary logs every command line it receives)
        let log = std::fs::read(c.log_path(0)).unwrap_or_default();
        let new = String::from_utf8_lossy(&log[(log_before as usize).min(log.len())..]).to_string();
        let needle = format!("replicate-since {} ", c.nodes[1].tcp);
        let since: Option<u64> = new.lines().filter(|l| l.contains("Command print") && l.contains(&needle)).last().and_then(|l| l.trim().rsplit(' ').next().and_then(|x| x.parse().ok()));
        let sync_kind = match since {
            Some(0) => "full",
            Some(_) => "incremental",
            None => "none-requested",
        };
        for i in 0..n {
            let pn = c.panics(i);
            if !pn.is_empty() {
                problems.push(("service-thread-panicked".into(), format!("n{}: {:?}", i, pn)));
            }
        }
        let last_phase = c05::last_phase_of(sc);
        let compared = c05::compare_resync(sc, &prim, &join, &last_phase, &mut problems);
        {
            let mut s = st.lock().unwrap();
            s.keys_compared += compared;
            s.classes.insert(format!("{}|{}|{}|{}{}", sync_kind, if sc.clean_stop { "clean" } else { "kill" }, if sc.wipe { "wiped" } else { "disk" }, n, if bind_any { "|bound to 0.0.0.0" } else { "" }));
            s.bump(&format!("sync:{}", sync_kind), 1);
            if sc_sig.leaves_with_valid_oplog {
                s.bump("joiner left with a valid operation log", 1);
            }
            if s.samples.len() < 2 {
                s.samples.push(json!({"scenario": format!("{:?}", sc), "sync": sync_kind, "since": since, "primary": prim, "joiner": join}));
            }
        }
        let mut seen = BTreeSet::new();
        for (problem, detail) in problems {
            let sig = c05::resync_signature(sc_sig, sync_kind, &problem);
            if seen.insert(sig.to_string()) {
                v.report(sig, json!({"engine": "real processes", "scenario": format!("{:?}", sc), "detail": detail, "primary": prim, "joiner": join, "since": since}));
            }
        }
        Ok(())
    })();
    c.shutdown();
    res
}

pub fn c05_real(v: &Verdicts, runs: usize, seed0: u64) -> RealStats {
    let st = Mutex::new(RealStats::default());
    par_runs(runs, 8, |i| {
        let mut r = Rng::new(seed0.wrapping_mul(5_000_011).wrapping_add(i as u64));
        let mut sc = c05::gen_scenario(&mut r);
        // a change of primary while the joiner is away stays with the simulated cluster
        sc.primary_changes_while_away = false;
        if i % 4 == 0 {
            // directed: everything persisted, clean stop with the disk kept (the joiner can ask for a since-a-time catch-up),
            // and it misses an update, a new database, a remove
            use c05::Op::*;
            sc = c05::Scenario { before: vec![CreateDb(0), CreateDb(2), Set(0, "k0".into(), 3), Set(0, "k1".into(), 1), CreateDb(1), Set(1, "k2".into(), 2), Snapshot(0), Snapshot(1), Snapshot(2)],
                away: vec![Set(0, "k1".into(), 0), Remove(0, "k0".into()), Set(1, "k0".into(), 4)], during: vec![], clean_stop: true, wipe: false, bystander: i % 8 == 0, primary_changes_while_away: false, leaves_with_valid_oplog: true };
        }
        // every third cluster: the nodes bind 0.0.0.0 and are known to each other by their external address
        let res = c05_once(&sc, i % 3 == 1, &format!("c05-{}", i), v, &st);
        let mut s = st.lock().unwrap();
        s.runs += 1;
        if let Err(why) = res {
            s.inconclusive += 1;
            v.inconclusive(&format!("real-process resynchronisation run: {}", why));
        }
    });
    st.into_inner().unwrap()
}

// ------------------------------------------------------------------------------------------------ C06 (and C16's restart)
/// A single real node: writes, `snapshot`, the snapshot is written by the timer thread (NUN_DECLUTTER_INTERVAL=1) or by
/// the SIGINT handler; then more (unsnapshotted) writes, kill or SIGINT, start again: what the node reports must be
/// what it reported when the last snapshot was written.
fn c06_once(seed: u64, tag: &str, v: &Verdicts, st: &Mutex<RealStats>) -> Result<(), String> {
    let mut r = Rng::new(seed);
    let by_timer = r.chance(1, 2);
    let mut c = RealCluster::new(1, tag, &[("NUN_DECLUTTER_INTERVAL", if by_timer { "1" } else { "3600" })]);
    let dbs: Vec<(String, String)> = vec![("a".into(), "ta".into()), ("ab".into(), "tb".into())];
    let res = (|| -> Result<(), String> {
        form(&mut c, 1).map_err(|e| format!("start: {} {}", e.0, e.1))?;
        let mut log = vec![];
        let mut image: Option<Data> = None;
        let mut a = c.admin(0).ok_or("no admin session")?;
        a.must("create-db a ta")?;
        a.must("create-db ab tb newer")?;
        let mut uniq = 0;
        for _round in 0..r.range(1, 3) {
            for _ in 0..r.range(2, 7) {
                uniq += 1;
                let d = r.below(2);
                a.must(&format!("use-db {} {}", dbs[d].0, dbs[d].1))?;
                let k = format!("k{}", r.below(3));
                let line = match r.below(6) {
                    0..=2 => format!("set {} {}{}", k, r.pick(&["one", "two words ", "", "ünï-value", "v"]), uniq),
                    3 => format!("remove {}", k),
                    4 => format!("increment n {}", r.range(0, 3)),
                    _ => format!("set-safe {} {} s{}", k, r.below(3), uniq),
                };
                log.push(format!("{}: {}", dbs[d].0, line));
                a.cmd(&line)?;
                st.lock().unwrap().ops += 1;
            }
            let reclaim = r.chance(1, 3);
            let line = format!("snapshot {} a|ab", reclaim);
            log.push(line.clone());
            a.must(&line)?;
            if by_timer {
                std::thread::sleep(Duration::from_millis(2400));
                image = c.dataset(0, &dbs);
            }
        }
        let how;
        if by_timer {
            // unsnapshotted tail, then a kill
            a.must("use-db a ta")?;
            a.must("set tail not-persisted")?;
            log.push("a: set tail not-persisted (no snapshot)".into());
            c.kill(0);
            how = "snapshot-by-the-timer-thread-then-kill";
        } else {
            image = c.dataset(0, &dbs);
            match c.sigint(0) {
                Some(0) => {}
                other => {
                    v.report(json!({"check": "restore-real-process", "how": "sigint", "problem": "clean-shutdown-failed"}), json!({"exit": format!("{:?}", other), "ops": log, "output": c.log_tail(0, 10)}));
                    return Ok(());
                }
            }
            how = "snapshot-by-the-signal-handler";
        }
        let image = image.ok_or("image could not be read")?;
        drop(a);
        if !c.start(0) {
            v.report(json!({"check": "restore-real-process", "how": how, "problem": "node-does-not-start-again"}), json!({"ops": log, "output": c.log_tail(0, 10)}));
            return Ok(());
        }
        settle(&mut c, &[0], 40).map_err(|e| format!("restart: {} {}", e.0, e.1))?;
        let after = c.dataset(0, &dbs).ok_or("restarted node does not answer")?;
        let mut s = st.lock().unwrap();
        s.keys_compared += image.values().flatten().map(|m| m.len() as u64).sum::<u64>();
        s.classes.insert(how.to_string());
        drop(s);
        if after != image {
            let sets = vec![image.clone(), after.clone()];
            let mut seen = BTreeSet::new();
            for (db, k, divergence, _) in diff(&sets, &BTreeSet::new()) {
                let sig = json!({"check": "restore-real-process", "how": how, "problem": divergence});
                if seen.insert(sig.to_string()) {
                    v.report(sig, json!({"db": db, "key": k, "ops": log, "reported_at_the_snapshot": image, "reported_after_the_restart": after}));
                }
            }
        }
        let p = c.panics(0);
        if !p.is_empty() {
            v.report(json!({"check": "restore-real-process", "how": how, "problem": "a-thread-of-the-node-panicked"}), json!({"panics": p, "ops": log}));
        }
        Ok(())
    })();
    c.shutdown();
    res
}

pub fn c06_real(v: &Verdicts, runs: usize, seed0: u64) -> RealStats {
    let st = Mutex::new(RealStats::default());
    par_runs(runs, 8, |i| {
        let res = c06_once(seed0.wrapping_mul(6_000_101).wrapping_add(i as u64), &format!("c06-{}", i), v, &st);
        let mut s = st.lock().unwrap();
        s.runs += 1;
        if let Err(why) = res {
            s.inconclusive += 1;
            v.inconclusive(&format!("real-process restore run: {}", why));
        }
    });
    st.into_inner().unwrap()
}

// ------------------------------------------------------------------------------------------------ C14
/// Lines a node received from its peers since `from` (byte offset in its log): what `handle_client` prints for every line
/// it reads ("Command print: ...") and what the client side of a link reads back ("replication::next::...").
fn received_lines(c: &RealCluster, i: usize, from: u64) -> Vec<String> {
    let bytes = std::fs::read(c.log_path(i)).unwrap_or_default();
    let txt = String::from_utf8_lossy(&bytes[(from as usize).min(bytes.len())..]).to_string();
    let mut out = vec![];
    for l in txt.lines() {
        if let Some(p) = l.find("Command print: ") {
            let m = l[p + "Command print: ".len()..].trim();
            if !m.is_empty() {
                out.push(m.to_string());
            }
        } else if let Some(p) = l.find("replication::next::") {
            let m = l[p + "replication::next::".len()..].trim();
            if !m.is_empty() && m != "ok" && !m.starts_with("valid auth") && !m.starts_with("Empty message") {
                out.push(m.to_string());
            }
        }
    }
    out
}

fn log_sizes(c: &RealCluster) -> Vec<u64> {
    (0..c.n()).map(|i| std::fs::metadata(c.log_path(i)).map(|m| m.len()).unwrap_or(0)).collect()
}

/// Waits until no node has written to its log for `quiet_ms` (the nodes log nothing while idle at debug level).
fn wait_logs_quiet(c: &RealCluster, quiet_ms: u64, max_s: u64) -> bool {
    let start = Instant::now();
    let mut last = log_sizes(c);
    let mut since = Instant::now();
    loop {
        std::thread::sleep(Duration::from_millis(40));
        let cur = log_sizes(c);
        if cur != last {
            last = cur;
            since = Instant::now();
        } else if since.elapsed() > Duration::from_millis(quiet_ms) {
            return true;
        }
        if start.elapsed() > Duration::from_secs(max_s) {
            return false;
        }
    }
}

fn c14_once(seed: u64, tag: &str, v: &Verdicts, st: &Mutex<RealStats>) -> Result<(), String> {
    let mut r = Rng::new(seed);
    let n = r.range(2, 3);
    let mut c = RealCluster::new(n, tag, &[]);
    c.log_level = "debug".into();
    // (name, line template, replicated changes it may produce)
    let cmds: Vec<(&str, &str, u64)> = vec![
        ("get", "get k{n}", 0), ("keys", "keys k*", 0), ("set", "set k{n} v{n}", 1), ("set-existing", "set shared v{n}", 1), ("set-safe-accepted", "set-safe k{n} 5 v{n}", 1),
        ("set-safe-stale", "set-safe shared 0 stale{n}", 0), ("remove", "remove shared2", 1), ("remove-absent", "remove nokey{n}", 1), ("increment", "increment counter 2", 1),
        ("create-user", "create-user u{n} secret", 1), ("set-permissions", "set-permissions u{n} rw k*", 1), ("snapshot", "snapshot false", 1), ("watch", "watch k{n}", 0), ("unknown", "frobnicate {n}", 0),
    ];
    let res = (|| -> Result<(), String> {
        let order = form(&mut c, n).map_err(|e| format!("formation: {} {}", e.0, e.1))?;
        let mut clients = vec![];
        for i in &order {
            clients.push(c.admin(*i).ok_or("no admin session")?);
        }
        clients[0].must("create-db d tok")?;
        for cl in clients.iter_mut() {
            // the database reaches the secondaries asynchronously
            let start = Instant::now();
            loop {
                match cl.cmd("use-db d tok")? {
                    (true, _, _) => break,
                    _ if start.elapsed() > Duration::from_secs(10) => return Err("database d never reached a secondary".into()),
                    _ => std::thread::sleep(Duration::from_millis(100)),
                }
            }
        }
        for l in ["set shared 1", "set shared 2", "set shared2 x", "set counter 1"] {
            clients[0].must(l)?;
        }
        let s_count = (n - 1) as u64;
        let mut uniq = (seed % 1000) * 100;
        let mut picks: Vec<usize> = (0..cmds.len() * n).collect();
        r.shuffle(&mut picks);
        for oi in picks.into_iter().take(12) {
            let (name, tmpl, changes) = cmds[oi % cmds.len()];
            let node = (oi / cmds.len()) % n;
            uniq += 1;
            if name == "remove" {
                clients[0].must("set shared2 again")?;
            }
            if !wait_logs_quiet(&c, 300, 20) {
                return Err("the nodes never stopped logging before a measurement".into());
            }
            let before = log_sizes(&c);
            let line = tmpl.replace("{n}", &uniq.to_string());
            let _ = clients[node].cmd(&line)?;
            if !wait_logs_quiet(&c, 400, 20) {
                v.report(json!({"check": "burst", "command": name, "issued_at": if node == 0 {"primary"} else {"secondary"}, "problem": "no-quiescence-within-step-budget"}), json!({"engine": "real processes", "command": line, "detail": "the nodes were still exchanging lines 20 s after the command"}));
                return Ok(());
            }
            let mut burst: Vec<String> = vec![];
            for i in 0..n {
                let mut lines = received_lines(&c, order[i], before[order[i]]);
                if i == node {
                    // the client's own command line arrived at the node it was sent to
                    if let Some(p) = lines.iter().position(|l| l == &line) {
                        lines.remove(p);
                    }
                }
                burst.extend(lines.into_iter().map(|l| format!("received by n{}: {}", i, l)));
            }
            let allowed = changes.max(1) * (1 + 2 * s_count);
            {
                let mut s = st.lock().unwrap();
                s.ops += 1;
                s.judged_points += 1;
                s.bump("protocol lines seen", burst.len() as u64);
                s.classes.insert(format!("{}@{}/n{}", name, if node == 0 { "primary" } else { "secondary" }, n));
                if s.samples.len() < 3 && burst.len() >= 3 {
                    s.samples.push(json!({"nodes": n, "command": line, "issued_at": node, "lines": burst}));
                }
            }
            if burst.len() as u64 > allowed {
                v.report(json!({"check": "burst", "command": name, "issued_at": if node == 0 {"primary"} else {"secondary"}, "problem": "more-messages-than-forward-plus-copies-plus-acks"}),
                    json!({"engine": "real processes", "nodes": n, "command": line, "bound": allowed, "lines": burst}));
            }
        }
        // a secondary that stalls (stopped process, connections stay open) while the primary takes a write, and comes back
        // seconds later: the operation still costs one copy and one acknowledgement per secondary, however late
        {
            let stalled = order[n - 1];
            if !wait_logs_quiet(&c, 300, 20) {
                return Err("the nodes never stopped logging before a measurement".into());
            }
            let before = log_sizes(&c);
            c.pause(stalled, true);
            uniq += 1;
            let line = format!("set k{} late{}", uniq, uniq);
            let sent = clients[0].cmd(&line);
            std::thread::sleep(Duration::from_millis(4500));
            c.pause(stalled, false);
            sent?;
            if !wait_logs_quiet(&c, 600, 30) {
                v.report(json!({"check": "burst", "command": "set", "issued_at": "primary", "problem": "no-quiescence-within-step-budget", "while": "a-secondary-was-stalled"}), json!({"engine": "real processes", "command": line}));
                return Ok(());
            }
            let mut burst: Vec<String> = vec![];
            for i in 0..n {
                let mut lines = received_lines(&c, order[i], before[order[i]]);
                if i == 0 {
                    if let Some(p) = lines.iter().position(|l| l == &line) {
                        lines.remove(p);
                    }
                }
                burst.extend(lines.into_iter().map(|l| format!("received by n{}: {}", i, l)));
            }
            let allowed = 1 + 2 * s_count;
            {
                let mut s = st.lock().unwrap();
                s.ops += 1;
                s.judged_points += 1;
                s.bump("protocol lines seen", burst.len() as u64);
                s.bump("operations measured while a secondary was stalled for 4.5 s", 1);
                s.classes.insert(format!("set@primary-with-a-stalled-secondary/n{}", n));
            }
            if burst.len() as u64 > allowed {
                v.report(json!({"check": "burst", "command": "set", "issued_at": "primary", "problem": "more-messages-than-forward-plus-copies-plus-acks", "while": "a-secondary-was-stalled"}),
                    json!({"engine": "real processes", "nodes": n, "command": line, "bound": allowed, "lines": burst}));
            }
        }
        for i in 0..n {
            let p = c.panics(i);
            if !p.is_empty() {
                v.report(json!({"check": "burst", "command": "any", "issued_at": "any", "problem": "service-thread-panicked"}), json!({"engine": "real processes", "node": i, "panics": p}));
            }
        }
        Ok(())
    })();
    c.shutdown();
    res
}

pub fn c14_real(v: &Verdicts, runs: usize, seed0: u64) -> RealStats {
    let st = Mutex::new(RealStats::default());
    par_runs(runs, 6, |i| {
        let res = c14_once(seed0.wrapping_mul(14_000_029).wrapping_add(i as u64), &format!("c14-{}", i), v, &st);
        let mut s = st.lock().unwrap();
        s.runs += 1;
        if let Err(why) = res {
            s.inconclusive += 1;
            v.inconclusive(&format!("real-process burst run: {}", why));
        }
    });
    st.into_inner().unwrap()
}

// ------------------------------------------------------------------------------------------------ C10
/// Hostile input at the level of the transports against one real process: framing the in-process corpus cannot express
/// (a lying Content-Length, aborted connections, endless lines, broken WebSocket frames) and input whose failure mode
/// is an abort of the whole process (stack overflow, allocation failure), which no in-process harness survives.
/// After every input class: is the process alive, do the three listeners still serve a fresh client, did a thread panic?
fn raw_send(addr: &str, bytes: &[u8], hold_ms: u64, reset: bool) {
    use std::io::Write;
    if let Ok(mut s) = std::net::TcpStream::connect(addr) {
        let _ = s.set_write_timeout(Some(Duration::from_secs(5)));
        let _ = s.write_all(bytes);
        std::thread::sleep(Duration::from_millis(hold_ms));
        if reset {
            use std::os::unix::io::AsRawFd;
            let lin = libc::linger { l_onoff: 1, l_linger: 0 };
            unsafe {
                libc::setsockopt(s.as_raw_fd(), libc::SOL_SOCKET, libc::SO_LINGER, &lin as *const _ as *const libc::c_void, std::mem::size_of::<libc::linger>() as libc::socklen_t);
            }
        }
    }
}

fn probe_listeners(c: &RealCluster) -> Result<(), String> {
    use crate::transports::{http_post, WsClient};
    let n = &c.nodes[0];
    let mut t = RealClient::connect(&n.tcp).ok_or("tcp-listener-does-not-accept")?;
    match t.cmd("use-db pdb ptok") {
        Ok((true, _, _)) => {}
        other => return Err(format!("tcp-listener-does-not-serve: {:?}", other)),
    }
    match t.cmd("set probe 1") {
        Ok((true, _, _)) => {}
        other => return Err(format!("tcp-listener-does-not-serve: {:?}", other)),
    }
    // every one of the four HTTP workers
    for i in 0..6 {
        match http_post(&n.http, format!("use-db pdb ptok;set hprobe {};get hprobe", i).as_bytes(), Duration::from_secs(10)) {
            Ok(r) if r.contains(&format!("value {}", i)) => {}
            other => return Err(format!("http-listener-does-not-serve: {:?}", other)),
        }
    }
    let mut w = WsClient::connect(&n.ws).map_err(|e| format!("ws-listener-does-not-accept: {}", e))?;
    w.send_text("use-db pdb ptok;set wprobe 7;get wprobe");
    let r = w.read_until("value 7", Duration::from_secs(10));
    w.close();
    if r.is_err() {
        return Err(format!("ws-listener-does-not-serve: {:?}", r));
    }
    Ok(())
}

pub fn c10_real(v: &Verdicts, thorough: bool) -> RealStats {
    let mut st = RealStats::default();
    if std::env::var("VERIF_NO_REAL").is_ok() {
        return st;
    }
    let deep = |n: usize| format!("{}get probe", "rp 1 ".repeat(n));
    // (class, transport, payloads, hold ms, end with a reset)
    let mut inputs: Vec<(&str, &str, Vec<Vec<u8>>, u64, bool)> = vec![];
    let tcp_pre = b"auth admin pwd\nuse-db pdb ptok\n".to_vec();
    for (name, n) in [("rp-nested-200-deep", 200usize), ("rp-nested-3000-deep", 3000), ("rp-nested-30000-deep", 30000)] {
        inputs.push((name, "tcp", vec![[tcp_pre.clone(), format!("{}\n", deep(n)).into_bytes()].concat()], 400, false));
    }
    inputs.push(("rp-nested-3000-deep-unauthenticated", "tcp", vec![format!("{}\n", deep(3000)).into_bytes()], 400, false));
    inputs.push(("rp-nested-3000-deep", "http", vec![format!("POST / HTTP/1.1\r\nHost: x\r\nConnection: close\r\nContent-Length: {}\r\n\r\n{}", deep(3000).len(), deep(3000)).into_bytes()], 400, false));
    inputs.push(("rp-nested-3000-deep", "ws", vec![deep(3000).into_bytes()], 400, false));
    // the same nesting spelled in every way a lenient parser might accept (the guard against an rp inside an rp is a
    // textual one: whatever the parser takes for the command word `rp` must be refused as a wrapped command as well)
    let spelled = |unit: &[&str], n: usize| -> String { let mut s = String::new(); for i in 0..n { s.push_str(unit[i % unit.len()]); } s.push_str("get probe"); s };
    for (name, unit) in [
        ("rp-nested-3000-deep-upper-case", &["RP 1 "][..]),
        ("rp-nested-3000-deep-mixed-case", &["rp 1 ", "Rp 2 ", "rP 3 ", "RP 4 "][..]),
        ("rp-nested-3000-deep-first-level-lower-case-then-upper", &["rp 1 ", "RP 2 ", "RP 3 ", "RP 4 ", "RP 5 ", "RP 6 "][..]),
        ("rp-nested-3000-deep-tab-separated", &["rp\t1\t"][..]),
        ("rp-nested-3000-deep-double-space", &["rp  1  "][..]),
        ("rp-nested-3000-deep-leading-space", &["rp 1  "][..]),
        ("rp-nested-3000-deep-semicolon-terminated", &["rp 1 rp; 2 "][..]),
    ] {
        inputs.push((name, "tcp", vec![[tcp_pre.clone(), format!("{}\n", spelled(unit, 3000)).into_bytes()].concat()], 400, false));
    }
    inputs.push(("rp-nested-3000-deep-upper-case-unauthenticated", "tcp", vec![format!("{}\n", spelled(&["RP 7 "], 3000)).into_bytes()], 400, false));
    inputs.push(("rp-nested-3000-deep-mixed-case", "http", vec![{ let b = spelled(&["rp 1 ", "RP 2 "], 3000); format!("POST / HTTP/1.1\r\nHost: x\r\nConnection: close\r\nContent-Length: {}\r\n\r\n{}", b.len(), b).into_bytes() }], 400, false));
    inputs.push(("rp-nested-3000-deep-mixed-case", "ws", vec![spelled(&["rp 1 ", "RP 2 "], 3000).into_bytes()], 400, false));
    inputs.push(("connections-aborted-before-they-are-served", "tcp", (0..60).map(|_| vec![]).collect(), 0, true));
    inputs.push(("connections-aborted-before-they-are-served", "http", (0..30).map(|_| vec![]).collect(), 0, true));
    inputs.push(("connections-aborted-before-they-are-served", "ws", (0..30).map(|_| vec![]).collect(), 0, true));
    inputs.push(("line-of-3-MB-without-end", "tcp", vec![vec![b'a'; 3_000_000]], 200, false));
    inputs.push(("line-of-3-MB-without-end-then-reset", "tcp", vec![vec![b'a'; 3_000_000]], 50, true));
    inputs.push(("binary-garbage", "tcp", vec![(0..4096u32).map(|i| (i.wrapping_mul(2654435761) >> 13) as u8).collect()], 100, false));
    inputs.push(("content-length-larger-than-the-body", "http", (0..6).map(|_| b"POST / HTTP/1.1\r\nHost: x\r\nConnection: close\r\nContent-Length: 500\r\n\r\nauth admin pwd".to_vec()).collect(), 150, false));
    inputs.push(("content-length-of-100-terabytes", "http", (0..2).map(|_| b"POST / HTTP/1.1\r\nHost: x\r\nConnection: close\r\nContent-Length: 99999999999999\r\n\r\nauth admin pwd".to_vec()).collect(), 150, false));
    inputs.push(("content-length-not-a-number", "http", vec![b"POST / HTTP/1.1\r\nHost: x\r\nContent-Length: -5\r\n\r\nauth admin pwd".to_vec(), b"POST / HTTP/1.1\r\nHost: x\r\nContent-Length: abc\r\n\r\nx".to_vec()], 150, false));
    inputs.push(("chunked-body-with-a-broken-chunk-size", "http", vec![b"POST / HTTP/1.1\r\nHost: x\r\nTransfer-Encoding: chunked\r\n\r\nffffffffffffffff\r\nauth admin pwd\r\n0\r\n\r\n".to_vec(), b"POST / HTTP/1.1\r\nHost: x\r\nTransfer-Encoding: chunked\r\n\r\nzz\r\nauth\r\n".to_vec()], 150, false));
    inputs.push(("request-line-garbage", "http", vec![b"\x00\x01\x02 / HTTP/9.9\r\n\r\n".to_vec(), b"GET\r\n\r\n".to_vec(), vec![b'A'; 100_000]], 100, false));
    inputs.push(("body-that-is-not-utf8", "http", vec![[b"POST / HTTP/1.1\r\nHost: x\r\nConnection: close\r\nContent-Length: 4\r\n\r\n".to_vec(), vec![0xff, 0xfe, 0x80, 0x81]].concat()], 150, false));
    inputs.push(("handshake-garbage", "ws", vec![b"GET / HTTP/1.1\r\nUpgrade: websocket\r\n\r\n".to_vec(), vec![0x81, 0xff, 0xff, 0xff, 0xff, 0xff, 0xff, 0xff, 0xff, 0xff, 1, 2, 3, 4]], 150, false));
    inputs.push(("frame-that-announces-8-exabytes", "ws-frame", vec![vec![0x81, 0xff, 0x7f, 0xff, 0xff, 0xff, 0xff, 0xff, 0xff, 0xff, 1, 2, 3, 4, b'g', b'e', b't']], 200, false));
    inputs.push(("fragment-never-finished-then-reset", "ws-frame", vec![vec![0x01, 0x83, 1, 2, 3, 4, b'g' ^ 1, b'e' ^ 2, b't' ^ 3]], 100, true));
    inputs.push(("text-frame-that-is-not-utf8", "ws-frame", vec![vec![0x81, 0x84, 0, 0, 0, 0, 0xff, 0xfe, 0x80, 0x81]], 150, false));
    if thorough {
        for (name, n) in [("rp-nested-1000-deep", 1000usize), ("rp-nested-10000-deep", 10000)] {
            inputs.push((name, "tcp", vec![[tcp_pre.clone(), format!("{}\n", deep(n)).into_bytes()].concat()], 400, false));
        }
        inputs.push(("connections-aborted-before-they-are-served", "tcp", (0..600).map(|_| vec![]).collect(), 0, true));
    }
    let mut c = RealCluster::new(1, "c10", &[]);
    let mut started = false;
    for (class, transport, payloads, hold, reset) in inputs {
        if !started || !c.alive(0) {
            if started {
                c.kill(0);
            }
            if !c.start(0) || settle(&mut c, &[0], 40).is_err() {
                st.inconclusive += 1;
                v.inconclusive("the real node for the transport-level inputs could not be started");
                break;
            }
            started = true;
            if let Some(mut a) = c.admin(0) {
                let _ = a.must("create-db pdb ptok");
            }
            if let Err(e) = probe_listeners(&c) {
                st.inconclusive += 1;
                v.inconclusive(&format!("fresh node does not pass the probes: {}", e));
                break;
            }
        }
        let before_panics = c.panics(0).len();
        let addr = match transport {
            "tcp" => c.nodes[0].tcp.clone(),
            "http" => c.nodes[0].http.clone(),
            _ => c.nodes[0].ws.clone(),
        };
        for p in &payloads {
            match transport {
                "ws" if class.starts_with("rp-") => {
                    if let Ok(mut w) = crate::transports::WsClient::connect(&addr) {
                        w.send_text("auth admin pwd;use-db pdb ptok");
                        w.send_text(&String::from_utf8_lossy(p));
                        std::thread::sleep(Duration::from_millis(hold));
                    }
                }
                "ws-frame" => {
                    // a proper handshake first, then the raw frame bytes
                    use std::io::{Read, Write};
                    if let Ok(mut s) = std::net::TcpStream::connect(&addr) {
                        let _ = s.set_read_timeout(Some(Duration::from_secs(2)));
                        let _ = s.write_all(format!("GET / HTTP/1.1\r\nHost: {}\r\nUpgrade: websocket\r\nConnection: Upgrade\r\nSec-WebSocket-Key: dGhlIHNhbXBsZSBub25jZQ==\r\nSec-WebSocket-Version: 13\r\n\r\n", addr).as_bytes());
                        let mut tmp = [0u8; 2048];
                        let _ = s.read(&mut tmp);
                        let _ = s.write_all(p);
                        std::thread::sleep(Duration::from_millis(hold));
                        if reset {
                            use std::os::unix::io::AsRawFd;
                            let lin = libc::linger { l_onoff: 1, l_linger: 0 };
                            unsafe {
                                libc::setsockopt(s.as_raw_fd(), libc::SOL_SOCKET, libc::SO_LINGER, &lin as *const _ as *const libc::c_void, std::mem::size_of::<libc::linger>() as libc::socklen_t);
                            }
                        }
                    }
                }
                _ => raw_send(&addr, p, hold, reset),
            }
        }
        std::thread::sleep(Duration::from_millis(300));
        st.ops += payloads.len() as u64;
        st.judged_points += 1;
        st.classes.insert(format!("{}/{}", transport, class));
        let problem: Option<(String, String)> = if !c.alive(0) {
            Some(("the-process-died".into(), c.log_tail(0, 8).join(" | ")))
        } else if let Err(e) = probe_listeners(&c) {
            // once more with fresh connections before it counts
            std::thread::sleep(Duration::from_millis(1500));
            match probe_listeners(&c) {
                Ok(()) => None,
                Err(e2) => Some((e2.split(':').next().unwrap_or("probe-failed").to_string(), format!("{} / {}", e, e2))),
            }
        } else if c.panics(0).len() > before_panics {
            Some(("a-thread-of-the-node-panicked".into(), c.panics(0)[before_panics..].join(" | ")))
        } else {
            None
        };
        if let Some((p, detail)) = problem {
            v.report(json!({"check": "real-process", "transport": transport.replace("-frame", ""), "input": class, "problem": p}), json!({"detail": detail, "payload_bytes": payloads.iter().map(|x| x.len()).collect::<Vec<_>>()}));
            // the node may be damaged: the next class gets a fresh one
            c.kill(0);
        }
    }
    st.runs = 1;
    c.shutdown();
    st
}

// ------------------------------------------------------------------------------------------------ C16
/// One real node through two restarts (src/bin/main.rs's own start-up sequence): databases of which only some were
/// snapshotted, keys removed and created across the restarts; after the last clean shutdown the persisted key map
/// (read with nun-db's own loader) must not give one id to two keys, and the node must come up again.
fn c16_once(seed: u64, tag: &str, v: &Verdicts, st: &Mutex<RealStats>) -> Result<(), String> {
    let mut r = Rng::new(seed);
    let mut c = RealCluster::new(1, tag, &[("NUN_DECLUTTER_INTERVAL", "1")]);
    let res = (|| -> Result<(), String> {
        form(&mut c, 1).map_err(|e| format!("start: {} {}", e.0, e.1))?;
        let mut log: Vec<String> = vec![];
        let mut uniq = 0;
        let dbs = ["qa", "qb", "qc"];
        for life in 0..3 {
            let mut a = c.admin(0).ok_or("no admin session")?;
            for d in dbs.iter().take(if life == 0 { 2 } else { 3 }) {
                let _ = a.cmd(&format!("create-db {} t{}", d, d)); // refused if it was restored from disk
            }
            let mut snapshotted = vec![];
            for _ in 0..r.range(4, 9) {
                uniq += 1;
                let d = dbs[r.below(if life == 0 { 2 } else { 3 })];
                if a.cmd(&format!("use-db {} t{}", d, d))?.0 {
                    let line = match r.below(6) {
                        0..=2 => format!("set key{} v{}", uniq, uniq),
                        3 => format!("set key{} again{}", r.range(1, uniq.max(1)), uniq),
                        4 => format!("remove key{}", r.range(1, uniq.max(1))),
                        _ => format!("increment cnt{} 1", r.below(3)),
                    };
                    a.cmd(&line)?;
                    log.push(format!("life {} {}: {}", life, d, line));
                    st.lock().unwrap().ops += 1;
                }
            }
            // only some databases are snapshotted
            for d in dbs.iter().take(if life == 0 { 2 } else { 3 }) {
                if r.chance(1, 2) {
                    a.cmd(&format!("snapshot false {}", d))?;
                    snapshotted.push(*d);
                }
            }
            log.push(format!("life {}: snapshot of {:?}", life, snapshotted));
            if !snapshotted.is_empty() {
                std::thread::sleep(Duration::from_millis(2300));
            }
            // a key registered after the snapshot
            if r.chance(1, 2) {
                uniq += 1;
                let _ = a.cmd(&format!("set late{} x", uniq));
                log.push(format!("life {}: set late{} x (after the snapshot)", life, uniq));
            }
            drop(a);
            let clean = life == 2 || r.chance(1, 2);
            if clean {
                if c.sigint(0) != Some(0) {
                    v.report(json!({"check": "oplog-ids", "problem": "clean-shutdown-failed", "when": "real-process"}), json!({"ops": log, "output": c.log_tail(0, 8)}));
                    return Ok(());
                }
            } else {
                c.kill(0);
            }
            log.push(format!("life {} ends ({})", life, if clean { "SIGINT" } else { "SIGKILL" }));
            if clean {
                // the key map as the next start will read it
                nundb::verif::set_dir(Some(c.nodes[0].dir.clone()));
                let map = std::panic::catch_unwind(|| nundb::disk_ops::load_keys_map_from_disk());
                nundb::verif::set_dir(None);
                if let Ok(map) = map {
                    let mut by_id: BTreeMap<u64, Vec<String>> = BTreeMap::new();
                    for (k, id) in map.iter() {
                        by_id.entry(*id).or_default().push(k.clone());
                    }
                    st.lock().unwrap().keys_compared += map.len() as u64;
                    if let Some((id, ks)) = by_id.iter().find(|(_, ks)| ks.len() > 1) {
                        v.report(json!({"check": "oplog-ids", "problem": "two-keys-share-an-id", "when": "real-process-key-map-after-a-clean-shutdown"}), json!({"id": id, "keys": ks, "ops": log, "key_map": map.iter().map(|(k, v)| (k.clone(), *v)).collect::<BTreeMap<_, _>>()}));
                        return Ok(());
                    }
                }
            }
            if life < 2 {
                if !c.start(0) {
                    v.report(json!({"check": "oplog-ids", "problem": "node-does-not-start-again", "when": "real-process"}), json!({"ops": log, "output": c.log_tail(0, 10)}));
                    return Ok(());
                }
                settle(&mut c, &[0], 40).map_err(|e| format!("restart: {} {}", e.0, e.1))?;
            }
            st.lock().unwrap().judged_points += 1;
        }
        let p = c.panics(0);
        if !p.is_empty() {
            v.report(json!({"check": "oplog-ids", "problem": "a-thread-of-the-node-panicked", "when": "real-process"}), json!({"panics": p, "ops": log}));
        }
        Ok(())
    })();
    c.shutdown();
    res
}

pub fn c16_real(v: &Verdicts, runs: usize, seed0: u64) -> RealStats {
    let st = Mutex::new(RealStats::default());
    par_runs(runs, 8, |i| {
        let res = c16_once(seed0.wrapping_mul(16_000_057).wrapping_add(i as u64), &format!("c16-{}", i), v, &st);
        let mut s = st.lock().unwrap();
        s.runs += 1;
        if let Err(why) = res {
            s.inconclusive += 1;
            v.inconclusive(&format!("real-process restart run: {}", why));
        }
    });
    st.into_inner().unwrap()
}
