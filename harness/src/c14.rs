//! C14 — every operation causes a bounded message burst, then silence.
//! Engine N: on an established 2-3 node cluster every client-visible command is
//! issued once on every node; the lines crossing the links until quiescence are
//! counted against forward(<=1) + copies(S) + acks(S) per replicated change, a
//! secondary must never send a replication copy, and quiescence must come
//! within the step budget.
use crate::c04::form_cluster;
use crate::cluster::*;
use crate::common::evidence::Evidence;
use crate::common::kf::Verdicts;
use crate::common::rng::Rng;
use crate::common::*;
use nundb::bo::Request;
use serde_json::json;
use std::collections::{BTreeMap, BTreeSet};
use std::sync::Mutex;

/// (name, line template with {n} = unique number, database to select ("d" none / "a" arbiter), replicated changes it may legitimately produce)
fn commands() -> Vec<(&'static str, &'static str, &'static str, u64)> {
    vec![
        ("get", "get k{n}", "d", 0),
        ("get-safe", "get-safe k{n}", "d", 0),
        ("keys", "keys k*", "d", 0),
        ("watch", "watch k{n}", "d", 0),
        ("unwatch", "unwatch k{n}", "d", 0),
        ("unwatch-all", "unwatch-all", "d", 0),
        ("use-db", "use-db d tok", "d", 0),
        ("cluster-state", "cluster-state", "d", 0),
        ("metrics-state", "metrics-state", "d", 0),
        ("debug-list-dbs", "debug list-dbs", "d", 0),
        ("list-commands", "list-commands", "d", 0),
        ("set", "set k{n} v{n}", "d", 1),
        ("set-existing", "set shared v{n}", "d", 1),
        ("set-safe-accepted", "set-safe k{n} 5 v{n}", "d", 1),
        ("set-safe-stale", "set-safe shared 0 stale{n}", "d", 0),
        ("remove", "remove shared2", "d", 1),
        ("remove-absent", "remove nokey{n}", "d", 1),
        ("increment", "increment counter 2", "d", 1),
        ("create-user", "create-user u{n} secret", "d", 1),
        ("set-permissions", "set-permissions u{n} rw k*", "d", 1),
        ("snapshot", "snapshot false", "d", 1),
        ("snapshot-named", "snapshot false d|a", "d", 1),
        ("create-db", "create-db extra{n} tok", "d", 1),
        ("arbiter-register", "arbiter", "a", 0),
        ("conflicting-write", "set-safe conf 0 other{n}", "a", 1),
        ("resolve", "resolve {opid} a conf 1 decided{n}", "a", 2),
        // writes an arbiter-strategy database ACCEPTS (round 10): on a secondary the copy that comes back from the primary
        // meets the version the secondary already gave the key - whatever the secondary makes of its own echo, the
        // operation stays one forward, the copies and their acknowledgements
        ("arbiter-set-safe-accepted-new-key", "set-safe ak{n} 5 v{n}", "a", 1),
        ("arbiter-set-safe-accepted-existing-key", "set-safe afree 90{n} w{n}", "a", 1),
        ("arbiter-set", "set aplain v{n}", "a", 1),
        ("arbiter-increment", "increment acounter 2", "a", 1),
        ("arbiter-remove", "remove aplain", "a", 1),
        // the same write kinds on a newer-strategy database (conflicts are settled by the node itself)
        ("newer-set", "set nk v{n}", "nw", 1),
        ("newer-set-safe-stale", "set-safe nk 0 stale{n}", "nw", 1),
        ("newer-set-safe-ahead", "set-safe nk 40 ahead{n}", "nw", 1),
        ("newer-increment", "increment ncounter 2", "nw", 1),
        ("newer-remove", "remove nk2", "nw", 1),
        // the same writes from a user session (database d) whose permission list has several grants covering the key
        ("user-set", "set k{n} v{n}", "ud", 1),
        ("user-set-existing", "set shared v{n}", "ud", 1),
        ("user-set-safe", "set-safe k{n} 3 v{n}", "ud", 1),
        ("user-increment", "increment counter 2", "ud", 1),
        ("user-remove", "remove k{n}", "ud", 1),
        ("user-get", "get shared", "ud", 0),
        ("unknown", "frobnicate {n}", "d", 0),
    ]
}

pub struct Stats {
    pub ops: u64,
    pub clusters: u64,
    pub cells: BTreeSet<String>,
    pub max_lines: BTreeMap<String, u64>,
    pub lines: u64,
    pub samples: Vec<serde_json::Value>,
    pub inconclusive: u64,
    pub failover_clusters: u64,
    pub failovers_not_clean: u64,
}

fn is_protocol_line(l: &str) -> bool {
    let t = l.trim();
    if t.starts_with("error ") || t.starts_with("valid auth") || t.starts_with("invalid auth") {
        return false;
    }
    Request::parse(t).is_ok()
}

pub fn run_cluster(n: usize, seed0: u64, order: &[usize], failover: bool, v: &Verdicts, st: &Mutex<Stats>) {
    let Some(mut c) = form_cluster(n, seed0, "c14") else {
        st.lock().unwrap().inconclusive += 1;
        v.inconclusive("cluster formation failed");
        return;
    };
    c.budget = 3000;
    let cmds = commands();
    // set-up: databases, base keys, an arbiter on the primary and one pending conflict
    c.open_session("adm", 0);
    for l in ["auth admin pwd", "create-db d tok", "create-db a tok arbiter", "create-db nw tok newer", "use-db nw tok", "set nk 1", "set nk 2", "set nk 3", "set nk2 x", "set ncounter 1", "use-db d tok", "set shared 1", "set shared 2", "set shared2 x", "set counter 5"] {
        c.send("adm", l);
    }
    let _ = c.run_until_quiet();
    c.open_session("arb", 0);
    for l in ["auth admin pwd", "use-db a tok", "arbiter"] {
        c.send("arb", l);
    }
    c.send("adm", "use-db a tok");
    for l in ["set conf 1", "set conf 2", "set-safe conf 0 first-conflict"] {
        c.send("adm", l);
    }
    let q = c.run_until_quiet();
    if !matches!(q, Outcome::Quiet(_)) {
        // the set-up itself contains a conflict registration in a cluster
        v.report(json!({"check": "burst", "command": "conflicting-write", "issued_at": "primary", "problem": "no-quiescence-within-step-budget"}), json!({"phase": "set-up", "links_tail": c.link_log().iter().rev().take(30).rev().map(|l| format!("[{}] n{}->n{} {}", l.0, l.1, l.2, l.3)).collect::<Vec<_>>()}));
        c.shutdown();
        return;
    }
    // the op id of the pending conflict, as the arbiter was told
    let opid: String = c.replies("arb").iter().flat_map(|r| r.2.clone()).chain({
        // notices arrive asynchronously on the arbiter's channel: look into the conflict record instead
        let d = c.dataset(0);
        d.iter().filter(|(n, _)| n.starts_with("a ")).flat_map(|(_, keys)| keys.iter().filter(|(k, _)| k.starts_with("$conflicts_conf_")).map(|(k, _)| format!("resolve {} ", k.rsplit('_').next().unwrap_or("0")))).collect::<Vec<_>>()
    }).find(|l| l.starts_with("resolve ")).map(|l| l.split(' ').nth(1).unwrap_or("0").to_string()).unwrap_or("0".into());
    // optionally the measurements are taken after the primary died and the survivors elected a new one: the roles
    // every link was opened with are then no longer the roles of the nodes at its ends
    let (alive, primary): (Vec<usize>, usize) = if failover {
        c.kill_node(0);
        let q = c.run_until_quiet();
        let roles = c.roles();
        let prim: Vec<usize> = (1..n).filter(|i| roles[*i].as_deref() == Some("Primary")).collect();
        let secs = (1..n).filter(|i| roles[*i].as_deref() == Some("Secoundary")).count();
        if !matches!(q, Outcome::Quiet(_)) || prim.len() != 1 || secs != n - 2 || !c.panics().is_empty() {
            // the fail-over itself is C07's subject; a cluster that did not settle cleanly is not measured here
            st.lock().unwrap().failovers_not_clean += 1;
            c.shutdown();
            return;
        }
        ((1..n).collect(), prim[0])
    } else {
        ((0..n).collect(), 0)
    };
    for &i in &alive {
        let name = format!("s{}", i);
        c.open_session(&name, i);
        c.call(&name, "auth admin pwd");
        c.open_session(&format!("u{}", i), i);
    }
    // a user of database d whose list has several grants that cover the same keys (contains, prefix, everything)
    {
        let adm = format!("s{}", primary);
        for l in ["use-db d tok", "create-user mu mpw", "set-permissions mu rwix k|rwi k*|rwx *|rwi shared|ri counter|rw c*"] {
            c.call(&adm, l);
            let _ = c.run_until_quiet();
        }
    }
    let _ = c.run_until_quiet();
    st.lock().unwrap().clusters += 1;
    if failover {
        st.lock().unwrap().failover_clusters += 1;
    }
    let s_count = (alive.len() - 1) as u64;
    let mut uniq = seed0 % 1000 * 1000;
    for &oi in order {
        let ci = oi % cmds.len();
        let node = alive[(oi / cmds.len()) % alive.len()];
        let (name, tmpl, db, changes) = cmds[ci];
        uniq += 1;
        let sname = if db == "ud" { format!("u{}", node) } else { format!("s{}", node) };
        if db == "ud" {
            c.call(&sname, "use-db d mu mpw");
        } else {
            c.call(&sname, &format!("use-db {} tok", db));
        }
        let _ = c.run_until_quiet();
        let line = tmpl.replace("{n}", &uniq.to_string()).replace("{opid}", &opid);
        let before = c.link_log().len();
        c.send(&sname, &line);
        let out = c.run_until_quiet();
        let log = c.link_log();
        let burst: Vec<&(u64, usize, usize, String)> = log[before..].iter().filter(|l| is_protocol_line(&l.3)).collect();
        let role = if node == primary { "primary" } else { "secondary" };
        let cell = format!("{}@{}/n{}{}", name, role, n, if failover { "/after-failover" } else { "" });
        let reply = c.replies(&sname).last().map(|r| r.1.clone()).unwrap_or_default();
        let mut problem: Option<(String, String)> = None;
        match out {
            Outcome::Quiet(_) => {}
            Outcome::BudgetExceeded => problem = Some(("no-quiescence-within-step-budget".into(), format!("{} protocol lines in {} steps and still going", burst.len(), c.budget))),
            Outcome::Stuck(w) => {
                st.lock().unwrap().inconclusive += 1;
                v.inconclusive(&format!("scheduler watchdog: {}", w));
                c.shutdown();
                return;
            }
        }
        if problem.is_none() {
            // the statement's bound is per operation: one forward, one copy per secondary, one ack per copy
            // (a refused write may still have been forwarded once); operations that legitimately produce
            // several replicated changes get that burst per change
            let allowed = changes.max(1) * (1 + 2 * s_count);
            let fanout = burst.iter().find(|l| l.1 != primary && l.2 != primary && l.1 != l.2 && l.3.starts_with("rp "));
            if let Some(f) = fanout {
                problem = Some(("secondary-fans-out-to-another-node".into(), format!("n{}->n{} {}", f.1, f.2, f.3)));
            } else if burst.len() as u64 > allowed {
                problem = Some(("more-messages-than-forward-plus-copies-plus-acks".into(), format!("{} protocol lines, bound {} ({} change(s) x (1 + 2 x {} secondaries))", burst.len(), allowed, changes, s_count)));
            } else if !c.panics().is_empty() {
                problem = Some(("service-thread-panicked".into(), c.panics().join(" | ")));
            }
        }
        {
            let mut s = st.lock().unwrap();
            s.ops += 1;
            s.lines += burst.len() as u64;
            s.cells.insert(cell.clone());
            let e = s.max_lines.entry(cell.clone()).or_insert(0);
            *e = (*e).max(burst.len() as u64);
            if s.samples.len() < 4 && burst.len() >= 3 && problem.is_none() {
                s.samples.push(json!({"nodes": n, "issued_at": format!("n{} ({})", node, role), "command": line, "reply": reply, "burst": burst.iter().map(|l| format!("[{}] n{}->n{} {}", l.0, l.1, l.2, l.3)).collect::<Vec<_>>()}));
            }
        }
        if let Some((p, detail)) = problem {
            // the cluster's past (formed fresh / after a fail-over) is part of the replay, not of the signature: a command that
            // exceeds the bound at a role does so through the same code in both
            // what the burst is made of is part of the signature of an oversized burst: a listed excess (the same record
            // forwarded twice) does not excuse an excess of another kind (a resynchronisation, an election, ...)
            let sig = if p == "more-messages-than-forward-plus-copies-plus-acks" {
                let kinds: BTreeSet<String> = burst.iter().map(|l| {
                    let mut w: Vec<&str> = l.3.trim().split(' ').collect();
                    if w.first() == Some(&"rp") && w.len() > 2 {
                        w.drain(..2);
                    }
                    match (w.first().copied(), w.get(2)) {
                        (Some("replicate"), Some(k)) if k.starts_with("$conflicts_") => "replicate:conflict-record".to_string(),
                        (Some(word), _) => word.to_string(),
                        _ => String::new(),
                    }
                }).collect();
                json!({"check": "burst", "command": name, "issued_at": role, "problem": p, "burst_made_of": kinds.into_iter().collect::<Vec<_>>()})
            } else {
                json!({"check": "burst", "command": name, "issued_at": role, "problem": p})
            };
            let known = v.report(sig, json!({"nodes": n, "seed": seed0, "measured_after_failover": failover, "command": line, "reply": reply, "detail": detail,
                "burst_head": burst.iter().take(40).map(|l| format!("[{}] n{}->n{} {}", l.0, l.1, l.2, l.3)).collect::<Vec<_>>(), "burst_lines": burst.len()}));
            let _ = known;
            if p.starts_with("no-quiescence") || p.starts_with("service") {
                // the cluster keeps talking: it cannot be used for further measurements
                c.shutdown();
                return;
            }
        }
    }
    // a node that asked to join and cannot be reached when the others try to link to it (it died right after asking, its
    // address is not routable from them): the announcement must die down like any other exchange
    if !failover && n >= 2 {
        let gone = n - 1;
        let addr = c.addr(gone);
        c.kill_node(gone);
        let q = c.run_until_quiet();
        if matches!(q, Outcome::Quiet(_)) && c.panics().is_empty() {
            for (who, line) in [("s0", format!("join {}", addr)), ("s0", "join 10.250.0.9:3014".to_string()), (if n == 3 { "s1" } else { "s0" }, format!("replicate-join {}", addr)), ("s0", format!("join {}", addr))] {
                let before = c.link_log().len();
                c.send(who, &line);
                let out = c.run_until_quiet();
                let word = line.split(' ').next().unwrap();
                let role = if who == "s0" { "primary" } else { "secondary" };
                {
                    let mut s = st.lock().unwrap();
                    s.ops += 1;
                    s.cells.insert(format!("{}-of-an-unreachable-node@{}/n{}", word, role, n));
                    s.lines += (c.link_log().len() - before) as u64;
                }
                if std::env::var("VERIF_DEBUG").is_ok() {
                    eprintln!("== {} @{} n={} -> {:?}", line, who, n, out);
                    for l in c.link_log()[before..].iter() { eprintln!("   [{}] n{}->n{} {}", l.0, l.1, l.2, l.3); }
                    for t in c.trace().iter().rev().take(12).rev() { eprintln!("   T {}", t); }
                }
                let problem = match out {
                    Outcome::Quiet(_) if c.panics().is_empty() => None,
                    Outcome::Quiet(_) => Some("service-thread-panicked"),
                    Outcome::BudgetExceeded => Some("no-quiescence-within-step-budget"),
                    Outcome::Stuck(_) => None,
                };
                if let Some(p) = problem {
                    let log = c.link_log();
                    v.report(json!({"check": "burst", "command": format!("{}-of-an-unreachable-node", word), "issued_at": role, "problem": p}),
                        json!({"nodes": n, "seed": seed0, "command": line, "lines_since": log.len() - before, "panics": c.panics(), "burst_tail": log.iter().rev().take(30).rev().map(|l| format!("[{}] n{}->n{} {}", l.0, l.1, l.2, l.3)).collect::<Vec<_>>()}));
                    break;
                }
            }
        }
    }
    c.shutdown();
}

pub fn run(tier: &str) -> i32 {
    std::env::set_var("NUN_ELECTION_TIMEOUT", "30");
    quiet_panics();
    let thorough = tier == "thorough";
    let v = Verdicts::load("C14");
    let mut ev = Evidence::new("C14", tier, "exploration");
    let st = Mutex::new(Stats { ops: 0, clusters: 0, cells: BTreeSet::new(), max_lines: BTreeMap::new(), lines: 0, samples: vec![], inconclusive: 0, failover_clusters: 0, failovers_not_clean: 0 });
    let ncmd = commands().len();
    let n_clusters = if thorough { 600 } else { 48 };
    let next = std::sync::atomic::AtomicUsize::new(0);
    std::thread::scope(|sc| {
        for _ in 0..workers() {
            let (next, v, st) = (&next, &v, &st);
            sc.spawn(move || loop {
                let i = next.fetch_add(1, std::sync::atomic::Ordering::SeqCst);
                if i >= n_clusters {
                    break;
                }
                let mut r = Rng::new(seed().wrapping_mul(5_000_011).wrapping_add(i as u64));
                let n = 2 + (i % 2);
                let failover = i % 4 == 3;
                // every (command, node) cell once, in a seeded order; the resolve goes last (it is expected to upset the cluster)
                let mut order: Vec<usize> = (0..ncmd * n).collect();
                for k in (1..order.len()).rev() {
                    order.swap(k, r.below(k + 1));
                }
                let resolve_idx = commands().iter().position(|c| c.0 == "resolve").unwrap();
                order.sort_by_key(|o| (o % ncmd == resolve_idx) as u8);
                run_cluster(n, r.next(), &order, failover, v, st);
            });
        }
    });
    let s = st.into_inner().unwrap();
    ev.evaluations = s.ops;
    ev.distinct_nontrivial = s.cells.len() as u64;
    ev.rule = format!("{} simulated clusters (2 and 3 nodes, formed through the real join path; every fourth one is a 3-node cluster measured after its primary was killed and the survivors elected a new one); on each, every one of {} client-visible commands (reads, set / set-safe accepted and stale, remove, increment, create-user, set-permissions, snapshot, create-db, arbiter registration, a conflicting versioned write on an arbiter database, resolve, unknown word) is issued once on every node in a seeded order, one at a time to quiescence under seeded FIFO delivery orders; protocol lines = lines the receiver parses to a request (status replies 'ok'/'error ...' are not counted); distinct_nontrivial = distinct (command, issuing role, cluster size) cells measured", n_clusters, ncmd);
    ev.samples = s.samples.clone();
    ev.set("protocol_lines_counted", json!(s.lines));
    ev.set("clusters", json!(s.clusters));
    ev.set("clusters_measured_after_a_failover", json!(s.failover_clusters));
    ev.set("failovers_that_did_not_settle_cleanly_and_were_not_measured", json!(s.failovers_not_clean));
    ev.set("max_protocol_lines_per_cell", json!(s.max_lines));
    ev.set("inconclusive_runs", json!(s.inconclusive));
    ev.set("known_findings_seen", json!(v.known_seen()));
    // Engine R: the same bound over real processes - the lines every node receives are read from its debug log
    let real = crate::realparts::c14_real(&v, if thorough { 48 } else { 4 }, seed());
    ev.set("real_processes", real.to_json());
    ev.violations = v.violation_count();
    ev.assumptions = vec![
        "bound per operation = (replicated changes it may produce) x (1 forward + S copies + S acks); changes: 0 for reads and refused writes, 1 for writes / administration, 1 for a conflict registration, 2 for a resolve (conflict record + resolved value)".into(),
        "'then silence' is decided as quiescence within 3000 scheduler steps (a quiet operation takes < 60)".into(),
        "commands that are themselves cluster management (join, leave, force-election, set-primary) are not client operations in the sense of the statement".into(),
    ];
    ev.write();
    cleanup_scratch();
    let code = v.finish(tier);
    if code == 0 && real.runs > 0 && (real.runs - real.inconclusive) * 2 < real.runs {
        println!("INCONCLUSIVE property=C14 reason=the real-process part could judge only {} of {} runs", real.runs - real.inconclusive, real.runs);
        return 2;
    }
    if code == 0 && (s.cells.len() < 90 || s.inconclusive > s.clusters / 5 + 2) {
        println!("INCONCLUSIVE property=C14 reason=coverage floor not met ({} cells, {} inconclusive)", s.cells.len(), s.inconclusive);
        return 2;
    }
    println!("C14 {}: {} clusters, {} operations measured, {} cells, {} protocol lines, {} violations", tier, s.clusters, s.ops, s.cells.len(), s.lines, v.violation_count());
    code
}
