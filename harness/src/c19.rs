//! C19 — newer-strategy databases accept every write; the last applied one wins.
//! (a) sequential sweep of plain / versioned writes (versions below, at, above
//! the current one) with a watcher; (b) two concurrent writers under the
//! controlled scheduler (Engine S); (c) the same writes replicated to 1-2
//! secondaries in the primary's order (Engine N, with a yield point between
//! creating a change and applying it).
use crate::c02::{mem_node, short};
use crate::c04::form_cluster;
use crate::cluster::*;
use crate::common::evidence::Evidence;
use crate::common::kf::Verdicts;
use crate::common::rng::Rng;
use crate::common::sched::{self, Ev, Policy};
use crate::common::session::Session;
use crate::common::*;
use nundb::bo::Response;
use serde_json::json;
use std::collections::{BTreeMap, BTreeSet};
use std::sync::Mutex;

fn get_safe(s: &mut Session, dbs: &std::sync::Arc<nundb::bo::Databases>, k: &str) -> (String, i32) {
    match s.call_raw(dbs, &format!("get-safe {}", k)) {
        Response::Value { value, version, .. } => {
            s.drain();
            (value, version)
        }
        _ => {
            s.drain();
            ("?".into(), i32::MIN)
        }
    }
}

// ---------------------------------------------------------------- (a) sequential
fn sequential(v: &Verdicts, rng: &mut Rng, n: usize) -> (u64, BTreeSet<String>) {
    let mut classes = BTreeSet::new();
    let mut steps = 0u64;
    for h in 0..n {
        let (node, _adm) = mem_node(&[("nw", "newer")]);
        let dbs = node.dbs.clone();
        let mut w = Session::new();
        w.call(&dbs, "use-db nw tok");
        let mut watcher = Session::new();
        watcher.call(&dbs, "use-db nw tok");
        watcher.call(&dbs, "watch ka");
        watcher.call(&dbs, "watch kb");
        watcher.drain();
        let len = rng.range(1, 6);
        let mut trace = vec![];
        let mut last_ver: [Option<i32>; 2] = [None, None];
        for i in 0..len {
            let ki = rng.below(2);
            let k = ["ka", "kb"][ki];
            let (_, cur) = get_safe(&mut w, &dbs, k);
            let exists = last_ver[ki].is_some();
            let (line, rel) = match rng.below(5) {
                0 => (format!("set {} v{}x{}", k, h, i), "plain"),
                1 => (format!("set-safe {} {} v{}x{}", k, (cur - 1).max(0), h, i), if exists && cur > 0 { "below" } else { "at" }),
                2 => (format!("set-safe {} {} v{}x{}", k, cur.max(0), h, i), "at"),
                3 => (format!("set-safe {} {} v{}x{}", k, cur.max(0) + 3, h, i), "above"),
                _ => (format!("set-safe {} 0 v{}x{}", k, h, i), if exists && cur > 0 { "below" } else { "at" }),
            };
            let value = format!("v{}x{}", h, i);
            let r = w.call(&dbs, &line);
            let (val, ver) = get_safe(&mut w, &dbs, k);
            let notes: Vec<String> = watcher.drain();
            steps += 1;
            trace.push(json!({"line": line, "reply": r.resp, "after": [val, ver], "watcher": notes}));
            classes.insert(format!("{}/{}", rel, if exists { "existing" } else { "new" }));
            let mut problem = None;
            if r.is_error() {
                problem = Some("versioned-write-refused");
            } else if val != value {
                problem = Some("latest-issued-change-not-stored");
            } else if last_ver[ki].map(|p| ver <= p).unwrap_or(false) {
                problem = Some("stored-version-did-not-grow");
            } else {
                let changed: Vec<&String> = notes.iter().filter(|n| n.starts_with(&format!("changed {} ", k))).collect();
                if changed.len() != 1 || changed[0].trim_end() != format!("changed {} {}", k, value) {
                    problem = Some("watcher-not-notified-exactly-once-of-the-value-change");
                }
            }
            if let Some(p) = problem {
                v.report(json!({"check": "newer", "mode": "sequential", "problem": p, "version_sent": rel}), json!({"history": h, "trace": trace}));
                break;
            }
            last_ver[ki] = Some(ver);
        }
        // the reply of the write path itself names the stored value
        let map = dbs.map.read().unwrap();
        let db = map.get("nw").unwrap();
        let r = nundb::db_ops::set_key_value("ka".into(), format!("direct{}", h), 0, db, &dbs);
        let stored = db.get_value("ka".into()).map(|x| x.value).unwrap_or_default();
        match r {
            Response::Set { value, .. } if value == stored => {}
            other => {
                v.report(json!({"check": "newer", "mode": "sequential", "problem": "reply-does-not-name-the-stored-value"}), json!({"reply": short(&other), "stored": stored}));
            }
        }
    }
    (steps, classes)
}

// ---------------------------------------------------------------- (b) two concurrent writers
/// Depth-first search for an order of `ops` = (client, line, reply, call position, return position) that keeps each
/// client's own order and everything that had returned before another was called, and that `accept` accepts.
fn search_order(ops: &[(usize, String, String, usize, usize)], order: &mut Vec<usize>, used: &mut Vec<bool>, accept: &mut dyn FnMut(&[usize]) -> bool) -> bool {
    let n = ops.len();
    if order.len() == n {
        return accept(order);
    }
    for c in 0..n {
        if used[c] || !(0..n).all(|j| used[j] || j == c || !(ops[j].4 < ops[c].3)) {
            continue;
        }
        used[c] = true;
        order.push(c);
        if search_order(ops, order, used, accept) {
            return true;
        }
        order.pop();
        used[c] = false;
    }
    false
}

static CHECKED_DROPS: std::sync::atomic::AtomicU64 = std::sync::atomic::AtomicU64::new(0);

fn concurrent(v: &Verdicts, runs: usize, seed0: u64) -> (u64, BTreeSet<u64>, BTreeSet<u64>, Vec<serde_json::Value>) {
    sched::install_callback_inner();
    let distinct = Mutex::new(BTreeSet::new());
    let nontrivial = Mutex::new(BTreeSet::new());
    let samples = Mutex::new(vec![]);
    let total = std::sync::atomic::AtomicU64::new(0);
    let next = std::sync::atomic::AtomicUsize::new(0);
    std::thread::scope(|sc| {
        for _ in 0..workers() {
            let (next, v, distinct, nontrivial, total, samples) = (&next, &v, &distinct, &nontrivial, &total, &samples);
            sc.spawn(move || {
                let (mut node, mut adm) = mem_node(&[]);
                let mut dbn = 0u64;
                loop {
                    let i = next.fetch_add(1, std::sync::atomic::Ordering::SeqCst);
                    if i >= runs {
                        break;
                    }
                    dbn += 1;
                    if dbn % 1000 == 0 {
                        let (n2, a2) = mem_node(&[]);
                        node = n2;
                        adm = a2;
                    }
                    let mut rng = Rng::new(seed0.wrapping_mul(977).wrapping_add(i as u64));
                    let db = format!("n{}", dbn);
                    adm.call(&node.dbs, &format!("create-db {} tok newer", db));
                    let dbs = node.dbs.clone();
                    let mut s0 = Session::new();
                    s0.call(&dbs, &format!("use-db {} tok", db));
                    let n_base = rng.range(0, 3);
                    for j in 0..n_base {
                        s0.call(&dbs, &format!("set k base{}", j));
                    }
                    let mut watcher = Session::new();
                    watcher.call(&dbs, &format!("use-db {} tok", db));
                    watcher.call(&dbs, "watch k");
                    watcher.drain();
                    node.pump();
                    let mut plans: Vec<Vec<String>> = (0..2)
                        .map(|c| {
                            (0..rng.range(1, 3))
                                .map(|j| match rng.below(3) {
                                    0 => format!("set k c{}x{}", c, j),
                                    _ => format!("set-safe k {} c{}x{}", rng.below(4), c, j),
                                })
                                .collect()
                        })
                        .collect();
                    // every other run a third session only reads: a value it saw stored is a
                    // change of the stored value the watcher has to hear about
                    if i % 2 == 1 {
                        plans.push((0..rng.range(1, 4)).map(|_| "get-safe k".to_string()).collect());
                    }
                    let direct = i % 3 == 0;
                    let bodies: Vec<_> = plans
                        .iter()
                        .map(|lines| {
                            let (dbs, lines, db) = (dbs.clone(), lines.clone(), db.clone());
                            move |tid: usize, sc: &sched::Sched| {
                                let mut s = Session::new();
                                s.call(&dbs, &format!("use-db {} tok", db));
                                for (j, l) in lines.iter().enumerate() {
                                    sched::yield_point(sc, tid, "op");
                                    sc.log(Ev::Call(tid, j, l.clone()));
                                    // every third run the first client's versioned writes go through the write path
                                    // itself (db_ops::set_key_value, what every transport calls): its reply carries the
                                    // value it says is stored now, the transports reduce it to "ok"
                                    let parts: Vec<&str> = l.splitn(4, ' ').collect();
                                    let r = if direct && tid == 0 && parts[0] == "set-safe" {
                                        let map = dbs.map.read().unwrap();
                                        let dbh = map.get(&db).unwrap();
                                        nundb::db_ops::set_key_value(parts[1].to_string(), parts[3].to_string(), parts[2].parse().unwrap_or(0), dbh, &dbs)
                                    } else {
                                        s.call_raw(&dbs, l)
                                    };
                                    s.drain();
                                    sc.log(Ev::Ret(tid, j, short(&r)));
                                }
                            }
                        })
                        .collect();
                    let out = sched::run_controlled(bodies, &mut rng, if i % 2 == 0 { Policy::Random } else { Policy::Pct(2) });
                    node.pump();
                    total.fetch_add(1, std::sync::atomic::Ordering::SeqCst);
                    if out.stuck {
                        v.inconclusive("controlled run stuck");
                        let (n2, a2) = mem_node(&[]);
                        node = n2;
                        adm = a2;
                        continue;
                    }
                    let h = sched::schedule_hash(&out.events);
                    distinct.lock().unwrap().insert(h);
                    let replies: Vec<String> = out.events.iter().filter_map(|e| if let Ev::Ret(t, _, r) = e { if *t < 2 { Some(r.clone()) } else { None } } else { None }).collect();
                    let seen_stored: Vec<(String, i32)> = out
                        .events
                        .iter()
                        .filter_map(|e| if let Ev::Ret(2, _, r) = e { r.strip_prefix("Value ").map(|x| x.to_string()) } else { None })
                        .filter_map(|x| {
                            let mut p = x.rsplitn(2, " v");
                            let ver: i32 = p.next()?.parse().ok()?;
                            Some((p.next()?.to_string(), ver))
                        })
                        .collect();
                    let (fval, fver) = get_safe(&mut s0, &dbs, "k");
                    let notes: Vec<(i32, String)> = watcher
                        .drain()
                        .iter()
                        .filter_map(|n| n.strip_prefix("changed-version k ").map(|r| r.trim_end().to_string()))
                        .filter_map(|r| {
                            let mut p = r.splitn(2, ' ');
                            Some((p.next()?.parse().ok()?, p.next()?.to_string()))
                        })
                        .collect();
                    // overlap of two writes?
                    let mut open = 0;
                    let mut overlap = false;
                    for e in &out.events {
                        match e {
                            Ev::Call(..) => {
                                open += 1;
                                if open > 1 {
                                    overlap = true;
                                }
                            }
                            Ev::Ret(..) => open -= 1,
                            _ => {}
                        }
                    }
                    if overlap {
                        nontrivial.lock().unwrap().insert(h);
                    }
                    let written: BTreeSet<String> = plans.iter().take(2).flatten().map(|l| l.rsplit(' ').next().unwrap().to_string()).collect();
                    let mut problem: Option<&str> = None;
                    if replies.iter().any(|r| r.starts_with("Error") || r.starts_with("VersionError") || r.starts_with("THREAD-PANIC")) {
                        problem = Some("versioned-write-refused");
                    } else if !written.contains(&fval) {
                        problem = Some("final-value-was-never-written");
                    } else if notes.iter().any(|n| !written.contains(&n.1)) {
                        problem = Some("watcher-notified-of-a-value-nobody-wrote");
                    } else if seen_stored.iter().any(|(val, ver)| written.contains(val) && !notes.iter().any(|n| n.1 == *val && n.0 == *ver)) {
                        problem = Some("value-read-as-stored-was-never-notified");
                    } else if replies.iter().filter_map(|r| r.strip_prefix("Set ")).any(|named| !named.starts_with("base") && !notes.iter().any(|n| n.1 == named)) {
                        // the write path said "this value is stored now", and at no time was it: every change of the stored
                        // value reaches the watcher
                        problem = Some("reply-names-a-value-that-was-never-stored");
                    } else if let Some(top) = notes.iter().max_by_key(|n| n.0) {
                        if top.1 != fval || top.0 != fver {
                            problem = Some("highest-versioned-notification-is-not-the-stored-value");
                        } else {
                            let mut vers: Vec<i32> = notes.iter().map(|n| n.0).collect();
                            vers.sort();
                            let before = vers.len();
                            vers.dedup();
                            if vers.len() != before {
                                problem = Some("two-stored-values-share-a-version");
                            }
                        }
                    } else {
                        problem = Some("stored-value-changed-without-notification");
                    }
                    {
                        let mut sm = samples.lock().unwrap();
                        if sm.len() < 2 && overlap && problem.is_none() {
                            sm.push(json!({"clients": plans, "replies": replies, "final": [fval, fver], "watcher_changed_version": notes, "reader_saw": seen_stored}));
                        }
                    }
                    // a versioned write that was accepted but never stored (no notification carries its value) lost against
                    // another change. That is in order only if the winner was issued later: the node stamps a change when it
                    // creates it (again when it re-applies a stale one), always in the stretch of execution that ends at the
                    // change's scheduling point before the database lock, so the order of those points in the trace is the
                    // order of issue. Some applied write must have reached its last such point after the loser reached its
                    // own - otherwise the most recently issued change was dropped in favour of an older one.
                    if problem.is_none() {
                        let mut last_site: BTreeMap<(usize, usize), usize> = BTreeMap::new();
                        let mut current: BTreeMap<usize, usize> = BTreeMap::new();
                        let mut line_of: BTreeMap<(usize, usize), String> = BTreeMap::new();
                        for (pos, e) in out.events.iter().enumerate() {
                            match e {
                                Ev::Call(t, j, l) => {
                                    current.insert(*t, *j);
                                    line_of.insert((*t, *j), l.clone());
                                }
                                Ev::Ret(t, _, _) => {
                                    current.remove(t);
                                }
                                Ev::Site(t, name) if name == "db.map:set_value" => {
                                    if let Some(j) = current.get(t) {
                                        last_site.insert((*t, *j), pos);
                                    }
                                }
                                _ => {}
                            }
                        }
                        CHECKED_DROPS.fetch_add(0, std::sync::atomic::Ordering::Relaxed);
                        for ((t, j), l) in line_of.iter().filter(|((t, _), _)| *t < 2) {
                            let val = l.rsplit(' ').next().unwrap().to_string();
                            let applied = |x: &str| notes.iter().any(|n| n.1 == x);
                            if applied(&val) || !l.starts_with("set-safe") {
                                continue;
                            }
                            CHECKED_DROPS.fetch_add(1, std::sync::atomic::Ordering::Relaxed);
                            let Some(mine) = last_site.get(&(*t, *j)) else { continue };
                            let later_winner = line_of.iter().any(|((t2, j2), l2)| (*t2, *j2) != (*t, *j) && *t2 < 2 && applied(l2.rsplit(' ').next().unwrap()) && last_site.get(&(*t2, *j2)).map(|p| p > mine).unwrap_or(false));
                            if !later_winner {
                                problem = Some("accepted-write-dropped-in-favour-of-a-change-issued-earlier");
                            }
                        }
                    }
                    if let Some(p) = problem {
                        v.report(json!({"check": "newer", "mode": "two-concurrent-writers", "problem": p}), json!({"clients": plans, "replies": replies, "final": [fval, fver], "watcher_changed_version": notes, "reader_saw": seen_stored,
                            "events": out.events.iter().map(|e| format!("{:?}", e)).collect::<Vec<_>>()}));
                    }
                }
            });
        }
    });
    sched::clear_callback();
    (total.into_inner(), distinct.into_inner().unwrap(), nontrivial.into_inner().unwrap(), samples.into_inner().unwrap())
}

// ---------------------------------------------------------------- (c) replicated
fn replicated(v: &Verdicts, runs: usize, seed0: u64) -> (u64, u64) {
    let done = std::sync::atomic::AtomicU64::new(0);
    let inconclusive = std::sync::atomic::AtomicU64::new(0);
    let next = std::sync::atomic::AtomicUsize::new(0);
    std::thread::scope(|sc| {
        for _ in 0..workers() {
            let (next, v, done, inconclusive) = (&next, &v, &done, &inconclusive);
            sc.spawn(move || loop {
                let i = next.fetch_add(1, std::sync::atomic::Ordering::SeqCst);
                if i >= runs {
                    break;
                }
                let mut r = Rng::new(seed0.wrapping_mul(1_234_577).wrapping_add(i as u64));
                // every third run: three nodes, the second writer sits on a secondary
                let cross = i % 3 == 2;
                let n = if cross { 3 } else { 2 + (i % 2) };
                let Some(mut c) = form_cluster(n, r.next(), "c19") else {
                    inconclusive.fetch_add(1, std::sync::atomic::Ordering::SeqCst);
                    continue;
                };
                c.open_session("a", 0);
                c.open_session("b", if cross { 1 } else { 0 });
                for l in ["auth admin pwd", "create-db nw tok newer", "use-db nw tok", "set k base0", "set k base1"] {
                    c.send("a", l);
                }
                let _ = c.run_until_quiet();
                c.call("b", "use-db nw tok");
                let concurrent = cross || i % 2 == 1;
                let mut lines = vec![];
                for s in ["a", "b"] {
                    for j in 0..r.range(1, 3) {
                        let l = match r.below(3) {
                            0 => format!("set k {}{}", s, j),
                            _ => format!("set-safe k {} {}{}", r.below(4), s, j),
                        };
                        lines.push((s, l));
                    }
                }
                // next to the shared key every session writes a key of its own (round 11): no other session touches it, so
                // whatever the order of the replicated messages, every replica ends with exactly the primary's value for it
                if !cross {
                    for s in ["a", "b"] {
                        for j in 0..r.range(1, 2) {
                            let at = r.below(lines.len() + 1);
                            lines.insert(at, (s, if r.chance(1, 2) { format!("set own{} {}own{}", s, s, j) } else { format!("set-safe own{} {} {}own{}", s, r.below(3), s, j) }));
                        }
                    }
                }
                if concurrent {
                    // lock-level interleavings inside the node, the gap between taking an operation id and queueing the message included
                    c.sim.fine.store(2, std::sync::atomic::Ordering::SeqCst);
                    for (s, l) in &lines {
                        c.send(s, l);
                    }
                    let _ = c.run_until_quiet();
                    c.sim.fine.store(0, std::sync::atomic::Ordering::SeqCst);
                } else {
                    for (s, l) in &lines {
                        c.send(s, l);
                        let _ = c.run_until_quiet();
                    }
                }
                let q = c.run_until_quiet();
                if !matches!(q, Outcome::Quiet(_)) {
                    inconclusive.fetch_add(1, std::sync::atomic::Ordering::SeqCst);
                    c.shutdown();
                    continue;
                }
                done.fetch_add(1, std::sync::atomic::Ordering::SeqCst);
                let sets: Vec<_> = (0..n).map(|i| c.dataset(i)).collect();
                let pk = sets[0].iter().find(|(k, _)| k.starts_with("nw ")).and_then(|(_, m)| m.get("k").cloned());
                if cross {
                    // whatever order the primary gave the writes of the two nodes, both secondaries got the same stream
                    // from it after the issuing one had applied its own writes: they hold the same value
                    let at = |i: usize| sets[i].iter().find(|(k, _)| k.starts_with("nw ")).and_then(|(_, m)| m.get("k").map(|x| x.0.clone()));
                    if at(1) != at(2) {
                        v.report(json!({"check": "newer", "mode": "replicated", "writers": "one-session-on-the-primary-one-on-a-secondary", "problem": "the-secondaries-hold-different-values"}),
                            json!({"nodes": n, "writes": lines, "primary": pk, "issuing_secondary": at(1), "other_secondary": at(2),
                                   "links_tail": c.link_log().iter().rev().take(40).rev().map(|l| format!("[{}] n{}->n{} {}", l.0, l.1, l.2, l.3)).collect::<Vec<_>>()}));
                    }
                    c.shutdown();
                    continue;
                }
                let own_of = |i: usize, key: &str| sets[i].iter().find(|(k, _)| k.starts_with("nw ")).and_then(|(_, m)| m.get(key).map(|x| x.0.clone()));
                'own: for key in ["owna", "ownb"] {
                    for i in 1..n {
                        if own_of(i, key) != own_of(0, key) {
                            v.report(json!({"check": "newer", "mode": "replicated", "writers": if concurrent {"two-concurrent-sessions-on-the-primary"} else {"sequential"}, "problem": "replica-differs-on-a-key-only-one-session-writes"}),
                                json!({"nodes": n, "writes": lines, "key": key, "primary": own_of(0, key), "replica": own_of(i, key), "replica_index": i,
                                       "links_tail": c.link_log().iter().rev().take(30).rev().map(|l| format!("[{}] n{}->n{} {}", l.0, l.1, l.2, l.3)).collect::<Vec<_>>()}));
                            break 'own;
                        }
                    }
                }
                for i in 1..n {
                    let ok = sets[i].iter().find(|(k, _)| k.starts_with("nw ")).and_then(|(_, m)| m.get("k").cloned());
                    if pk.as_ref().map(|x| &x.0) != ok.as_ref().map(|x| &x.0) {
                        v.report(json!({"check": "newer", "mode": "replicated", "writers": if concurrent {"two-concurrent-sessions-on-the-primary"} else {"sequential"}, "problem": "replica-holds-a-different-value"}),
                            json!({"nodes": n, "writes": lines, "primary": pk, "replica": ok, "replica_index": i,
                                   "links_tail": c.link_log().iter().rev().take(30).rev().map(|l| format!("[{}] n{}->n{} {}", l.0, l.1, l.2, l.3)).collect::<Vec<_>>()}));
                        break;
                    }
                }
                c.shutdown();
            });
        }
    });
    (done.into_inner(), inconclusive.into_inner())
}

// ---------------------------------------------------------------- (d) free-running writers, reader and watcher
/// Real threads, no scheduler: two sessions write one watched key of a newer database (plain and
/// always-stale versioned writes, every value unique), a third session keeps reading it and a
/// watcher keeps draining its notifications. Every (value, version) the reader saw stored is a
/// change of the stored value, so the watcher has to have heard exactly that pair; the highest
/// notified version carries the value stored at the end.
fn free_running(v: &Verdicts, rounds: usize) -> (u64, u64, u64) {
    use std::sync::atomic::{AtomicBool, AtomicUsize, Ordering};
    let (mut writes, mut reads, mut heard) = (0u64, 0u64, 0u64);
    for r in 0..rounds {
        let (node, _adm) = mem_node(&[("fr", "newer")]);
        let dbs = node.dbs.clone();
        let per = 150usize;
        let done = AtomicUsize::new(0);
        let stop = AtomicBool::new(false);
        let mut watcher = Session::new();
        watcher.call(&dbs, "use-db fr tok");
        watcher.call(&dbs, "watch k");
        watcher.drain();
        let (seen, notes, refused) = std::thread::scope(|sc| {
            let hs: Vec<_> = (0..2)
                .map(|c| {
                    let (dbs, done) = (dbs.clone(), &done);
                    sc.spawn(move || {
                        let mut s = Session::new();
                        s.call(&dbs, "use-db fr tok");
                        let mut refused = vec![];
                        for j in 0..per {
                            let line = if (j + c) % 2 == 0 { format!("set k r{}c{}x{}", r, c, j) } else { format!("set-safe k {} r{}c{}x{}", j % 3, r, c, j) };
                            let rep = s.call(&dbs, &line);
                            if rep.is_error() {
                                refused.push((line, rep.resp));
                            }
                            if j % 8 == 0 {
                                std::thread::sleep(std::time::Duration::from_micros(30));
                            }
                        }
                        done.fetch_add(1, Ordering::SeqCst);
                        refused
                    })
                })
                .collect();
            let reader = {
                let (dbs, done) = (dbs.clone(), &done);
                sc.spawn(move || {
                    let mut s = Session::new();
                    s.call(&dbs, "use-db fr tok");
                    let mut seen: BTreeSet<(i32, String)> = BTreeSet::new();
                    let mut n = 0u64;
                    while done.load(Ordering::SeqCst) < 2 {
                        let (val, ver) = get_safe(&mut s, &dbs, "k");
                        n += 1;
                        // a key that does not exist yet reads as "<Empty>": only values a writer sent count
                        if ver != i32::MIN && val.starts_with('r') {
                            seen.insert((ver, val));
                        }
                    }
                    (seen, n)
                })
            };
            let listener = {
                let stop = &stop;
                let watcher = &mut watcher;
                sc.spawn(move || {
                    let mut notes: Vec<(i32, String)> = vec![];
                    loop {
                        let finished = stop.load(Ordering::SeqCst);
                        let got = watcher.drain();
                        for n in &got {
                            if let Some(rest) = n.strip_prefix("changed-version k ") {
                                let mut p = rest.trim_end().splitn(2, ' ');
                                if let (Some(ver), Some(val)) = (p.next().and_then(|x| x.parse().ok()), p.next()) {
                                    notes.push((ver, val.to_string()));
                                }
                            }
                        }
                        if finished && got.is_empty() {
                            break;
                        }
                        if got.is_empty() {
                            std::thread::yield_now();
                        }
                    }
                    notes
                })
            };
            let mut refused = vec![];
            for h in hs {
                refused.extend(h.join().unwrap_or_default());
            }
            let (seen, n) = reader.join().unwrap_or_default();
            std::thread::sleep(std::time::Duration::from_millis(5));
            stop.store(true, Ordering::SeqCst);
            let notes = listener.join().unwrap_or_default();
            reads += n;
            (seen, notes, refused)
        });
        writes += 2 * per as u64;
        heard += notes.len() as u64;
        let mut s0 = Session::new();
        s0.call(&dbs, "use-db fr tok");
        let (fval, fver) = get_safe(&mut s0, &dbs, "k");
        let noted: BTreeSet<(i32, String)> = notes.iter().cloned().collect();
        let missing: Vec<&(i32, String)> = seen.iter().filter(|x| !noted.contains(*x)).collect();
        let mut problem = None;
        if !refused.is_empty() {
            problem = Some("versioned-write-refused");
        } else if !missing.is_empty() {
            problem = Some("value-read-as-stored-was-never-notified");
        } else if notes.iter().max_by_key(|n| n.0).map(|t| t.1 != fval || t.0 != fver).unwrap_or(true) {
            problem = Some("highest-versioned-notification-is-not-the-stored-value");
        } else if noted.len() != notes.len() {
            problem = Some("two-stored-values-share-a-version");
        }
        if let Some(p) = problem {
            v.report(
                json!({"check": "newer", "mode": "free-running-writers-reader-watcher", "problem": p}),
                json!({"round": r, "writes": 2 * per, "refused": refused.iter().take(5).collect::<Vec<_>>(), "read_as_stored_but_never_notified": missing.iter().take(10).collect::<Vec<_>>(),
                       "distinct_pairs_read": seen.len(), "notifications": notes.len(), "final": [fval, fver]}),
            );
        }
    }
    (writes, reads, heard)
}

// ---------------------------------------------------------------- (e) databases restored without metadata
/// "The default for the administrative database and for databases restored without metadata": a database of any strategy
/// is snapshotted, its metadata file is lost (a data directory written before metadata existed, or a kill during the
/// first snapshot before the metadata is written), the node restarts: a stale versioned write is still accepted, the
/// latest issued change is stored, the version grows and a watcher hears of it. The same on the administrative database.
fn restored_part(v: &Verdicts) -> u64 {
    use crate::common::node::{Node, NodeOpts};
    let mut cases = 0u64;
    for created_as in ["newer", "none", "arbiter"] {
        for reclaim in [false, true] {
            cases += 1;
            let dir = fresh_dir("c19-restored");
            let start = |dir: &str| -> Node {
                let mut o = NodeOpts::simple(dir);
                o.load_from_disk = true;
                let n = Node::start(o);
                n.set_role(nundb::bo::ClusterRole::Primary);
                n
            };
            {
                let mut node = start(&dir);
                let dbs = node.dbs.clone();
                let mut adm = Session::new();
                adm.call(&dbs, "auth admin pwd");
                adm.call(&dbs, &format!("create-db rs tok {}", created_as));
                adm.call(&dbs, "use-db rs tok");
                adm.call(&dbs, "set k v1");
                adm.call(&dbs, "set k v2");
                adm.call(&dbs, &format!("snapshot {} rs", reclaim));
                node.declutter();
                node.safe_shutdown();
            }
            let meta = format!("{}/rs-nun.madadata", dir);
            if std::fs::remove_file(&meta).is_err() {
                v.inconclusive(&format!("no metadata file at {}", meta));
                continue;
            }
            if crate::c06::load_probe(&dir).is_err() {
                continue; // start-up failures are C06's / C11's business
            }
            let node = start(&dir);
            let dbs = node.dbs.clone();
            for (db, token) in [("rs", "tok"), ("$admin", "pwd")] {
                let mut w = Session::new();
                w.call(&dbs, "auth admin pwd");
                if w.call(&dbs, &format!("use-db {} {}", db, token)).is_error() {
                    continue; // a database that did not come back is C06's business
                }
                let mut watcher = Session::new();
                watcher.call(&dbs, "auth admin pwd");
                watcher.call(&dbs, &format!("use-db {} {}", db, token));
                watcher.call(&dbs, "watch k");
                if db == "$admin" {
                    w.call(&dbs, "set k v1");
                    w.call(&dbs, "set k v2");
                }
                watcher.drain();
                let (_, before) = get_safe(&mut w, &dbs, "k");
                let r = w.call(&dbs, "set-safe k 0 v3");
                let (val, ver) = get_safe(&mut w, &dbs, "k");
                let notes = watcher.drain();
                let problem = if r.is_error() {
                    Some("versioned-write-refused")
                } else if val != "v3" {
                    Some("latest-issued-change-not-stored")
                } else if ver <= before {
                    Some("stored-version-did-not-grow")
                } else if notes.iter().filter(|n| n.trim_end() == "changed k v3").count() != 1 {
                    Some("watcher-not-notified-exactly-once-of-the-value-change")
                } else {
                    None
                };
                if let Some(p) = problem {
                    v.report(
                        json!({"check": "newer", "mode": "restored-without-metadata", "problem": p, "database": if db == "$admin" { "administrative" } else { "user" }, "created_as": created_as}),
                        json!({"snapshot_reclaims": reclaim, "reply": r.resp, "version_before": before, "after": [val, ver], "watcher": notes}),
                    );
                }
            }
        }
    }
    cases
}

pub fn run(tier: &str) -> i32 {
    std::env::set_var("NUN_ELECTION_TIMEOUT", "30");
    quiet_panics();
    let thorough = tier == "thorough";
    let v = Verdicts::load("C19");
    let mut ev = Evidence::new("C19", tier, "exploration");
    let mut rng = Rng::new(seed());
    let (seq_steps, seq_classes) = sequential(&v, &mut rng, if thorough { 60_000 } else { 6_000 });
    let (c_runs, c_distinct, c_nontrivial, c_samples) = concurrent(&v, if thorough { 60_000 } else { 5_000 }, seed());
    FINE_POINTS.store(true, std::sync::atomic::Ordering::SeqCst);
    let (r_runs, r_inconclusive) = replicated(&v, if thorough { 3000 } else { 200 }, seed());
    FINE_POINTS.store(false, std::sync::atomic::Ordering::SeqCst);
    let (f_writes, f_reads, f_heard) = free_running(&v, if thorough { 400 } else { 40 });
    let restored_cases = restored_part(&v);
    ev.evaluations = seq_steps + c_runs + r_runs + f_writes;
    ev.distinct_nontrivial = c_nontrivial.len() as u64;
    ev.rule = format!("(a) {} sequential writes in histories of 1-6 plain / versioned writes (version below, at, above current) on 2 keys of a newer database with a watcher; (b) {} token-passing schedules of two writers (1-3 writes each, plain and versioned 0-3) on one key with a watcher, every other one with a third session reading the key; (c) {} simulated-cluster runs where two sessions on the primary write one key sequentially or concurrently (yield point between creating a change and applying it) and 1-2 secondaries replay the primary's order; (d) free-running threads: {} writes by two sessions on one watched key while a third session read it {} times and the watcher heard {} notifications; distinct_nontrivial = distinct schedules of (b) in which the two writers' operations overlap", seq_steps, c_runs, r_runs, f_writes, f_reads, f_heard);
    ev.samples = c_samples;
    // watchers are notified exactly when the stored value changes - also when the key's subscriber list holds entries of
    // sessions that are gone (the part is shared with C03, here on a newer database with a stale versioned write)
    let leftover = crate::c03::leftover_subscriptions_part(&v, "newer-watch", "newer");
    ev.set("subscriptions_left_behind_by_departed_sessions", json!({"cases": leftover.0, "notifications_judged": leftover.1}));
    ev.set("sequential_version_classes", json!(seq_classes.iter().cloned().collect::<Vec<_>>()));
    ev.set("concurrent_distinct_schedules", json!(c_distinct.len()));
    ev.set("concurrent_stale_writes_that_lost_judged_by_issue_order", json!(CHECKED_DROPS.load(std::sync::atomic::Ordering::Relaxed)));
    ev.set("replicated_runs", json!(r_runs));
    ev.set("restarts_of_a_database_whose_metadata_file_was_lost", json!(restored_cases));
    ev.set("replicated_inconclusive", json!(r_inconclusive));
    ev.set("known_findings_seen", json!(v.known_seen()));
    ev.violations = v.violation_count();
    ev.assumptions = vec![
        "through process_request a successful write always answers Ok; 'the reply says which value is now stored' is checked on the value the write path itself returns (db_ops::set_key_value)".into(),
        "concurrent oracle: no refusal, final value was written by someone, the highest-versioned notification carries the stored value and version, no two notifications share a version, no notification for a value nobody wrote, every (value, version) a concurrent reader saw stored was notified with that version".into(),
    ];
    ev.write();
    cleanup_scratch();
    let code = v.finish(tier);
    if code == 0 && (c_nontrivial.len() < 500 || r_runs < 50) {
        println!("INCONCLUSIVE property=C19 reason=coverage floor not met ({} overlapping schedules, {} cluster runs)", c_nontrivial.len(), r_runs);
        return 2;
    }
    println!("C19 {}: {} sequential writes, {} concurrent schedules ({} distinct, {} overlapping), {} replicated runs, {} free-running writes ({} reads, {} notifications heard), {} violations", tier, seq_steps, c_runs, c_distinct.len(), c_nontrivial.len(), r_runs, f_writes, f_reads, f_heard, v.violation_count());
    code
}
