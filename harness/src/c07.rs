//! C07 — elections end with exactly one primary, the oldest node, and all agree.
//! Engine N runs the real supervisor, replication loop and elections of 2-3 nodes
//! under a seeded token scheduler; at every quiescent point roles and cluster
//! views are judged; a run that does not become quiet within the step budget is
//! a non-terminating election.
use crate::cluster::*;
use crate::common::evidence::Evidence;
use crate::common::kf::Verdicts;
use crate::common::rng::Rng;
use crate::common::*;
use serde_json::json;
use std::collections::BTreeSet;
use std::sync::Mutex;

pub fn smoke() -> i32 {
    std::env::set_var("NUN_ELECTION_TIMEOUT", "30");
    quiet_panics();
    let ids: Vec<u128> = std::env::var("VERIF_SMOKE_IDS").ok().map(|s| s.split(',').filter_map(|x| x.parse().ok()).collect()).unwrap_or(vec![100, 200, 300]);
    let mut c = Cluster::new(3, seed(), "smoke");
    c.start_node(0, ids[0], &[]);
    println!("-> {:?}", c.run_until_quiet());
    c.start_node(1, ids[1], &[0, 1]);
    println!("-> {:?}", c.run_until_quiet());
    c.start_node(2, ids[2], &[0, 1, 2]);
    println!("-> {:?}", c.run_until_quiet());
    for l in c.trace() {
        println!("{}", l);
    }
    for l in c.link_log() {
        println!("  [{}] n{}->n{} {}", l.0, l.1, l.2, l.3);
    }
    println!("roles {:?}", c.roles());
    println!("views {:?}", c.views());
    for i in 0..3 {
        println!("members n{}: {:?} pending {}", i, c.members(i), c.pending_ops(i));
    }
    println!("wins {:?} panics {:?}", c.wins(), c.panics());
    c.shutdown();
    cleanup_scratch();
    0
}

#[derive(Clone, Debug)]
pub enum Step {
    /// start node i with the join list = all nodes (as `--replicate-address a,b,c`)
    Start(usize),
    Quiet,
    /// let the scheduler run k steps without waiting for quiescence
    Run(u64),
    Kill(usize),
    /// kill node .0; node .1 learns of the closed connections late (Cluster::kill_node_noticed_late_by)
    KillNoticedLateBy(usize, usize),
    /// restart a killed node (it becomes the youngest)
    Restart(usize),
    ForceElection(usize),
}

#[derive(Clone, Debug)]
pub struct Scenario {
    pub class: &'static str,
    pub nodes: usize,
    pub steps: Vec<Step>,
}

pub fn scenarios(r: &mut Rng) -> Scenario {
    let n = r.range(2, 3);
    let gap = |r: &mut Rng| -> Step { if r.chance(1, 2) { Step::Quiet } else { Step::Run(r.range(0, 60) as u64) } };
    match r.below(13) {
        11 => {
            // two primaries lost one after the other (round 10): the second one to die is a node the survivors first knew as
            // a secondary and that announced its victory over links opened between secondaries
            let mut steps: Vec<Step> = (0..3).flat_map(|i| vec![Step::Start(i), Step::Quiet]).collect();
            steps.extend([Step::Kill(0), Step::Quiet, Step::Kill(1), Step::Quiet]);
            Scenario { class: "two-primaries-killed-one-after-the-other", nodes: 3, steps }
        }
        12 => {
            // the same with the first primary back (as the youngest node) before its successor dies
            let mut steps: Vec<Step> = (0..3).flat_map(|i| vec![Step::Start(i), Step::Quiet]).collect();
            steps.extend([Step::Kill(0), Step::Quiet, Step::Restart(0), Step::Quiet, Step::Kill(1), Step::Quiet]);
            Scenario { class: "primary-killed-and-restarted-then-its-successor-killed", nodes: 3, steps }
        }
        0 => Scenario { class: "sequential-joins", nodes: n, steps: (0..n).flat_map(|i| vec![Step::Start(i), Step::Quiet]).collect() },
        1 => {
            let mut steps = vec![];
            for i in 0..n {
                steps.push(Step::Start(i));
                steps.push(gap(r));
            }
            steps.push(Step::Quiet);
            Scenario { class: "staggered-start", nodes: n, steps }
        }
        2 => {
            let mut steps: Vec<Step> = (0..n).map(Step::Start).collect();
            steps.push(Step::Quiet);
            Scenario { class: "simultaneous-start", nodes: n, steps }
        }
        3 => {
            let mut steps: Vec<Step> = (0..n).flat_map(|i| vec![Step::Start(i), Step::Quiet]).collect();
            steps.push(Step::Kill(0));
            steps.push(Step::Quiet);
            Scenario { class: "primary-killed", nodes: n, steps }
        }
        4 => {
            let mut steps: Vec<Step> = (0..n).flat_map(|i| vec![Step::Start(i), Step::Quiet]).collect();
            let k = r.range(1, n - 1);
            steps.push(Step::Kill(k));
            steps.push(Step::Quiet);
            steps.push(Step::Restart(k));
            steps.push(Step::Quiet);
            Scenario { class: "secondary-killed-and-restarted", nodes: n, steps }
        }
        5 => {
            let mut steps: Vec<Step> = (0..n).flat_map(|i| vec![Step::Start(i), Step::Quiet]).collect();
            steps.push(Step::Kill(0));
            steps.push(gap(r));
            steps.push(Step::Restart(0));
            steps.push(Step::Quiet);
            Scenario { class: "primary-killed-and-restarted", nodes: n, steps }
        }
        6 => {
            let mut steps: Vec<Step> = (0..n).flat_map(|i| vec![Step::Start(i), Step::Quiet]).collect();
            steps.push(Step::ForceElection(r.below(n)));
            steps.push(Step::Quiet);
            Scenario { class: "forced-election", nodes: n, steps }
        }
        7 => {
            let mut steps: Vec<Step> = (0..n).flat_map(|i| vec![Step::Start(i), Step::Quiet]).collect();
            steps.push(Step::ForceElection(r.below(n)));
            steps.push(Step::Run(r.range(0, 30) as u64));
            steps.push(Step::ForceElection(r.below(n)));
            steps.push(Step::Quiet);
            Scenario { class: "two-forced-elections", nodes: n, steps }
        }
        9 | 10 => {
            // the primary dies and one survivor notices it late (after the other one has held its election, but well
            // inside an election timeout): 3 nodes, the late one is the older or the younger survivor
            let mut steps: Vec<Step> = (0..3).flat_map(|i| vec![Step::Start(i), Step::Quiet]).collect();
            steps.push(Step::KillNoticedLateBy(0, r.range(1, 2)));
            steps.push(Step::Quiet);
            Scenario { class: "primary-killed-one-survivor-notices-late", nodes: 3, steps }
        }
        _ => {
            let mut steps: Vec<Step> = (0..n).flat_map(|i| vec![Step::Start(i), Step::Quiet]).collect();
            steps.push(Step::Kill(0));
            steps.push(Step::Run(r.range(0, 20) as u64));
            steps.push(Step::ForceElection(r.range(1, n - 1)));
            steps.push(Step::Quiet);
            Scenario { class: "primary-killed-plus-forced-election", nodes: n, steps }
        }
    }
}

/// Judges roles and views at a quiescent point. Returns (problem, detail).
pub fn judge(c: &Cluster, ids: &[u128]) -> Option<(String, String)> {
    let roles = c.roles();
    let views = c.views();
    let live: Vec<usize> = (0..roles.len()).filter(|i| roles[*i].is_some()).collect();
    if live.is_empty() {
        return None;
    }
    let prims: Vec<usize> = live.iter().cloned().filter(|i| roles[*i].as_deref() == Some("Primary")).collect();
    let oldest = *live.iter().min_by_key(|i| ids[**i]).unwrap();
    let detail = format!("roles {:?} views {:?} process ids {:?}", roles, views, ids);
    // whatever the election ended with: one node's own member list never names two primaries
    if live.iter().any(|i| views[*i].as_deref() == Some("many")) {
        return Some(("a-member-list-names-more-than-one-primary".into(), detail));
    }
    if prims.len() > 1 {
        return Some(("more-than-one-primary".into(), detail));
    }
    if prims.is_empty() {
        return Some(("no-primary".into(), detail));
    }
    if prims[0] != oldest {
        return Some(("primary-is-not-the-oldest-live-node".into(), detail));
    }
    for i in &live {
        if *i != prims[0] && roles[*i].as_deref() != Some("Secoundary") {
            return Some(("non-primary-node-is-not-secondary".into(), detail));
        }
    }
    let paddr = c.addr(prims[0]);
    for i in &live {
        if views[*i].as_deref() != Some(paddr.as_str()) {
            return Some(("cluster-state-names-a-different-primary".into(), detail));
        }
    }
    None
}

pub struct Stats {
    pub runs: u64,
    pub quiet_points: u64,
    pub distinct: BTreeSet<String>,
    pub win_branches: BTreeSet<String>,
    pub classes: BTreeSet<String>,
    pub max_steps: u64,
    pub ticks: u64,
    pub link_lines: u64,
    pub samples: Vec<serde_json::Value>,
    pub inconclusive: u64,
}

pub fn run_scenario(sc: &Scenario, seed0: u64, v: &Verdicts, st: &Mutex<Stats>) {
    let mut c = Cluster::new(sc.nodes, seed0, "c07");
    let mut ids: Vec<u128> = vec![0; sc.nodes];
    let mut next_id: u128 = 100;
    let all: Vec<usize> = (0..sc.nodes).collect();
    let mut quiet_points = 0u64;
    let mut verdict: Option<(String, String, String)> = None; // problem, detail, after step
    let mut forced = 0;
    'steps: for (si, s) in sc.steps.iter().enumerate() {
        match s {
            Step::Start(i) | Step::Restart(i) => {
                ids[*i] = next_id;
                next_id += 100;
                c.start_node(*i, ids[*i], &all);
            }
            Step::Kill(i) => c.kill_node(*i),
            Step::KillNoticedLateBy(i, late) => c.kill_node_noticed_late_by(*i, *late),
            Step::Run(k) => {
                c.run_steps(*k);
            }
            Step::ForceElection(i) => {
                if !c.alive(*i) {
                    continue;
                }
                forced += 1;
                let name = format!("f{}", forced);
                c.open_session(&name, *i);
                c.call(&name, "auth admin pwd");
                c.send(&name, "debug force-election");
            }
            Step::Quiet => {
                match c.run_until_quiet() {
                    Outcome::Quiet(_) => {
                        quiet_points += 1;
                        if !c.panics().is_empty() {
                            verdict = Some(("service-thread-panicked".into(), c.panics().join(" | "), format!("{:?}", &sc.steps[..=si])));
                            break 'steps;
                        }
                        if let Some((p, d)) = judge(&c, &ids) {
                            verdict = Some((p, d, format!("{:?}", &sc.steps[..=si])));
                            break 'steps;
                        }
                    }
                    Outcome::BudgetExceeded => {
                        verdict = Some(("election-does-not-terminate-within-the-step-budget".into(), format!("{} steps without quiescence", c.budget), format!("{:?}", &sc.steps[..=si])));
                        break 'steps;
                    }
                    Outcome::Stuck(why) => {
                        v.inconclusive(&format!("scheduler watchdog: {}", why));
                        st.lock().unwrap().inconclusive += 1;
                        break 'steps;
                    }
                }
            }
        }
    }
    if std::env::var("VERIF_DEBUG_C07").is_ok() && sc.class.contains("notices-late") {
        eprintln!("DBG {:?}\n  roles {:?} views {:?}\n  {}", sc.steps.last(), c.roles(), c.views(), c.trace().iter().rev().take(14).rev().cloned().collect::<Vec<_>>().join("\n  "));
        eprintln!("  LINKS\n  {}", c.link_log().iter().rev().take(40).rev().map(|l| format!("[{}] n{}->n{} {}", l.0, l.1, l.2, l.3)).collect::<Vec<_>>().join("\n  "));
    }
    let wins: Vec<String> = c.wins().iter().map(|w| w.1.clone()).collect();
    let win_set: BTreeSet<String> = wins.iter().cloned().collect();
    {
        let mut s = st.lock().unwrap();
        s.runs += 1;
        s.quiet_points += quiet_points;
        // non-trivial = an election with at least two participants was decided (a victory through acknowledgements,
        // a timeout or the not-registered branch), not only the lone-node shortcut
        if win_set.iter().any(|w| w != "single_node") {
            s.distinct.insert(format!("{}|{}|{:x}", sc.class, win_set.iter().cloned().collect::<Vec<_>>().join("+"), c.decisions_hash()));
        }
        for w in &win_set {
            s.win_branches.insert(w.clone());
        }
        s.classes.insert(sc.class.to_string());
        s.max_steps = s.max_steps.max(c.max_quiet_steps);
        s.ticks += c.sim.inner.lock().unwrap().ticks;
        s.link_lines += c.link_log().len() as u64;
        if s.samples.len() < 3 && verdict.is_none() && sc.nodes == 3 {
            s.samples.push(json!({"scenario": format!("{:?}", sc), "trace": c.trace(), "final_roles": c.roles(), "final_views": c.views(), "victory_branches": wins}));
        }
    }
    if let Some((problem, detail, after)) = verdict {
        // how many different nodes claimed victory because they saw nobody else ("only one node in the cluster")
        // do two triggers overlap (a start / restart / forced election issued before the previous one had settled)?
        let mut overlapping = false;
        let mut pending_trigger = false;
        for s in &sc.steps {
            match s {
                Step::Quiet => pending_trigger = false,
                Step::Run(_) => {}
                Step::Start(_) | Step::Restart(_) | Step::ForceElection(_) | Step::Kill(_) | Step::KillNoticedLateBy(..) => {
                    if pending_trigger {
                        overlapping = true;
                    }
                    pending_trigger = true;
                }
            }
        }
        let sig = json!({"check": "election", "scenario_class": sc.class, "triggers_overlap": overlapping, "problem": problem});
        v.report(sig, json!({"scenario": format!("{:?}", sc), "seed": seed0, "judged_after": after, "detail": detail, "trace": c.trace(),
            "links": c.link_log().iter().map(|l| format!("[{}] n{}->n{} {}", l.0, l.1, l.2, l.3)).collect::<Vec<_>>(), "victory_branches": c.wins().iter().map(|w| format!("n{}:{}", w.0, w.1)).collect::<Vec<_>>(),
            "members": (0..sc.nodes).filter(|i| c.alive(*i)).map(|i| format!("n{}: {:?}", i, c.members(i))).collect::<Vec<_>>()}));
    }
    c.shutdown();
}

pub fn run(tier: &str) -> i32 {
    std::env::set_var("NUN_ELECTION_TIMEOUT", "30");
    quiet_panics();
    let thorough = tier == "thorough";
    let v = Verdicts::load("C07");
    let mut ev = Evidence::new("C07", tier, "exploration");
    let st = Mutex::new(Stats { runs: 0, quiet_points: 0, distinct: BTreeSet::new(), win_branches: BTreeSet::new(), classes: BTreeSet::new(), max_steps: 0, ticks: 0, link_lines: 0, samples: vec![], inconclusive: 0 });
    let n_runs = if thorough { 12_000 } else { 700 };
    let next = std::sync::atomic::AtomicUsize::new(0);
    std::thread::scope(|sc| {
        for _ in 0..workers() {
            let (next, v, st) = (&next, &v, &st);
            sc.spawn(move || loop {
                let i = next.fetch_add(1, std::sync::atomic::Ordering::SeqCst);
                if i >= n_runs {
                    break;
                }
                let mut r = Rng::new(seed().wrapping_mul(1_000_003).wrapping_add(i as u64));
                let scn = scenarios(&mut r);
                run_scenario(&scn, r.next(), v, st);
            });
        }
    });
    let s = st.into_inner().unwrap();
    ev.evaluations = s.runs;
    ev.distinct_nontrivial = s.distinct.len() as u64;
    ev.rule = format!("{} simulated-cluster runs over 12 scenario classes (sequential joins, staggered and simultaneous start, primary killed, two primaries killed one after the other - with and without the first one back in between -, secondary killed+restarted, primary killed+restarted, forced election, two forced elections, primary killed + forced election) with 2-3 nodes of distinct ages; real supervisor / replication loop / election code, emulated FIFO links, seeded token scheduler in which an election-wait tick or a start-up timer is taken only when nothing else is enabled (plus at most 4 early ticks per wait, timeout = 15 ticks); judged at every quiescent point; step budget {} (largest quiescent run: {} steps); distinct_nontrivial = distinct (scenario class, victory branches taken, scheduler decision hash) among the runs in which a contested election (>= 2 participants: victory by acknowledgements, timeout or not-registered branch) was decided", n_runs, 6000, s.max_steps);
    ev.samples = s.samples.clone();
    ev.set("quiescent_points_judged", json!(s.quiet_points));
    ev.set("scenario_classes", json!(s.classes.iter().cloned().collect::<Vec<_>>()));
    ev.set("victory_branches_seen", json!(s.win_branches.iter().cloned().collect::<Vec<_>>()));
    ev.set("largest_quiescent_run_steps", json!(s.max_steps));
    ev.set("timer_ticks_taken", json!(s.ticks));
    ev.set("link_lines_observed", json!(s.link_lines));
    ev.set("watchdog_inconclusive_runs", json!(s.inconclusive));
    ev.set("known_findings_seen", json!(v.known_seen()));
    // Engine R: the same oracle over real nun-db processes (src/bin/main.rs, TCP links, signals, timer thread)
    let real = crate::realparts::c07_real(&v, if thorough { 96 } else { 12 }, seed());
    ev.set("real_processes", real.to_json());
    ev.violations = v.violation_count();
    ev.assumptions = vec![
        "termination is decided as bounded progress: quiescence within 6000 scheduler steps (more than 20x the largest quiescent run observed)".into(),
        "message delays below the election timeout = a timer tick is only taken when no message can be delivered and no loop has work (plus a bounded number of early ticks)".into(),
        "transport emulation mirrors start_replication's connection set-up and handle_client's disconnect handling; a killed node's buffered output is still delivered, then EOF".into(),
        "a restarted node gets a larger process id (it is the youngest)".into(),
    ];
    ev.write();
    cleanup_scratch();
    let code = v.finish(tier);
    if code == 0 && real.runs > 0 && (real.runs - real.inconclusive) * 2 < real.runs {
        println!("INCONCLUSIVE property=C07 reason=the real-process part could judge only {} of {} runs", real.runs - real.inconclusive, real.runs);
        return 2;
    }
    if code == 0 && (s.distinct.len() < 200 || s.inconclusive > s.runs / 20) {
        println!("INCONCLUSIVE property=C07 reason=coverage floor not met ({} distinct runs, {} watchdog cases)", s.distinct.len(), s.inconclusive);
        return 2;
    }
    println!("C07 {}: {} runs, {} quiescent points, {} distinct, branches {:?}, max quiet run {} steps, {} ticks, {} link lines, {} violations", tier, s.runs, s.quiet_points, s.distinct.len(), s.win_branches, s.max_steps, s.ticks, s.link_lines, v.violation_count());
    code
}
