//! Engine K: kill the process at system-call boundaries (strace fault injection) and judge
//! what a restart finds. Used by C11 (snapshot) and C16 (oplog / key ids).
use crate::c06::{image_of, Image};
use crate::common::node::{Node, NodeOpts};
use crate::common::session::Session;
use crate::common::*;
use nundb::bo::ClusterRole;
use serde_json::json;
use std::collections::BTreeMap;
use std::process::Command;

pub const TRACE_SET: &str = "write,pwrite64,rename,renameat,renameat2,unlink,unlinkat,openat,mkdir,mkdirat,ftruncate";

#[derive(Clone, Debug)]
pub struct Scenario {
    pub name: &'static str,
    pub before: Vec<String>,
    pub mutate: Vec<String>,
    /// snapshot command issued before the window, e.g. "snapshot true one"
    pub snap: String,
    pub reclaim: bool,
}

pub fn strace_available() -> bool {
    Command::new("strace").arg("-V").output().map(|o| o.status.success()).unwrap_or(false)
}

fn image_json(i: &Image) -> serde_json::Value {
    json!({"id": i.id, "strategy": i.strategy, "keys": i.keys.iter().map(|(k, v)| (k.clone(), json!([v.0, v.1]))).collect::<BTreeMap<_, _>>()})
}

fn images(node: &Node) -> serde_json::Value {
    let names: Vec<String> = node.dbs.map.read().unwrap().keys().cloned().collect();
    let mut out = BTreeMap::new();
    for n in names {
        if n == "$admin" {
            continue;
        }
        if let Some(i) = image_of(node, &n) {
            out.insert(n, image_json(&i));
        }
    }
    json!(out)
}

fn marker(name: &str) {
    // an ENOENT no-op that strace shows: the boundaries of the window under test
    let _ = std::fs::remove_file(format!("/MARK-{}", name));
}

/// Child for C11: `nunverif crash-child x <scenario-json> <dir>`
pub fn c11_child(args: &[String]) -> i32 {
    let sc: serde_json::Value = serde_json::from_str(&args[3]).unwrap();
    let dir = args[4].clone();
    let mut o = NodeOpts::simple(&dir);
    o.load_from_disk = true;
    o.real_loop = true;
    let mut node = Node::start(o);
    node.keep_logs = false;
    node.set_role(ClusterRole::Primary);
    let mut adm = Session::new();
    let dbs = node.dbs.clone();
    adm.call(&dbs, "auth admin pwd");
    let run = |adm: &mut Session, node: &mut Node, lines: &serde_json::Value| {
        for l in lines.as_array().unwrap() {
            adm.call(&dbs, l.as_str().unwrap());
            node.pump();
        }
    };
    run(&mut adm, &mut node, &sc["before"]);
    node.declutter();
    println!("OLD {}", images(&node));
    run(&mut adm, &mut node, &sc["mutate"]);
    adm.call(&dbs, sc["snap"].as_str().unwrap());
    node.pump();
    println!("NEW {}", images(&node));
    use std::io::Write;
    std::io::stdout().flush().ok();
    marker("BEGIN");
    node.declutter();
    marker("END");
    0
}

#[derive(Clone, Debug)]
pub struct Call {
    pub kind: String,
    pub role: String,
    /// ordinal of this call among calls of its kind since process start
    pub ordinal: usize,
    pub line: String,
}

fn role_of(line: &str) -> String {
    // file roles by path suffix, from strace -y output
    let roles = [
        ("-nun.data.keys.old", "keys.old"),
        ("-nun.data.values.old", "values.old"),
        ("-nun.data.keys", "keys"),
        ("-nun.data.values", "values"),
        ("-nun.madadata", "metadata"),
        ("keys-nun.keys", "keymap"),
        ("is-oplog.valid", "oplog-flag"),
        ("oplog-nun", "oplog"),
        ("/oplog", "oplog-dir"),
    ];
    // for rename both paths matter: take the first quoted path (source)
    for (suffix, role) in roles {
        if let Some(p) = line.find(suffix) {
            // make sure the longer suffixes win (.keys.old before .keys): list is ordered
            let _ = p;
            return role.to_string();
        }
    }
    "other".to_string()
}

/// Parses an strace -f -y log: calls of the traced kinds, with window flags.
pub fn parse_log(path: &str) -> (Vec<Call>, Option<usize>, Option<usize>, bool) {
    let txt = std::fs::read_to_string(path).unwrap_or_default();
    let mut calls = vec![];
    let mut counts: BTreeMap<String, usize> = BTreeMap::new();
    let mut begin = None;
    let mut end = None;
    let mut killed = false;
    for l in txt.lines() {
        if l.contains("+++ killed by SIGKILL") {
            killed = true;
            continue;
        }
        // "<pid> name(args...) = ret"
        let rest = l.splitn(2, ' ').nth(1).unwrap_or("").trim_start();
        let name: String = rest.chars().take_while(|c| c.is_ascii_alphanumeric() || *c == '_').collect();
        if name.is_empty() || !rest[name.len()..].starts_with('(') {
            continue;
        }
        if rest.contains("/MARK-BEGIN") {
            begin = Some(calls.len());
        } else if rest.contains("/MARK-END") {
            end = Some(calls.len());
        }
        let c = counts.entry(name.clone()).or_insert(0);
        *c += 1;
        calls.push(Call { kind: name.clone(), role: role_of(rest), ordinal: *c, line: rest.chars().take(160).collect() });
    }
    (calls, begin, end, killed)
}

pub struct RunResult {
    pub stdout: String,
    pub log: String,
    pub status_ok: bool,
}

pub fn run_child(sub: &str, payload: &str, dir: &str, inject: Option<(&str, usize)>, log: &str) -> RunResult {
    let exe = std::env::current_exe().unwrap();
    let _ = std::fs::remove_file(log);
    let mut cmd = Command::new("strace");
    cmd.args(["-f", "-y", "-o", log, "-e", &format!("trace={}", TRACE_SET)]);
    if let Some((kind, n)) = inject {
        cmd.args(["-e", &format!("inject={}:signal=KILL:when={}", kind, n)]);
    }
    cmd.arg(exe).args([sub, "x", payload, dir]);
    cmd.env("NUN_DBS_DIR", dir);
    let out = cmd.output().expect("strace failed to start");
    RunResult { stdout: String::from_utf8_lossy(&out.stdout).to_string(), log: log.to_string(), status_ok: out.status.success() }
}

pub fn parse_images(stdout: &str, tag: &str) -> Option<serde_json::Value> {
    stdout.lines().find(|l| l.starts_with(tag)).and_then(|l| serde_json::from_str(&l[tag.len()..]).ok())
}

/// Structural calls completed inside the window so far (renames, unlinks, file creations), in order.
pub fn structural_done(calls: &[Call], begin: usize) -> Vec<String> {
    let mut out: Vec<String> = vec![];
    for c in calls.iter().skip(begin + 1) {
        let s = match c.kind.as_str() {
            "rename" | "renameat" | "renameat2" => Some(format!("rename:{}", c.role)),
            "unlink" | "unlinkat" => Some(format!("unlink:{}", c.role)),
            "openat" if c.line.contains("O_CREAT") => Some(format!("create:{}", c.role)),
            _ => None,
        };
        if let Some(s) = s {
            // only the database's own files: the key map / oplog flag are written only when new keys exist
            if s.ends_with(":keymap") || s.ends_with(":oplog-flag") || s.ends_with(":oplog") || s.ends_with(":oplog-dir") || s.ends_with(":other") {
                continue;
            }
            if !out.contains(&s) {
                out.push(s);
            }
        }
    }
    out
}
