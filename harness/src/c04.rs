//! C04 — live replication converges: every node ends equal to the primary.
//! Engine N: an established 2-3 node cluster (formed through the real join and
//! election path), generated client operations issued at seeded nodes (also
//! from two concurrent sessions on the primary), seeded FIFO-respecting delivery
//! orders; at quiescence every node's dataset is compared with the primary's.
use crate::cluster::*;
use crate::common::evidence::Evidence;
use crate::common::kf::Verdicts;
use crate::common::rng::Rng;
use crate::common::*;
use serde_json::json;
use std::collections::{BTreeMap, BTreeSet};
use std::sync::Mutex;

/// Forms an n-node cluster by sequential joins; returns None if that did not end in the state C07 requires.
pub fn form_cluster(n: usize, seed0: u64, tag: &str) -> Option<Cluster> {
    let ids: Vec<u128> = (0..n).map(|i| 100 * (i as u128 + 1)).collect();
    form_cluster_with_ids(&ids, seed0, tag)
}

/// Nodes are started one after the other (quiet in between) with the given process ids (lower = older): with ids that are
/// not increasing, a later node is older than the current primary and takes over from it while it stays in the cluster.
pub fn form_cluster_with_ids(ids: &[u128], seed0: u64, tag: &str) -> Option<Cluster> {
    let n = ids.len();
    let mut c = Cluster::new(n, seed0, tag);
    let all: Vec<usize> = (0..n).collect();
    for i in 0..n {
        c.start_node(i, ids[i], &all);
        if !matches!(c.run_until_quiet(), Outcome::Quiet(_)) {
            c.shutdown();
            return None;
        }
    }
    if crate::c07::judge(&c, ids).is_some() || !c.panics().is_empty() {
        c.shutdown();
        return None;
    }
    Some(c)
}

#[derive(Clone, Debug)]
pub struct COp {
    pub node: usize,
    pub session: usize, // 0 or 1 (two sessions per node are available)
    pub line: String,
    pub kind: &'static str,
    pub key: String,
}

pub struct Stats {
    pub runs: u64,
    pub ops: u64,
    pub shapes: BTreeSet<String>,
    pub link_lines: u64,
    pub keys_compared: u64,
    pub samples: Vec<serde_json::Value>,
    pub inconclusive: u64,
    pub failover_runs: u64,
    pub failovers_not_clean: u64,
}

/// A history: a sequential part (one operation at a time, at any node, quiescence in between) and a
/// concurrent part (two sessions on the primary, all their operations queued at once, on their own keys).
fn gen_history(r: &mut Rng, n: usize) -> (Vec<COp>, Vec<COp>) {
    let len = r.range(1, 8);
    let keys = ["k1", "k2", "num"];
    let mut seq = vec![];
    let mut uniq = 0;
    for _ in 0..len {
        uniq += 1;
        let k = *r.pick(&keys);
        let node = if r.chance(1, 3) { r.range(1, n - 1) } else { 0 };
        let kind: &'static str = match r.below(14) {
            0..=3 => "set",
            4..=5 => "set-safe",
            6..=7 => "remove",
            8..=10 => "increment",
            11 => "create-user",
            12 => "set-permissions",
            _ => "snapshot",
        };
        let kind = if k == "num" && (kind == "set" || kind == "set-safe") { "increment" } else { kind };
        let (line, key) = match kind {
            // a third of the values come from a pool of two, so that a key is also written with the value it already holds
            "set" => (if r.chance(1, 3) { format!("set {} same{}", k, r.below(2)) } else { format!("set {} v{}", k, uniq) }, k.to_string()),
            "set-safe" => (if r.chance(1, 3) { format!("set-safe {} {} same{}", k, r.below(4), r.below(2)) } else { format!("set-safe {} {} s{}", k, r.below(4), uniq) }, k.to_string()),
            "remove" => (format!("remove {}", k), k.to_string()),
            "increment" => (format!("increment {} {}", k, *r.pick(&[1i32, 2, 3, 4, 5, 0, 0, -2])), k.to_string()),
            "create-user" => (if r.chance(1, 3) { format!("create-user u{} secret", uniq % 2) } else { format!("create-user u{} secret{}", uniq % 2, uniq) }, format!("$$user_u{}", uniq % 2)),
            // the list is data like any other value: letters in any order, repeated letters, several entries for one
            // pattern, entries without a pattern - every node must end up holding the same text for it
            "set-permissions" => (format!("set-permissions u{} {}", uniq % 2, *r.pick(&["rw k*", "wr k*", "r k*|w k*", "rwix *", "xiwr a*|r b", "rr k*", "w k*|r k*|r k*", "x *b|i *b|w a", "r", "wr", "r k*|", "i  k*"])), format!("$$permission_$u{}", uniq % 2)),
            _ => ("snapshot false".to_string(), String::new()),
        };
        seq.push(COp { node, session: 0, line, kind, key });
    }
    if r.chance(1, 5) {
        seq.push(COp { node: 0, session: 0, line: "create-db second tok2 newer".into(), kind: "create-db", key: String::new() });
    }
    let mut conc = vec![];
    if r.chance(2, 3) {
        for s in 0..2 {
            for _ in 0..r.range(1, 3) {
                uniq += 1;
                let k = *r.pick(&["c1", "c2", "cnum"]);
                // the counter key gets increments and, now and then, a plain numeric set (a session that sets and then
                // increments its counter has one definite order, however far the replication loop lags behind)
                let kind: &'static str = if k == "cnum" { if r.chance(1, 3) { "set" } else { "increment" } } else { *r.pick(&["set", "set", "remove", "set-safe"]) };
                let line = match kind {
                    "set" if k == "cnum" => format!("set {} {}", k, 10 * uniq),
                    "set" => format!("set {} w{}", k, uniq),
                    "set-safe" => format!("set-safe {} {} t{}", k, r.below(3), uniq),
                    "remove" => format!("remove {}", k),
                    _ => format!("increment {} {}", k, *r.pick(&[1i32, 2, 3, 4, 0])),
                };
                conc.push(COp { node: 0, session: s, line, kind, key: k.to_string() });
            }
        }
    }
    (seq, conc)
}

/// Cross-node part: a session on the primary and a session on the first secondary have 1-3 operations each queued at once
/// on the same keys (plain set / remove on x1, x2; increments only on xnum).
pub fn gen_cross(r: &mut Rng) -> Vec<COp> {
    let mut out = vec![];
    if !r.chance(2, 3) {
        return out;
    }
    let mut uniq = 500;
    for node in 0..2 {
        for _ in 0..r.range(1, 3) {
            uniq += 1;
            let k = *r.pick(&["x1", "x1", "x2", "xnum"]);
            let kind: &'static str = if k == "xnum" { "increment" } else { *r.pick(&["set", "set", "remove"]) };
            let line = match kind {
                "set" => format!("set {} x{}", k, uniq),
                "remove" => format!("remove {}", k),
                _ => format!("increment {} {}", k, *r.pick(&[1i32, 2, 3, 5])),
            };
            out.push(COp { node, session: 0, line, kind, key: k.to_string() });
        }
    }
    out
}

type Data = BTreeMap<String, BTreeMap<String, (String, i32)>>;

/// Compares every node with the primary; returns (db, key, divergence kind, node index) for keys not yet tainted.
fn compare(sets: &[Data], tainted: &BTreeSet<String>) -> Vec<(String, String, &'static str, usize)> {
    let mut out = vec![];
    let prim = &sets[0];
    for i in 1..sets.len() {
        let other = &sets[i];
        let dbs_p: BTreeSet<&String> = prim.keys().collect();
        let dbs_o: BTreeSet<&String> = other.keys().collect();
        if dbs_p != dbs_o {
            out.push((String::new(), String::new(), "database-list-differs", i));
            continue;
        }
        for (db, pk) in prim {
            let ok = &other[db];
            let all: BTreeSet<&String> = pk.keys().chain(ok.keys()).collect();
            for k in all {
                if tainted.contains(k) {
                    continue;
                }
                let (pv, ov) = (pk.get(k), ok.get(k));
                if pv == ov {
                    continue;
                }
                let divergence = match (pv, ov) {
                    (Some(_), None) | (None, Some(_)) => "removed-or-live-status-differs",
                    (Some(a), Some(b)) if a.0 != b.0 => "value-differs",
                    _ => "version-differs",
                };
                out.push((db.clone(), k.clone(), divergence, i));
            }
        }
    }
    out
}

pub fn run_history(n: usize, seq: &[COp], conc: &[COp], cross: &[COp], failover: bool, seed0: u64, v: &Verdicts, st: &Mutex<Stats>) {
    // with `failover` the history runs on the n survivors of an (n+1)-node cluster whose first primary was killed:
    // every surviving link was opened under the old roles
    let Some(mut c) = form_cluster(if failover { n + 1 } else { n }, seed0, "c04") else {
        st.lock().unwrap().inconclusive += 1;
        v.inconclusive("cluster formation (sequential joins) did not reach the C07 state");
        return;
    };
    c.open_session("adm", 0);
    c.call("adm", "auth admin pwd");
    c.call("adm", "create-db d tok");
    if !matches!(c.run_until_quiet(), Outcome::Quiet(_)) {
        st.lock().unwrap().inconclusive += 1;
        c.shutdown();
        return;
    }
    // logical node 0 is the primary, the others the secondaries; `phys` maps them to the simulation's node indexes
    let phys: Vec<usize> = if failover {
        c.kill_node(0);
        let q = c.run_until_quiet();
        let roles = c.roles();
        let prim: Vec<usize> = (1..=n).filter(|i| roles[*i].as_deref() == Some("Primary")).collect();
        let secs: Vec<usize> = (1..=n).filter(|i| roles[*i].as_deref() == Some("Secoundary")).collect();
        if !matches!(q, Outcome::Quiet(_)) || prim.len() != 1 || secs.len() != n - 1 || !c.panics().is_empty() {
            // the fail-over itself is C07's subject
            st.lock().unwrap().failovers_not_clean += 1;
            c.shutdown();
            return;
        }
        st.lock().unwrap().failover_runs += 1;
        prim.into_iter().chain(secs).collect()
    } else {
        (0..n).collect()
    };
    for i in 0..n {
        for s in 0..(if i == 0 { 2 } else { 1 }) {
            let name = format!("s{}-{}", i, s);
            c.open_session(&name, phys[i]);
            c.call(&name, "auth admin pwd");
            c.call(&name, "use-db d tok");
        }
    }
    let _ = c.run_until_quiet();
    // operations registered for a node that died stay pending (the statement of C15 promises zero only under stable
    // membership): what is pending when the history starts is the baseline the count must return to
    let pending_baseline: Vec<usize> = phys.iter().map(|p| c.pending_ops(*p)).collect();
    let base_lines = c.link_log().len();
    let all_ops: Vec<String> = seq.iter().map(|o| format!("seq n{}: {}", o.node, o.line)).chain(conc.iter().map(|o| format!("conc n0/s{}: {}", o.session, o.line))).chain(cross.iter().map(|o| format!("cross n{}: {}", o.node, o.line))).collect();
    let mut tainted: BTreeSet<String> = BTreeSet::new();
    let mut keys_compared = 0u64;
    let mut reported = false;
    let mut report = |c: &Cluster, sig: serde_json::Value, detail: String, sets: &Vec<Data>| -> bool {
        v.report(sig, json!({"nodes": n, "seed": seed0, "after_failover": failover, "ops": all_ops, "detail": detail, "datasets": sets,
            "link_lines": c.link_log()[base_lines..].iter().map(|l| format!("[{}] n{}->n{} {}", l.0, l.1, l.2, l.3)).collect::<Vec<_>>()}))
    };
    let mut quiesce = |c: &mut Cluster| -> Result<(), String> {
        match c.run_until_quiet() {
            Outcome::Quiet(_) => Ok(()),
            Outcome::BudgetExceeded => Err("no-quiescence-within-step-budget".into()),
            Outcome::Stuck(w) => Err(format!("stuck:{}", w)),
        }
    };
    // ---- sequential part
    'seq: for o in seq {
        c.send(&format!("s{}-0", o.node), &o.line);
        let q = quiesce(&mut c);
        if o.kind == "snapshot" {
            for i in 0..n {
                c.declutter(phys[i]);
            }
        }
        if let Err(why) = q {
            if why.starts_with("stuck") {
                st.lock().unwrap().inconclusive += 1;
                v.inconclusive(&why);
                c.shutdown();
                return;
            }
            let sets: Vec<Data> = phys.iter().map(|i| c.dataset(*i)).collect();
            report(&c, json!({"check": "convergence", "cause": "sequential-operation", "op": o.kind, "issued_at": if o.node == 0 {"primary"} else {"secondary"}, "problem": why}), String::new(), &sets);
            reported = true;
            break 'seq;
        }
        if !c.panics().is_empty() {
            let sets: Vec<Data> = phys.iter().map(|i| c.dataset(*i)).collect();
            report(&c, json!({"check": "convergence", "cause": "sequential-operation", "op": o.kind, "issued_at": if o.node == 0 {"primary"} else {"secondary"}, "problem": "service-thread-panicked"}), c.panics().join(" | "), &sets);
            reported = true;
            break 'seq;
        }
        let sets: Vec<Data> = phys.iter().map(|i| c.dataset(*i)).collect();
        keys_compared += sets[0].values().map(|m| m.len() as u64).sum::<u64>() * (n as u64 - 1);
        for (db, k, divergence, node) in compare(&sets, &tainted) {
            // a snapshot turns later removes into tombstones that keep a version; nodes snapshot at different moments
            let snapshot_earlier = seq.iter().take_while(|x| !std::ptr::eq(*x, o)).any(|x| x.kind == "snapshot");
            let sig = json!({"check": "convergence", "cause": "sequential-operation", "op": o.kind, "issued_at": if o.node == 0 {"primary"} else {"secondary"},
                "problem": divergence, "differs_at": if node == o.node { "the-issuing-node" } else { "another-secondary" }, "snapshot_earlier_in_history": snapshot_earlier});
            let detail = format!("after '{}' issued at n{}: {} key {}: primary {:?}, n{} {:?}", o.line, o.node, db, k, sets[0].get(&db).and_then(|m| m.get(&k)), node, sets[node].get(&db).and_then(|m| m.get(&k)));
            let known = report(&c, sig, detail, &sets);
            tainted.insert(k);
            if !known {
                reported = true;
                break 'seq;
            }
        }
    }
    // ---- concurrent part: two sessions on the primary
    if !reported && !conc.is_empty() {
        c.sim.fine.store(2, std::sync::atomic::Ordering::SeqCst);
        for o in conc {
            c.send(&format!("s0-{}", o.session), &o.line);
        }
        match quiesce(&mut c) {
            Err(why) if why.starts_with("stuck") => {
                st.lock().unwrap().inconclusive += 1;
                v.inconclusive(&why);
                c.shutdown();
                return;
            }
            Err(why) => {
                let sets: Vec<Data> = phys.iter().map(|i| c.dataset(*i)).collect();
                report(&c, json!({"check": "convergence", "cause": "two-concurrent-primary-sessions", "problem": why}), String::new(), &sets);
            }
            Ok(()) => {
                let sets: Vec<Data> = phys.iter().map(|i| c.dataset(*i)).collect();
                let mut seen = BTreeSet::new();
                for (db, k, divergence, node) in compare(&sets, &tainted) {
                    // only keys both sessions touched are a concurrent case; the exception for racing versioned writes does not
                    // apply (they come from one node)
                    let sessions: BTreeSet<usize> = conc.iter().filter(|o| o.key == k).map(|o| o.session).collect();
                    let cause = if sessions.len() > 1 { "two-concurrent-primary-sessions-on-one-key" } else { "single-primary-session-on-key" };
                    let mut kinds: Vec<&str> = conc.iter().filter(|o| o.key == k).map(|o| o.kind).collect();
                    kinds.sort();
                    kinds.dedup();
                    let sig = json!({"check": "convergence", "cause": cause, "problem": divergence, "concurrent_ops_on_key": kinds});
                    if seen.insert(sig.to_string()) {
                        let detail = format!("{} key {}: primary {:?}, n{} {:?}", db, k, sets[0].get(&db).and_then(|m| m.get(&k)), node, sets[node].get(&db).and_then(|m| m.get(&k)));
                        report(&c, sig, detail, &sets);
                    }
                }
                if !c.panics().is_empty() {
                    report(&c, json!({"check": "convergence", "cause": "two-concurrent-primary-sessions", "problem": "service-thread-panicked"}), c.panics().join(" | "), &sets);
                }
            }
        }
    }
    // ---- cross-node part: one session on the primary, one on a secondary, the same keys, everything queued at once.
    // Whatever order the primary gives the operations, every secondary receives the same stream from it after its own
    // local application: the secondaries must agree with each other on value and removed/live status of every key
    // (the issuing secondary's version of a key it set itself is the known echo finding and is not compared), and a
    // counter that only received increments must hold the same sum on every node.
    if !reported && n == 3 && !cross.is_empty() {
        // the keys exist everywhere before the race (a remove of an absent key is a no-op)
        c.send("s0-0", "set x1 before");
        c.send("s0-0", "set x2 before");
        let _ = quiesce(&mut c);
        c.sim.fine.store(2, std::sync::atomic::Ordering::SeqCst);
        for o in cross {
            c.send(&format!("s{}-0", o.node), &o.line);
        }
        match quiesce(&mut c) {
            Err(why) if why.starts_with("stuck") => {
                st.lock().unwrap().inconclusive += 1;
                v.inconclusive(&why);
                c.shutdown();
                return;
            }
            Err(why) => {
                let sets: Vec<Data> = phys.iter().map(|i| c.dataset(*i)).collect();
                report(&c, json!({"check": "convergence", "cause": "sessions-on-primary-and-secondary", "problem": why}), String::new(), &sets);
            }
            Ok(()) => {
                let sets: Vec<Data> = phys.iter().map(|i| c.dataset(*i)).collect();
                let mut seen = BTreeSet::new();
                for k in ["x1", "x2", "xnum"] {
                    let mut kinds: Vec<String> = cross.iter().filter(|o| o.key == k).map(|o| format!("{}@{}", o.kind, if o.node == 0 { "primary" } else { "secondary" })).collect();
                    kinds.sort();
                    kinds.dedup();
                    if kinds.is_empty() {
                        continue;
                    }
                    keys_compared += 2;
                    let at = |i: usize| sets[i].iter().find(|(name, _)| name.starts_with("d ")).and_then(|(_, m)| m.get(k)).map(|x| x.0.clone());
                    let (p, s1, s2) = (at(0), at(1), at(2));
                    if std::env::var("VERIF_DEBUG_CROSS").is_ok() {
                        eprintln!("cross {} {:?} -> p {:?} s1 {:?} s2 {:?} | {:?}", k, kinds, p, s1, s2, cross.iter().map(|o| format!("n{} {}", o.node, o.line)).collect::<Vec<_>>());
                    }
                    let mut problems = vec![];
                    if s1 != s2 {
                        problems.push(if s1.is_some() != s2.is_some() { "the-secondaries-disagree-on-removed-or-live" } else { "the-secondaries-disagree-on-the-value" });
                    }
                    if k == "xnum" && (p != s1 || p != s2) {
                        problems.push("a-counter-that-only-got-increments-differs-between-nodes");
                    }
                    for problem in problems {
                        let sig = json!({"check": "convergence", "cause": "sessions-on-primary-and-secondary-on-one-key", "problem": problem, "concurrent_ops_on_key": kinds});
                        if seen.insert(sig.to_string()) {
                            report(&c, sig, format!("key {}: primary {:?}, issuing secondary {:?}, other secondary {:?}", k, p, s1, s2), &sets);
                        }
                    }
                }
                if !c.panics().is_empty() {
                    report(&c, json!({"check": "convergence", "cause": "sessions-on-primary-and-secondary", "problem": "service-thread-panicked"}), c.panics().join(" | "), &sets);
                }
            }
        }
    }
    // pending operations: with stable membership nothing stays pending (C15, end to end)
    if !reported {
        for i in 0..n {
            if c.pending_ops(phys[i]) != pending_baseline[i] {
                let sets: Vec<Data> = phys.iter().map(|i| c.dataset(*i)).collect();
                report(&c, json!({"check": "convergence", "cause": "accounting", "problem": "pending-operations-left-at-quiescence"}), format!("n{} has {} pending ({} before the history)", phys[i], c.pending_ops(phys[i]), pending_baseline[i]), &sets);
                break;
            }
        }
    }
    let shape = {
        let mut kinds: Vec<String> = seq.iter().map(|o| format!("{}@{}", o.kind, if o.node == 0 { "p" } else { "s" })).collect();
        kinds.sort();
        kinds.dedup();
        format!("n{}{}|{}|conc{}|cross{}|{:x}", n, if failover { "f" } else { "" }, kinds.join(","), conc.len(), cross.len(), c.decisions_hash() & 0xffff)
    };
    {
        let mut s = st.lock().unwrap();
        s.runs += 1;
        s.ops += (seq.len() + conc.len() + cross.len()) as u64;
        s.shapes.insert(shape);
        s.link_lines += (c.link_log().len() - base_lines) as u64;
        s.keys_compared += keys_compared;
        if s.samples.len() < 3 && seq.len() > 3 {
            s.samples.push(json!({"nodes": n, "ops": all_ops, "link_lines": c.link_log()[base_lines..].iter().take(60).map(|l| format!("[{}] n{}->n{} {}", l.0, l.1, l.2, l.3)).collect::<Vec<_>>(), "final_dataset_primary": c.dataset(phys[0])}));
        }
    }
    c.shutdown();
}

pub fn run(tier: &str) -> i32 {
    std::env::set_var("NUN_ELECTION_TIMEOUT", "30");
    quiet_panics();
    let thorough = tier == "thorough";
    let v = Verdicts::load("C04");
    let mut ev = Evidence::new("C04", tier, "exploration");
    let st = Mutex::new(Stats { runs: 0, ops: 0, shapes: BTreeSet::new(), link_lines: 0, keys_compared: 0, samples: vec![], inconclusive: 0, failover_runs: 0, failovers_not_clean: 0 });
    let n_runs = if thorough { 6000 } else { 400 };
    let next = std::sync::atomic::AtomicUsize::new(0);
    std::thread::scope(|sc| {
        for _ in 0..workers() {
            let (next, v, st) = (&next, &v, &st);
            sc.spawn(move || loop {
                let i = next.fetch_add(1, std::sync::atomic::Ordering::SeqCst);
                if i >= n_runs {
                    break;
                }
                let mut r = Rng::new(seed().wrapping_mul(2_000_003).wrapping_add(i as u64));
                let n = r.range(2, 3);
                let (mut seq, conc) = gen_history(&mut r, n);
                // every sixth history is directed (round 11): the life of one key across a snapshot that only SOME nodes
                // take (a snapshot asked of a secondary stays local): written once or more, snapshot at a chosen node,
                // removed, written again in one of five ways, then a versioned write - whatever each node kept of the
                // removed key on its disk, every node ends with the primary's value, status and version
                if i % 6 == 5 {
                    let any = |r: &mut Rng| if r.chance(1, 2) { r.range(1, n - 1) } else { 0 };
                    let k = if r.chance(1, 4) { "num" } else { "k1" };
                    let mut d: Vec<COp> = vec![];
                    let mut push = |node: usize, line: String, kind: &'static str, key: &str| d.push(COp { node, session: 0, line, kind, key: key.to_string() });
                    for j in 0..r.range(1, 3) {
                        let node = any(&mut r);
                        if k == "num" { push(node, format!("increment num {}", j + 1), "increment", k) } else { push(node, format!("set k1 first{}", j), "set", k) }
                    }
                    let snap_at = if r.chance(2, 3) { r.range(1, n - 1) } else { 0 };
                    push(snap_at, "snapshot false".to_string(), "snapshot", "");
                    push(any(&mut r), format!("remove {}", k), "remove", k);
                    if r.chance(1, 4) {
                        push(any(&mut r), if r.chance(1, 2) { "snapshot false".to_string() } else { "snapshot true".to_string() }, "snapshot", "");
                    }
                    let node = any(&mut r);
                    match r.below(5) {
                        0 | 1 if k != "num" => push(node, "set k1 again".to_string(), "set", k),
                        2 if k != "num" => push(node, format!("set-safe k1 {} again", r.below(4)), "set-safe", k),
                        _ => push(node, format!("increment {} 5", k), "increment", k),
                    }
                    let node = any(&mut r);
                    if k == "num" { push(node, "increment num 1".to_string(), "increment", k) } else { push(node, format!("set-safe k1 {} later", r.below(5)), "set-safe", k) }
                    seq = d;
                }
                let cross = gen_cross(&mut r);
                // every fifth history runs on the survivors of a fail-over
                let failover = i % 5 == 4;
                run_history(n, &seq, &conc, &cross, failover, r.next(), v, st);
            });
        }
    });
    // bursts while a link is stalled: one peer does not take anything from its link for a while (busy, paused, full socket
    // buffers) and the clients keep writing, so more than a hundred replication messages wait for it inside the sending
    // node; when the link moves again every one of them arrives and the nodes converge
    let burst = Mutex::new((0u64, 0u64, 0u64));
    let n_bursts = if thorough { 160 } else { 12 };
    let next = std::sync::atomic::AtomicUsize::new(0);
    std::thread::scope(|sc| {
        for _ in 0..workers().min(6) {
            let (next, v, burst) = (&next, &v, &burst);
            sc.spawn(move || loop {
                let i = next.fetch_add(1, std::sync::atomic::Ordering::SeqCst);
                if i >= n_bursts {
                    break;
                }
                let mut r = Rng::new(seed().wrapping_mul(4_000_037).wrapping_add(i as u64));
                let n = 2 + i % 2;
                let Some(mut c) = form_cluster(n, r.next(), "c04b") else {
                    v.inconclusive("cluster formation failed");
                    continue;
                };
                c.budget = 60_000;
                // the writers sit on the primary (its link to the last secondary is stalled) or on the last secondary (its
                // link to the primary is stalled: what it forwards waits)
                let from_secondary = i % 3 == 2;
                let (writer_node, stalled) = if from_secondary { (n - 1, (n - 1, 0)) } else { (0, (0, n - 1)) };
                c.open_session("adm", 0);
                for l in ["auth admin pwd", "create-db bdb tok", "use-db bdb tok", "set seed 1"] {
                    c.send("adm", l);
                }
                let _ = c.run_until_quiet();
                c.open_session("w", writer_node);
                c.send("w", "use-db bdb tok");
                let _ = c.run_until_quiet();
                c.stalled.insert(stalled);
                let writes = *r.pick(&[60usize, 105, 130, 260]);
                let nkeys = *r.pick(&[1usize, 7, 400]);
                for j in 0..writes {
                    match (j + i) % 9 {
                        0 => c.send("w", &format!("increment cnt{} 1", j % nkeys.min(3))),
                        1 if j > 20 => c.send("w", &format!("remove b{}", (j - 10) % nkeys)),
                        _ => c.send("w", &format!("set b{} v{}", j % nkeys, j)),
                    }
                }
                let q1 = c.run_until_quiet();
                c.stalled.clear();
                let q2 = c.run_until_quiet();
                {
                    let mut b = burst.lock().unwrap();
                    b.0 += 1;
                    b.1 += writes as u64;
                }
                if !matches!(q1, Outcome::Quiet(_)) || !matches!(q2, Outcome::Quiet(_)) {
                    v.report(json!({"check": "convergence", "problem": "no-quiescence", "context": "burst-while-a-link-was-stalled"}), json!({"nodes": n, "writes": writes, "outcomes": format!("{:?} {:?}", q1, q2)}));
                    c.shutdown();
                    continue;
                }
                if !c.panics().is_empty() {
                    v.report(json!({"check": "convergence", "problem": "service-thread-panicked", "context": "burst-while-a-link-was-stalled"}), json!({"panics": c.panics()}));
                    c.shutdown();
                    continue;
                }
                let sets: Vec<Data> = (0..n).map(|x| c.dataset(x)).collect();
                let prim = sets[0].iter().find(|(k, _)| k.starts_with("bdb ")).map(|(_, d)| d.clone()).unwrap_or_default();
                'nodes: for x in 1..n {
                    let other = sets[x].iter().find(|(k, _)| k.starts_with("bdb ")).map(|(_, d)| d.clone()).unwrap_or_default();
                    let mut keys: BTreeSet<&String> = prim.keys().collect();
                    keys.extend(other.keys());
                    for k in keys {
                        if k == "$connections" {
                            continue;
                        }
                        burst.lock().unwrap().2 += 1;
                        // (a set / increment forwarded by a secondary comes back to it and is applied twice there: the
                        // listed version-ahead finding; values must agree all the same)
                        let (a, b) = (prim.get(k), other.get(k));
                        let differs = match (a, b) {
                            (Some(a), Some(b)) => a.0 != b.0 || (!from_secondary && a.1 != b.1),
                            (None, None) => false,
                            _ => true,
                        };
                        if differs {
                            v.report(json!({"check": "convergence", "problem": if a.is_none() || b.is_none() { "key-on-one-node-only" } else { "value-or-version-differs" }, "context": "burst-while-a-link-was-stalled", "writers_at": if from_secondary { "secondary" } else { "primary" }, "differs_at": if x == stalled.0.max(stalled.1) { "the-node-behind-the-stalled-link" } else { "another-node" }}),
                                json!({"nodes": n, "writes": writes, "keys": nkeys, "stalled_link": [stalled.0, stalled.1], "key": k, "primary": a, "node": x, "there": b, "link_lines": c.link_log().len()}));
                            break 'nodes;
                        }
                    }
                }
                c.shutdown();
            });
        }
    });
    let burst = burst.into_inner().unwrap();
    ev.set("bursts_while_a_link_was_stalled", json!({"runs": burst.0, "writes": burst.1, "key_comparisons": burst.2}));
    let s = st.into_inner().unwrap();
    ev.evaluations = s.runs;
    ev.distinct_nontrivial = s.shapes.len() as u64;
    ev.rule = format!("{} simulated-cluster runs: 2-3 nodes formed through the real join/election path (quiet between joins; every fifth run uses the 2-3 survivors of a cluster whose first primary was killed and replaced by election), then a sequential part of 1-8 operations (set, set-safe, remove, increment, create-user, set-permissions, snapshot, create-db) each issued at the primary or (1/3) at a secondary and followed to quiescence with every node compared to the primary, and a concurrent part in which two sessions on the primary have 1-3 operations each queued at once on shared keys (the seeded token scheduler interleaves sessions, loops and FIFO link deliveries, incl. the gap between local apply and replication enqueue); distinct_nontrivial = distinct (cluster size, set of (operation kind, issuing role), delivery-order hash)", n_runs);
    ev.samples = s.samples.clone();
    ev.set("operations_issued", json!(s.ops));
    ev.set("runs_on_the_survivors_of_a_failover", json!(s.failover_runs));
    ev.set("failovers_that_did_not_settle_cleanly_and_were_not_used", json!(s.failovers_not_clean));
    ev.set("link_lines_during_operations", json!(s.link_lines));
    ev.set("key_comparisons_against_primary", json!(s.keys_compared));
    ev.set("inconclusive_runs", json!(s.inconclusive));
    ev.set("known_findings_seen", json!(v.known_seen()));
    // Engine R: the same oracle over real nun-db processes (src/bin/main.rs, TCP links, signals, timer thread)
    let real = crate::realparts::c04_real(&v, if thorough { 96 } else { 8 }, seed());
    ev.set("real_processes", real.to_json());
    ev.violations = v.violation_count();
    ev.assumptions = vec![
        "cluster formed by sequential joins (the region where C07 holds); runs whose formation fails are inconclusive".into(),
        "$connections (per-node session counter) is not replicated data and is excluded".into(),
        "keys that receive versioned writes from more than one node are exempt, as the statement says".into(),
    ];
    ev.write();
    cleanup_scratch();
    let code = v.finish(tier);
    if code == 0 && real.runs > 0 && (real.runs - real.inconclusive) * 2 < real.runs {
        println!("INCONCLUSIVE property=C04 reason=the real-process part could judge only {} of {} runs", real.runs - real.inconclusive, real.runs);
        return 2;
    }
    if code == 0 && (s.shapes.len() < 150 || s.inconclusive > s.runs / 10 + 3) {
        println!("INCONCLUSIVE property=C04 reason=coverage floor not met ({} shapes, {} inconclusive runs)", s.shapes.len(), s.inconclusive);
        return 2;
    }
    println!("C04 {}: {} runs, {} ops, {} shapes, {} link lines, {} key comparisons, {} violations", tier, s.runs, s.ops, s.shapes.len(), s.link_lines, s.keys_compared, v.violation_count());
    code
}
