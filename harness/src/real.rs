//! Engine R: real `nun-db` processes. The binary is /repo's own src/bin/main.rs, built as a second binary of the
//! harness crate (target `nun-db-real`), so every check rebuilds it from /repo's working tree. Nodes are separate OS
//! processes with their own data directory (NUN_DBS_DIR), talk to each other over loopback TCP through the production
//! code (`ask_to_join`, `start_replication`, `handle_client`) and are driven like a client would: TCP lines in, lines out.
//! Faults: SIGKILL, SIGINT (the clean shutdown of main.rs), restart on the same directory.
//!
//! Verdicts never depend on a short wall-clock window: a condition is awaited by polling up to a generous deadline
//! (tens of seconds, far above the election timeout and the declutter interval configured here); a condition that is
//! still false after the deadline AND stays false while the observed state has stopped changing is reported, a node that
//! cannot be reached at all (ports, spawn) is inconclusive.
use crate::common::*;
use crate::transports::TcpClient;
use std::collections::BTreeMap;
use std::net::TcpListener;
use std::process::{Child, Command, Stdio};
use std::time::{Duration, Instant};

pub const USER: &str = "admin";
pub const PWD: &str = "pwd";
/// NUN_ELECTION_TIMEOUT of the real nodes. Loopback messages take well under a millisecond; the statement's premise
/// (message delays below the election timeout) holds unless the machine stalls a process for this long.
pub const ELECTION_TIMEOUT_MS: u64 = 400;

pub fn real_binary() -> String {
    let me = std::env::current_exe().unwrap();
    me.parent().unwrap().join("nun-db-real").to_string_lossy().to_string()
}

/// Ports below the ephemeral range (32768..): an outgoing connection of some client can then never be given the port a
/// node is about to listen on. Several check processes may run at once on this machine, and a port is only bound by its
/// node some time after it was chosen: every port handed out is therefore claimed in a registry shared by all processes
/// (one file per port under /tmp/nunverif-ports, created exclusively, holding the owner's pid; the claim of a process that
/// no longer exists is taken over).
fn free_port() -> u16 {
    static NEXT: std::sync::atomic::AtomicU32 = std::sync::atomic::AtomicU32::new(0);
    let reg = "/tmp/nunverif-ports";
    let _ = std::fs::create_dir_all(reg);
    let base = 10_000 + (std::process::id() % 997) * 20;
    for _ in 0..40_000 {
        let k = NEXT.fetch_add(1, std::sync::atomic::Ordering::SeqCst);
        let port = 10_000 + ((base - 10_000 + k) % 20_000);
        let claim = format!("{}/{}", reg, port);
        let mine = match std::fs::OpenOptions::new().write(true).create_new(true).open(&claim) {
            Ok(mut f) => {
                use std::io::Write;
                let _ = write!(f, "{}", std::process::id());
                true
            }
            Err(_) => {
                // claimed: by a process that is gone?
                let owner: i32 = std::fs::read_to_string(&claim).ok().and_then(|t| t.trim().parse().ok()).unwrap_or(0);
                let gone = owner <= 0 || (unsafe { libc::kill(owner, 0) } != 0 && std::io::Error::last_os_error().raw_os_error() == Some(libc::ESRCH));
                if gone && owner != std::process::id() as i32 {
                    let _ = std::fs::write(&claim, format!("{}", std::process::id()));
                    // two processes may take over the same stale claim at once: the one whose pid stays in the file owns it
                    std::thread::sleep(std::time::Duration::from_millis(2));
                    std::fs::read_to_string(&claim).ok().map(|t| t.trim() == std::process::id().to_string()).unwrap_or(false)
                } else {
                    false
                }
            }
        };
        if mine && TcpListener::bind(("0.0.0.0", port as u16)).is_ok() {
            return port as u16;
        }
    }
    TcpListener::bind("127.0.0.1:0").unwrap().local_addr().unwrap().port()
}

pub struct RealNode {
    pub dir: String,
    pub tcp: String,
    pub http: String,
    pub ws: String,
    pub child: Option<Child>,
    pub starts: u32,
}

pub struct RealCluster {
    pub nodes: Vec<RealNode>,
    pub base: String,
    pub env: Vec<(String, String)>,
    pub log_level: String,
    /// when a node was last started: its initial election fires one second later (src/lib/election_ops.rs), the
    /// cluster is not quiet before that
    pub last_start: Option<Instant>,
    /// nodes listen on 0.0.0.0:<port> and are known to the cluster as 127.0.0.1:<port> (--external-address): what a
    /// deployment behind NAT / in a container does
    pub bind_any: bool,
}

/// One client connection speaking the TCP protocol. `cmd` returns (accepted, status line, lines pushed before it).
pub struct RealClient {
    pub c: TcpClient,
}

impl RealClient {
    pub fn connect(addr: &str) -> Option<RealClient> {
        TcpClient::connect(addr).ok().map(|c| RealClient { c })
    }
    pub fn cmd(&mut self, line: &str) -> Result<(bool, String, Vec<String>), String> {
        if !self.c.send(format!("{}\n", line).as_bytes()) {
            return Err("send failed".into());
        }
        self.read_reply(line)
    }
    /// like `cmd`, but a refusal is an error (set-up steps that must succeed)
    pub fn must(&mut self, line: &str) -> Result<Vec<String>, String> {
        // a node that is holding an election (it does so for up to the election timeout after every join) refuses
        // primary-only commands: that is no verdict about anything, ask again
        for _ in 0..40 {
            match self.cmd(line)? {
                (true, _, l) => return Ok(l),
                (false, status, _) if status.contains("only allow from primary") => std::thread::sleep(Duration::from_millis(250)),
                (false, status, _) => return Err(format!("'{}' was refused: {}", line, status)),
            }
        }
        Err(format!("'{}' was refused for 10 s: the node never became primary again", line))
    }
    /// reads up to the status line of one command already sent
    pub fn read_reply(&mut self, line: &str) -> Result<(bool, String, Vec<String>), String> {
        let deadline = Instant::now() + Duration::from_secs(20);
        let mut pushed = vec![];
        loop {
            let left = deadline.saturating_duration_since(Instant::now());
            if left.is_zero() {
                return Err(format!("no status line for '{}' within 20 s (got {:?})", line.split(' ').next().unwrap_or(""), pushed));
            }
            match self.c.read_until("", left) {
                Ok(lines) => {
                    for l in lines {
                        let t = l.trim();
                        if t == "ok" {
                            return Ok((true, t.to_string(), pushed));
                        }
                        if t.starts_with("error ") || t == "error" {
                            return Ok((false, t.to_string(), pushed));
                        }
                        pushed.push(l);
                    }
                }
                Err((true, _)) => return Err("connection closed".into()),
                Err((false, _)) => {}
            }
        }
    }
    /// lines that arrive without a command (notifications)
    pub fn drain(&mut self, d: Duration) -> Vec<String> {
        self.c.read_for(d)
    }
}

impl RealCluster {
    pub fn new(n: usize, tag: &str, env: &[(&str, &str)]) -> RealCluster {
        let base = fresh_dir(&format!("real-{}", tag));
        let mut nodes = vec![];
        for i in 0..n {
            let dir = format!("{}/n{}", base, i);
            std::fs::create_dir_all(&dir).unwrap();
            nodes.push(RealNode { dir, tcp: format!("127.0.0.1:{}", free_port()), http: format!("127.0.0.1:{}", free_port()), ws: format!("127.0.0.1:{}", free_port()), child: None, starts: 0 });
        }
        RealCluster { nodes, base, env: env.iter().map(|(a, b)| (a.to_string(), b.to_string())).collect(), log_level: "info".into(), last_start: None, bind_any: false }
    }

    pub fn n(&self) -> usize {
        self.nodes.len()
    }

    pub fn log_path(&self, i: usize) -> String {
        format!("{}/n{}.log", self.base, i)
    }

    /// Starts node i (again). false if the process could not be spawned or never listened (inconclusive for the caller).
    pub fn start(&mut self, i: usize) -> bool {
        let all: Vec<String> = self.nodes.iter().map(|n| n.tcp.clone()).collect();
        let log = std::fs::OpenOptions::new().create(true).append(true).open(self.log_path(i)).unwrap();
        let log2 = log.try_clone().unwrap();
        let n = &mut self.nodes[i];
        let mut cmd = Command::new(real_binary());
        if self.bind_any {
            let bind = format!("0.0.0.0:{}", n.tcp.rsplit(':').next().unwrap_or(""));
            cmd.args(["-u", USER, "-p", PWD, "start", "--http-address", &n.http, "--tcp-address", &bind, "--external-address", &n.tcp, "--ws-address", &n.ws, "--replicate-address", &all.join(",")]);
        } else {
            cmd.args(["-u", USER, "-p", PWD, "start", "--http-address", &n.http, "--tcp-address", &n.tcp, "--ws-address", &n.ws, "--replicate-address", &all.join(",")]);
        }
        cmd.env("NUN_DBS_DIR", &n.dir).env("NUN_LOG_LEVEL", &self.log_level).env_remove("NUN_STORAGE_STRATEGY").env("NUN_ELECTION_TIMEOUT", ELECTION_TIMEOUT_MS.to_string());
        for (k, v) in &self.env {
            cmd.env(k, v);
        }
        cmd.stdin(Stdio::null()).stdout(Stdio::from(log)).stderr(Stdio::from(log2));
        match cmd.spawn() {
            Ok(ch) => {
                n.child = Some(ch);
                n.starts += 1;
                self.last_start = Some(Instant::now());
            }
            Err(_) => return false,
        }
        let (tcp, http, ws) = (n.tcp.clone(), n.http.clone(), n.ws.clone());
        for _ in 0..1500 {
            // all three listeners (a listener that cannot bind its port panics its thread: not the node's fault)
            if std::net::TcpStream::connect(&tcp).is_ok() && std::net::TcpStream::connect(&http).is_ok() && std::net::TcpStream::connect(&ws).is_ok() {
                // (somebody else's listener on one of the ports would answer as well)
                return self.bind_failures(i).is_empty();
            }
            if !self.alive(i) || !self.bind_failures(i).is_empty() {
                return false;
            }
            std::thread::sleep(Duration::from_millis(10));
        }
        false
    }

    pub fn alive(&mut self, i: usize) -> bool {
        match self.nodes[i].child.as_mut() {
            Some(ch) => matches!(ch.try_wait(), Ok(None)),
            None => false,
        }
    }

    pub fn kill(&mut self, i: usize) {
        if let Some(mut ch) = self.nodes[i].child.take() {
            let _ = ch.kill();
            let _ = ch.wait();
        }
    }

    /// SIGINT = the clean shutdown path of main.rs (safe_shutdown, exit 0). Returns the exit code, None if it did not exit in 30 s.
    pub fn sigint(&mut self, i: usize) -> Option<i32> {
        let mut ch = self.nodes[i].child.take()?;
        unsafe {
            libc::kill(ch.id() as i32, libc::SIGINT);
        }
        for _ in 0..3000 {
            if let Ok(Some(st)) = ch.try_wait() {
                return Some(st.code().unwrap_or(-1));
            }
            std::thread::sleep(Duration::from_millis(10));
        }
        let _ = ch.kill();
        let _ = ch.wait();
        None
    }

    /// SIGSTOP / SIGCONT: the process stalls (swap, a long pause of the machine) while its connections stay open
    pub fn pause(&mut self, i: usize, stop: bool) {
        if let Some(ch) = self.nodes[i].child.as_ref() {
            unsafe {
                libc::kill(ch.id() as i32, if stop { libc::SIGSTOP } else { libc::SIGCONT });
            }
        }
    }

    pub fn admin(&self, i: usize) -> Option<RealClient> {
        let mut c = RealClient::connect(&self.nodes[i].tcp)?;
        match c.cmd(&format!("auth {} {}", USER, PWD)) {
            Ok((true, _, _)) => Some(c),
            _ => None,
        }
    }

    /// (own role, members as name -> role) as `cluster-state` reports them on node i.
    pub fn view(&self, i: usize) -> Option<(String, BTreeMap<String, String>)> {
        let mut c = self.admin(i)?;
        let (_, _, lines) = c.cmd("cluster-state").ok()?;
        let l = lines.iter().find(|l| l.starts_with("cluster-state"))?;
        let mut own = String::new();
        let mut members = BTreeMap::new();
        for part in l["cluster-state".len()..].split(',') {
            let p = part.trim();
            if p.is_empty() {
                continue;
            }
            // <name>(self|Connected|Disconnected):<Role>
            let (name, rest) = p.split_once('(')?;
            let (how, role) = rest.split_once("):")?;
            let role = role.trim().to_string();
            if how == "self" {
                own = role.clone();
            }
            members.insert(name.to_string(), role);
        }
        Some((own, members))
    }

    /// Polls until `pred` holds; Ok(elapsed) or Err(last description) after the deadline.
    pub fn wait_until<F: FnMut(&mut RealCluster) -> Result<(), String>>(&mut self, secs: u64, mut pred: F) -> Result<Duration, String> {
        let start = Instant::now();
        let mut last;
        loop {
            match pred(self) {
                Ok(()) => return Ok(start.elapsed()),
                Err(e) => last = e,
            }
            if start.elapsed() > Duration::from_secs(secs) {
                return Err(last);
            }
            std::thread::sleep(Duration::from_millis(60));
        }
    }

    /// The data of the given databases as an administrator session reads them on node i: db -> key -> (value, version);
    /// a database that cannot be selected with its token is None.
    pub fn dataset(&self, i: usize, dbs: &[(String, String)]) -> Option<BTreeMap<String, Option<BTreeMap<String, (String, i32)>>>> {
        let mut c = self.admin(i)?;
        c.c.keep_ws = true; // values byte for byte, white space at their end included
        let mut out = BTreeMap::new();
        for (db, tok) in dbs {
            match c.cmd(&format!("use-db {} {}", db, tok)) {
                Ok((true, _, _)) => {}
                Ok((false, _, _)) => {
                    out.insert(db.clone(), None);
                    continue;
                }
                Err(_) => return None,
            }
            let (_, _, lines) = c.cmd("keys").ok()?;
            let kl = lines.iter().find(|l| l.starts_with("keys "))?;
            let mut m = BTreeMap::new();
            let keys: Vec<String> = kl["keys ".len()..].split(',').map(|k| k.trim().to_string()).filter(|k| !k.is_empty() && k != "$connections").collect();
            // all reads in one write (one round trip instead of one per key: the server does not set TCP_NODELAY)
            let batch: String = keys.iter().map(|k| format!("get-safe {}\n", k)).collect();
            if !keys.is_empty() && !c.c.send(batch.as_bytes()) {
                return None;
            }
            for k in &keys {
                let (_, _, lines) = c.read_reply(k).ok()?;
                if let Some(vl) = lines.iter().find(|l| l.starts_with("value-version ")) {
                    let rest = &vl["value-version ".len()..];
                    let (ver, val) = rest.split_once(' ').unwrap_or((rest, ""));
                    m.insert(k.to_string(), (val.to_string(), ver.trim().parse::<i32>().unwrap_or(i32::MIN)));
                }
            }
            out.insert(db.clone(), Some(m));
        }
        Some(out)
    }

    pub fn log_tail(&self, i: usize, n: usize) -> Vec<String> {
        let t = std::fs::read(self.log_path(i)).unwrap_or_default();
        let t = String::from_utf8_lossy(&t).to_string();
        let l: Vec<&str> = t.lines().collect();
        l[l.len().saturating_sub(n)..].iter().map(|s| s.chars().take(300).collect()).collect()
    }

    /// panic messages in a node's output (a thread of the real process died). A listener that could not have its port
    /// (the port was taken by something else on this machine between being chosen and being bound) is not the node's
    /// fault and not reported here: see `bind_failures`.
    pub fn panics(&self, i: usize) -> Vec<String> {
        self.panic_lines(i).into_iter().filter(|(_, bind)| !*bind).map(|(l, _)| l).collect()
    }

    pub fn bind_failures(&self, i: usize) -> Vec<String> {
        self.panic_lines(i).into_iter().filter(|(_, bind)| *bind).map(|(l, _)| l).collect()
    }

    fn panic_lines(&self, i: usize) -> Vec<(String, bool)> {
        let t = std::fs::read(self.log_path(i)).unwrap_or_default();
        let t = String::from_utf8_lossy(&t).to_string();
        let lines: Vec<&str> = t.lines().collect();
        let mut out = vec![];
        for (k, l) in lines.iter().enumerate() {
            if l.contains("panicked at") {
                let msg = lines.get(k + 1).cloned().unwrap_or("");
                let bind = msg.contains("Bind error") || msg.contains("Address already in use") || msg.contains("AddrInUse");
                out.push((format!("{} {}", l.chars().take(200).collect::<String>(), msg.chars().take(160).collect::<String>()), bind));
            }
        }
        out
    }

    pub fn shutdown(mut self) {
        for i in 0..self.n() {
            self.kill(i);
        }
        if std::env::var("VERIF_KEEP").is_err() {
            let _ = std::fs::remove_dir_all(&self.base);
        }
    }
}

impl Drop for RealCluster {
    fn drop(&mut self) {
        for i in 0..self.nodes.len() {
            if let Some(mut ch) = self.nodes[i].child.take() {
                let _ = ch.kill();
                let _ = ch.wait();
            }
        }
    }
}

/// Smoke run used while developing: form a 3-node cluster, print views.
pub fn smoke() -> i32 {
    let mut c = RealCluster::new(3, "smoke", &[("NUN_ELECTION_TIMEOUT", "300"), ("NUN_DECLUTTER_INTERVAL", "1")]);
    for i in 0..3 {
        let t = Instant::now();
        println!("start {} -> {} ({:?})", i, c.start(i), t.elapsed());
        let r = c.wait_until(20, |c| {
            let v = c.view(i).ok_or("no view")?;
            if v.0 == "Primary" || v.0 == "Secoundary" {
                Ok(())
            } else {
                Err(format!("{:?}", v))
            }
        });
        println!("  settled {:?}; views:", r);
        for j in 0..=i {
            println!("   n{} {:?}", j, c.view(j));
        }
    }
    let mut a = c.admin(0).unwrap();
    println!("{:?}", a.cmd("create-db d1 t1"));
    println!("{:?}", a.cmd("use-db d1 t1"));
    println!("{:?}", a.cmd("set k1 hello world"));
    println!("{:?}", a.cmd("increment n 5"));
    std::thread::sleep(Duration::from_millis(500));
    for j in 0..3 {
        println!("n{} {:?}", j, c.dataset(j, &[("d1".into(), "t1".into())]));
    }
    c.kill(0);
    let r = c.wait_until(30, |c| {
        let v = c.view(1).ok_or("no view")?;
        if v.0 == "Primary" {
            Ok(())
        } else {
            Err(format!("{:?}", v))
        }
    });
    println!("after kill of n0: {:?} n1 {:?} n2 {:?}", r, c.view(1), c.view(2));
    println!("sigint n2 -> {:?}", c.sigint(2));
    for i in 0..3 {
        println!("panics n{}: {:?}", i, c.panics(i));
    }
    c.shutdown();
    cleanup_scratch();
    0
}
