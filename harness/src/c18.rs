//! C18 — S3 storage strategies restore what the disk strategy would.
//! Differential runtime monitor: the same generated history is executed in
//! child processes under NUN_STORAGE_STRATEGY = disk / s3 / s3_patition against
//! an S3-compatible stub (tools/s3stub.py); what each restart restores is
//! compared with what the disk run restores; the stub's request log shows
//! retries after injected upload faults.
use crate::c06::{image_of, value_of_class};
use crate::common::evidence::Evidence;
use crate::common::kf::Verdicts;
use crate::common::node::{Node, NodeOpts};
use crate::common::rng::Rng;
use crate::common::session::Session;
use crate::common::*;
use nundb::bo::ClusterRole;
use serde_json::json;
use std::collections::{BTreeMap, BTreeSet};
use std::io::{BufRead, BufReader, Read, Write};
use std::sync::Mutex;

fn images(node: &Node) -> serde_json::Value {
    let names: Vec<String> = node.dbs.map.read().unwrap().keys().cloned().collect();
    let mut out = BTreeMap::new();
    for n in names {
        if n == "$admin" {
            continue;
        }
        if let Some(i) = image_of(node, &n) {
            out.insert(n, json!({"id": i.id, "strategy": i.strategy, "keys": i.keys.iter().map(|(k, v)| (k.clone(), json!([v.0, v.1]))).collect::<BTreeMap<_, _>>()}));
        }
    }
    json!(out)
}

fn start_node(dir: &str) -> Node {
    let mut o = NodeOpts::simple(dir);
    o.load_from_disk = true;
    let n = Node::start(o);
    n.set_role(ClusterRole::Primary);
    n
}

/// Child: runs the history under the strategy given by the environment.
pub fn child(args: &[String]) -> i32 {
    quiet_panics();
    let h: serde_json::Value = serde_json::from_str(&args[3]).unwrap();
    let dir = args[4].clone();
    let dbs_spec: Vec<(String, String)> = h["dbs"].as_array().unwrap().iter().map(|d| (d[0].as_str().unwrap().to_string(), d[1].as_str().unwrap().to_string())).collect();
    let mut node = Some(start_node(&dir));
    let mut adm = Session::new();
    adm.call(&node.as_ref().unwrap().dbs, "auth admin pwd");
    let mut events: Vec<serde_json::Value> = vec![];
    let mut selected: Option<usize> = None;
    let mut counter = 0u64;
    for op in h["ops"].as_array().unwrap() {
        let kind = op[0].as_str().unwrap();
        match kind {
            "set" | "setsafe" | "remove" | "inc" => {
                let d = op[1].as_u64().unwrap() as usize;
                let n = node.as_mut().unwrap();
                let dbs = n.dbs.clone();
                let (name, strat) = &dbs_spec[d];
                if !dbs.has_db(name) {
                    adm.call(&dbs, &format!("create-db {} tok-{} {}", name, name, strat));
                    selected = None;
                }
                if selected != Some(d) {
                    adm.call(&dbs, &format!("use-db {} tok-{}", name, name));
                    selected = Some(d);
                }
                counter += 1;
                let k = op[2].as_str().unwrap();
                let line = match kind {
                    "set" => format!("set {} {}", k, value_of_class(op[3].as_u64().unwrap() as usize, counter)),
                    "setsafe" => {
                        let r = adm.call_raw(&dbs, &format!("get-safe {}", k));
                        adm.drain();
                        let ver = if let nundb::bo::Response::Value { version, .. } = r { version } else { 0 };
                        format!("set-safe {} {} {}", k, ver.max(0), value_of_class(op[3].as_u64().unwrap() as usize, counter))
                    }
                    "remove" => format!("remove {}", k),
                    _ => format!("increment {} 3", k),
                };
                let r = std::panic::catch_unwind(std::panic::AssertUnwindSafe(|| adm.call(&dbs, &line)));
                n.pump();
                if r.is_err() {
                    events.push(json!({"event": "command-panicked", "line": line}));
                }
            }
            "snap" => {
                let n = node.as_mut().unwrap();
                let dbs = n.dbs.clone();
                let names: Vec<String> = op[1].as_array().unwrap().iter().map(|d| dbs_spec[d.as_u64().unwrap() as usize].0.clone()).filter(|nm| dbs.has_db(nm)).collect();
                if !names.is_empty() {
                    adm.call(&dbs, &format!("snapshot {} {}", op[2].as_bool().unwrap(), names.join("|")));
                    n.pump();
                }
            }
            "declutter" => {
                let n = node.as_mut().unwrap();
                let queued: Vec<String> = n.dbs.to_snapshot.read().unwrap().iter().map(|x| x.0.clone()).collect();
                let r = std::panic::catch_unwind(std::panic::AssertUnwindSafe(|| n.declutter()));
                match r {
                    Ok(()) => {
                        if !queued.is_empty() {
                            events.push(json!({"event": "snapshot-completed", "dbs": queued, "image": images(n)}));
                        }
                    }
                    Err(e) => {
                        events.push(json!({"event": "snapshot-reported-failure", "dbs": queued, "msg": panic_msg(&e).chars().take(120).collect::<String>()}));
                        // the timer thread would have died with the queue lock poisoned: the history ends here
                        break;
                    }
                }
            }
            "image" => {
                // what this process loaded at its start (used by the re-partitioning part: a fresh process, another partition count)
                events.push(json!({"event": "restart", "image": images(node.as_ref().unwrap())}));
            }
            "restart" => {
                node = None;
                let d2 = dir.clone();
                let r = std::panic::catch_unwind(move || start_node(&d2));
                match r {
                    Ok(n2) => {
                        events.push(json!({"event": "restart", "image": images(&n2)}));
                        node = Some(n2);
                        adm = Session::new();
                        adm.call(&node.as_ref().unwrap().dbs, "auth admin pwd");
                        selected = None;
                    }
                    Err(e) => {
                        events.push(json!({"event": "restart-failed", "msg": panic_msg(&e).chars().take(160).collect::<String>()}));
                        break;
                    }
                }
            }
            _ => {}
        }
    }
    println!("RESULT {}", json!({"events": events, "panics": take_panics().into_iter().filter(|p| p.contains("/repo/")).take(5).collect::<Vec<_>>()}));
    std::io::stdout().flush().ok();
    // background threads of the aws client may still hold the runtime: exit hard
    std::process::exit(0);
}

// ------------------------------------------------------------------ parent
struct Stub {
    child: std::process::Child,
    port: u16,
}

impl Stub {
    fn start() -> Option<Stub> {
        let script = format!("{}/tools/s3stub.py", verif_root());
        let mut child = std::process::Command::new("/usr/bin/python3").arg(script).arg("0").stdout(std::process::Stdio::piped()).stderr(std::process::Stdio::null()).spawn().ok()?;
        let mut line = String::new();
        BufReader::new(child.stdout.take()?).read_line(&mut line).ok()?;
        let port: u16 = line.trim().strip_prefix("PORT ")?.parse().ok()?;
        Some(Stub { child, port })
    }
    fn http(&self, method: &str, path: &str, body: &str) -> Option<String> {
        let mut s = std::net::TcpStream::connect(("127.0.0.1", self.port)).ok()?;
        let req = format!("{} {} HTTP/1.1\r\nHost: x\r\nConnection: close\r\nContent-Length: {}\r\n\r\n{}", method, path, body.len(), body);
        s.write_all(req.as_bytes()).ok()?;
        let mut out = String::new();
        s.read_to_string(&mut out).ok()?;
        out.find("\r\n\r\n").map(|p| out[p + 4..].to_string())
    }
}

impl Drop for Stub {
    fn drop(&mut self) {
        let _ = self.child.kill();
        let _ = self.child.wait();
    }
}

#[derive(Clone, Debug)]
struct Config {
    strategy: &'static str,
    partitions: u64,
    /// (nth put fails, "once"|"always") or get fault
    fault: Option<(&'static str, u64, &'static str)>,
    /// for put faults: (HTTP status, how many uploads in a row fail); 5xx is retried inside the client library, 4xx reaches
    /// nun-db's own retry at once, a run of 5xx longer than the library's attempts does so too
    put_fault_shape: (u16, u64),
}

fn run_child(h: &serde_json::Value, cfg: &Config, stub: &Stub, bucket: &str, dir: &str) -> Option<serde_json::Value> {
    run_child_rw(h, cfg, None, stub, bucket, dir)
}

/// `read_write`: the node reads its data with one strategy at start-up and writes its snapshots with another
/// (NUN_STORAGE_READ_STRATEGY / NUN_STORAGE_WRITE_STRATEGY: how an existing node is moved to or from a bucket).
fn run_child_rw(h: &serde_json::Value, cfg: &Config, read_write: Option<(&str, &str)>, stub: &Stub, bucket: &str, dir: &str) -> Option<serde_json::Value> {
    if let Some((what, n, mode)) = cfg.fault {
        let body = if what == "put" { json!({"fail_put_nth": n, "fail_put_mode": mode, "fail_put_status": cfg.put_fault_shape.0, "fail_put_count": cfg.put_fault_shape.1}) } else { json!({"fail_get_nth": n, "fail_get_status": cfg.put_fault_shape.0, "fail_get_count": cfg.put_fault_shape.1}) };
        stub.http("POST", &format!("/__control/{}", bucket), &body.to_string());
    } else {
        stub.http("POST", &format!("/__control/{}", bucket), "{}");
    }
    let exe = std::env::current_exe().unwrap();
    let mut cmd = std::process::Command::new(exe);
    if let Some((r, w)) = read_write {
        cmd.env("NUN_STORAGE_READ_STRATEGY", r).env("NUN_STORAGE_WRITE_STRATEGY", w);
    }
    // (a loader that takes garbage for a length must end as a failed run of the child, not take the machine down)
    cap_child_memory_gib(&mut cmd, 8);
    let out = cmd
        .args(["c18-child", "x", &h.to_string(), dir])
        .env("NUN_STORAGE_STRATEGY", cfg.strategy)
        .env("NUN_S3_API_URL", format!("http://127.0.0.1:{}", stub.port))
        .env("NUN_S3_BUCKET", bucket)
        .env("NUN_S3_PREFIX", "pfx")
        .env("NUN_S3_NUMBER_OF_PARTITIONS", cfg.partitions.to_string())
        .env("NUN_S3_RETRY", "2")
        .env("NUN_DBS_DIR", dir)
        .env("AWS_EC2_METADATA_DISABLED", "true")
        .output()
        .ok()?;
    let txt = String::from_utf8_lossy(&out.stdout).to_string();
    txt.lines().find(|l| l.starts_with("RESULT ")).and_then(|l| serde_json::from_str(&l[7..]).ok())
}

fn gen_history(r: &mut Rng, prefix_names: bool) -> serde_json::Value {
    let dbs = if prefix_names { json!([["a", "none"], ["ab", "newer"]]) } else { json!([["one", "none"], ["two", "arbiter"]]) };
    let keys = ["k1", "k2", "k3"];
    let len = r.range(4, 14);
    let mut ops = vec![];
    for _ in 0..len {
        let d = if r.chance(1, 3) { 1 } else { 0 };
        let k = *r.pick(&keys);
        ops.push(match r.below(16) {
            0..=5 => json!(["set", d, k, r.below(6)]),
            6 => json!(["setsafe", d, k, r.below(6)]),
            7..=8 => json!(["remove", d, k]),
            9 => json!(["inc", d, k]),
            10..=12 => json!(["snap", [d], r.chance(1, 3)]),
            13 => json!(["snap", [0, 1], false]),
            _ => json!(["declutter"]),
        });
        if r.chance(1, 7) {
            ops.push(json!(["declutter"]));
            ops.push(json!(["restart"]));
        }
    }
    ops.push(json!(["declutter"]));
    ops.push(json!(["restart"]));
    json!({"dbs": dbs, "ops": ops})
}

/// Classifies the differences between what the disk run and the S3 run restored at a restart (one entry per class).
fn diff(disk: &serde_json::Value, s3: &serde_json::Value) -> Vec<(String, String)> {
    let mut out: Vec<(String, String)> = vec![];
    let mut add = |p: &str, d: String| {
        if !out.iter().any(|x| x.0 == p) {
            out.push((p.to_string(), d));
        }
    };
    let (Some(d), Some(s)) = (disk.as_object(), s3.as_object()) else { return out };
    for (db, dimg) in d {
        let Some(simg) = s.get(db) else {
            add("snapshotted-database-missing", db.clone());
            continue;
        };
        let (dk, sk) = (dimg["keys"].as_object().unwrap(), simg["keys"].as_object().unwrap());
        for (k, dv) in dk {
            match sk.get(k) {
                None => add("live-key-missing", format!("{}/{}", db, k)),
                Some(sv) if sv[0] != dv[0] => add("value-differs", format!("{}/{} disk {:?} s3 {:?}", db, k, dv, sv)),
                Some(sv) if sv[1] != dv[1] => add("version-differs", format!("{}/{} disk {:?} s3 {:?}", db, k, dv, sv)),
                _ => {}
            }
        }
        for (k, sv) in sk {
            if !dk.contains_key(k) {
                add(if sv[0] == "<Empty>" { "removed-key-restored-as-live-<Empty>" } else { "key-restored-that-disk-does-not-have" }, format!("{}/{} = {:?}", db, k, sv));
            }
        }
        if dimg["id"] != simg["id"] || dimg["strategy"] != simg["strategy"] {
            add("database-id-or-strategy-differs", format!("{} disk ({},{}) s3 ({},{})", db, dimg["id"], dimg["strategy"], simg["id"], simg["strategy"]));
        }
    }
    for db in s.keys() {
        if !d.contains_key(db) {
            add("database-restored-that-disk-does-not-have", db.clone());
        }
    }
    out
}

pub struct Stats {
    pub histories: u64,
    pub runs: u64,
    pub restarts_compared: u64,
    pub shapes: BTreeSet<String>,
    pub puts: u64,
    pub faults_injected: u64,
    pub samples: Vec<serde_json::Value>,
}

pub fn run(tier: &str) -> i32 {
    quiet_panics();
    let thorough = tier == "thorough";
    let v = Verdicts::load("C18");
    let mut ev = Evidence::new("C18", tier, "exploration");
    let Some(stub) = Stub::start() else {
        println!("INCONCLUSIVE property=C18 reason=could not start tools/s3stub.py");
        return 2;
    };
    let st = Mutex::new(Stats { histories: 0, runs: 0, restarts_compared: 0, shapes: BTreeSet::new(), puts: 0, faults_injected: 0, samples: vec![] });
    let n_hist = if thorough { 1500 } else { 120 };
    let mut rng = Rng::new(seed());
    let hists: Vec<(serde_json::Value, bool)> = (0..n_hist).map(|i| { let p = i % 5 == 4; (gen_history(&mut rng, p), p) }).collect();
    let configs: Vec<Config> = vec![
        Config { strategy: "s3", partitions: 10, fault: None, put_fault_shape: (500, 1) },
        Config { strategy: "s3_patition", partitions: 1, fault: None, put_fault_shape: (500, 1) },
        Config { strategy: "s3_patition", partitions: 3, fault: None, put_fault_shape: (500, 1) },
        Config { strategy: "s3_patition", partitions: 10, fault: None, put_fault_shape: (500, 1) },
        Config { strategy: "s3", partitions: 10, fault: Some(("put", 2, "once")), put_fault_shape: (500, 1) },
        Config { strategy: "s3_patition", partitions: 3, fault: Some(("put", 2, "once")), put_fault_shape: (500, 1) },
        Config { strategy: "s3_patition", partitions: 3, fault: Some(("put", 2, "always")), put_fault_shape: (500, 1) },
        Config { strategy: "s3_patition", partitions: 3, fault: Some(("get", 1, "once")), put_fault_shape: (500, 1) },
        Config { strategy: "s3", partitions: 10, fault: Some(("put", 2, "always")), put_fault_shape: (500, 1) },
        Config { strategy: "s3", partitions: 10, fault: Some(("get", 1, "once")), put_fault_shape: (500, 1) },
        Config { strategy: "s3_patition", partitions: 3, fault: Some(("put", 2, "once")), put_fault_shape: (403, 1) },
        Config { strategy: "s3", partitions: 10, fault: Some(("put", 2, "once")), put_fault_shape: (403, 1) },
        Config { strategy: "s3_patition", partitions: 3, fault: Some(("put", 1, "once")), put_fault_shape: (500, 4) },
        Config { strategy: "s3", partitions: 10, fault: Some(("put", 1, "once")), put_fault_shape: (503, 4) },
        // download faults that reach nun-db (not retried away inside the SDK): the 1st / 2nd object read at a restart
        Config { strategy: "s3", partitions: 10, fault: Some(("get", 1, "once")), put_fault_shape: (403, 1) },
        Config { strategy: "s3", partitions: 10, fault: Some(("get", 2, "once")), put_fault_shape: (403, 1) },
        Config { strategy: "s3", partitions: 10, fault: Some(("get", 2, "once")), put_fault_shape: (500, 4) },
        Config { strategy: "s3_patition", partitions: 3, fault: Some(("get", 1, "once")), put_fault_shape: (403, 1) },
        Config { strategy: "s3_patition", partitions: 3, fault: Some(("get", 2, "once")), put_fault_shape: (500, 4) },
        // download faults that do not go away (round 11): from the 2nd / 3rd object read at a restart on, every read fails
        // (a thousand in a row: more than all retries of the rest of the run). The objects read before are fine - a start
        // that goes on with those alone lacks data
        Config { strategy: "s3_patition", partitions: 3, fault: Some(("get", 2, "once")), put_fault_shape: (403, 1000) },
        Config { strategy: "s3_patition", partitions: 10, fault: Some(("get", 3, "once")), put_fault_shape: (500, 1000) },
        Config { strategy: "s3_patition", partitions: 10, fault: Some(("get", 2, "once")), put_fault_shape: (503, 1000) },
        Config { strategy: "s3", partitions: 10, fault: Some(("get", 2, "once")), put_fault_shape: (403, 1000) },
    ];
    let next = std::sync::atomic::AtomicUsize::new(0);
    let bucket_n = std::sync::atomic::AtomicUsize::new(0);
    std::thread::scope(|sc| {
        for w in 0..workers() {
            let (next, hists, configs, stub, st, v, bucket_n) = (&next, &hists, &configs, &stub, &st, &v, &bucket_n);
            sc.spawn(move || loop {
                let i = next.fetch_add(1, std::sync::atomic::Ordering::SeqCst);
                if i >= hists.len() {
                    break;
                }
                let (h, prefix_names) = &hists[i];
                let dir = fresh_dir(&format!("c18-w{}", w));
                let disk_cfg = Config { strategy: "disk", partitions: 10, fault: None, put_fault_shape: (500, 1) };
                let b0 = format!("b{}", bucket_n.fetch_add(1, std::sync::atomic::Ordering::SeqCst));
                let disk = run_child(h, &disk_cfg, stub, &b0, &dir);
                let _ = std::fs::remove_dir_all(&dir);
                let Some(disk) = disk else {
                    v.inconclusive("disk reference run produced no result");
                    continue;
                };
                let disk_restarts: Vec<&serde_json::Value> = disk["events"].as_array().unwrap().iter().filter(|e| e["event"] == "restart").collect();
                // two configurations per history (all of them over the run)
                let picks = [i % 4, 4 + (i % (configs.len() - 4))];
                for ci in picks {
                    let cfg = &configs[ci];
                    let bucket = format!("b{}", bucket_n.fetch_add(1, std::sync::atomic::Ordering::SeqCst));
                    let dir = fresh_dir(&format!("c18-w{}", w));
                    let res = run_child(h, cfg, stub, &bucket, &dir);
                    let _ = std::fs::remove_dir_all(&dir);
                    let log: Vec<serde_json::Value> = stub.http("GET", &format!("/__log/{}", bucket), "").and_then(|b| serde_json::from_str(&b).ok()).unwrap_or_default();
                    let puts = log.iter().filter(|e| e["op"] == "PUT").count() as u64;
                    let failed_puts: Vec<&serde_json::Value> = log.iter().filter(|e| e["op"] == "PUT" && e["status"] != 200).collect();
                    let failed_gets = log.iter().filter(|e| e["op"] == "GET" && e["status"] != 200 && e["status"] != 404).count();
                    let cfg_name = format!("{}{}", cfg.strategy, cfg.fault.map(|f| format!("+{}{}{}-{}x{}", f.0, f.1, f.2, cfg.put_fault_shape.0, cfg.put_fault_shape.1)).unwrap_or_default());
                    {
                        let mut s = st.lock().unwrap();
                        s.runs += 1;
                        s.puts += puts;
                        s.faults_injected += (failed_puts.len() + failed_gets) as u64;
                    }
                    let Some(res) = res else {
                        v.report(json!({"check": "s3", "strategy": cfg.strategy, "problem": "run-died-without-result", "fault": cfg.fault.map(|f| f.0)}), json!({"history": h, "config": format!("{:?}", cfg)}));
                        continue;
                    };
                    let evs = res["events"].as_array().unwrap();
                    let feature = |h: &serde_json::Value| -> Vec<&'static str> {
                        let ops = h["ops"].as_array().unwrap();
                        let mut f = vec![];
                        if ops.iter().any(|o| o[0] == "remove") {
                            f.push("removes");
                        }
                        if ops.iter().filter(|o| o[0] == "snap").count() > 1 {
                            f.push("several-snapshots");
                        }
                        if *prefix_names {
                            f.push("prefix-named-dbs");
                        }
                        f
                    };
                    // ---- fault handling: a failed upload is retried, or reported
                    if let Some(("put", _, mode)) = cfg.fault {
                        if !failed_puts.is_empty() {
                            let key = failed_puts[0]["key"].as_str().unwrap_or("").to_string();
                            // a retry is the very next upload, of the same object
                            let puts_only: Vec<&serde_json::Value> = log.iter().filter(|e| e["op"] == "PUT").collect();
                            let pos = puts_only.iter().position(|e| e["status"] != 200).unwrap();
                            let later_ok = puts_only.iter().skip(pos + 1).take_while(|e| e["key"] == key.as_str()).any(|e| e["status"] == 200);
                            let reported = evs.iter().any(|e| e["event"] == "snapshot-reported-failure");
                            if mode == "always" {
                                if !reported {
                                    v.report(json!({"check": "s3", "strategy": cfg.strategy, "problem": "permanent-upload-failure-not-reported"}), json!({"history": h, "stub_log": log, "events": evs}));
                                    continue;
                                }
                            } else if !later_ok && !reported {
                                v.report(json!({"check": "s3", "strategy": cfg.strategy, "problem": "failed-upload-neither-retried-nor-reported"}), json!({"history": h, "stub_log": log, "events": evs}));
                                continue;
                            }
                            if reported {
                                // the history stopped at the failed snapshot: nothing to compare
                                st.lock().unwrap().shapes.insert(format!("{}|reported-failure", cfg_name));
                                continue;
                            }
                        }
                    }
                    // ---- differential: every restart restores what the disk run restored
                    let s3_restarts: Vec<&serde_json::Value> = evs.iter().filter(|e| e["event"] == "restart" || e["event"] == "restart-failed").collect();
                    let mut shape = format!("{}|{}", cfg_name, feature(h).join("+"));
                    for (ri, dr) in disk_restarts.iter().enumerate() {
                        let Some(sr) = s3_restarts.get(ri) else { break };
                        st.lock().unwrap().restarts_compared += 1;
                        if sr["event"] == "restart-failed" && matches!(cfg.fault, Some(("get", _, _))) && cfg.put_fault_shape != (500, 1) && failed_gets > 0 {
                            // a download failure that reaches nun-db (4xx, or 5xx beyond the SDK's own retries): refusing to
                            // start is the loud outcome; what must not happen is a start that silently lacks data (compared below
                            // when the start succeeds)
                            shape.push_str("|start-refused-after-download-failure");
                            break;
                        }
                        if sr["event"] == "restart-failed" {
                            let get_fault = matches!(cfg.fault, Some(("get", _, _)));
                            v.report(json!({"check": "s3", "strategy": cfg.strategy, "problem": "restart-fails", "prefix_named_dbs": *prefix_names, "injected_get_fault": get_fault}),
                                json!({"history": h, "msg": sr["msg"], "stub_log": log.iter().rev().take(12).collect::<Vec<_>>()}));
                            shape.push_str("|restart-failed");
                            break;
                        }
                        let problems = diff(&dr["image"], &sr["image"]);
                        if !problems.is_empty() {
                            // how many snapshot requests precede this restart
                            let mut seen_restarts = 0;
                            let mut snaps_before = 0;
                            for o in h["ops"].as_array().unwrap() {
                                if o[0] == "restart" {
                                    if seen_restarts == ri {
                                        break;
                                    }
                                    seen_restarts += 1;
                                } else if o[0] == "snap" {
                                    snaps_before += 1;
                                }
                            }
                            for (problem, detail) in problems {
                                v.report(json!({"check": "s3", "strategy": cfg.strategy, "problem": problem, "several_snapshots": snaps_before > 1}),
                                    json!({"history": h, "restart_number": ri, "detail": detail, "disk_restored": dr["image"], "s3_restored": sr["image"], "config": format!("{:?}", cfg)}));
                                shape.push_str(&format!("|{}", problem));
                            }
                            break;
                        }
                    }
                    let mut s = st.lock().unwrap();
                    s.shapes.insert(shape);
                    if s.samples.len() < 3 {
                        s.samples.push(json!({"config": format!("{:?}", cfg), "history": h, "stub_requests": log.iter().map(|e| format!("{} {} {}", e["op"].as_str().unwrap_or(""), e["key"].as_str().unwrap_or(""), e["status"])).collect::<Vec<_>>()}));
                    }
                }
                st.lock().unwrap().histories += 1;
            });
        }
    });
    // the number of partitions is a setting: a node restarted with another value against the same bucket still has to
    // restore what it snapshotted (the loader reads every partition object it finds)
    let mut repartition_cases = 0u64;
    {
        let pairs: Vec<(u64, u64)> = if thorough { vec![(10, 3), (3, 10), (10, 1), (1, 3), (3, 3), (1, 10), (10, 10), (3, 1)] } else { vec![(10, 3), (3, 10), (10, 1), (3, 3)] };
        for (ci, (a, b)) in pairs.iter().enumerate() {
            for round in 0..(if thorough { 4 } else { 1 }) {
                let nkeys = 12 + 9 * round;
                let mut ops: Vec<serde_json::Value> = (0..nkeys).map(|i| json!(["set", 0, format!("key-{}", i), (i + ci) % 6])).collect();
                ops.push(json!(["set", 0, "key-1", 2]));
                ops.push(json!(["snap", [0], false]));
                ops.push(json!(["declutter"]));
                let h = json!({"dbs": [["one", "none"], ["two", "newer"]], "ops": ops});
                let bucket = format!("rp{}x{}", ci, round);
                let dir = fresh_dir("c18-repart");
                let first = run_child(&h, &Config { strategy: "s3_patition", partitions: *a, fault: None, put_fault_shape: (500, 1) }, &stub, &bucket, &dir);
                let _ = std::fs::remove_dir_all(&dir);
                let dir2 = fresh_dir("c18-repart");
                let second = run_child(&json!({"dbs": [["one", "none"], ["two", "newer"]], "ops": [["image"]]}), &Config { strategy: "s3_patition", partitions: *b, fault: None, put_fault_shape: (500, 1) }, &stub, &bucket, &dir2);
                let _ = std::fs::remove_dir_all(&dir2);
                let (Some(first), Some(second)) = (first, second) else {
                    v.inconclusive("re-partitioning run produced no result");
                    continue;
                };
                let snap = first["events"].as_array().unwrap().iter().find(|e| e["event"] == "snapshot-completed").map(|e| e["image"].clone());
                let loaded = second["events"].as_array().unwrap().iter().find(|e| e["event"] == "restart").map(|e| e["image"].clone());
                let (Some(snap), Some(loaded)) = (snap, loaded) else {
                    v.inconclusive("re-partitioning run: snapshot or restart event missing");
                    continue;
                };
                repartition_cases += 1;
                // identifier / strategy differences are the known missing-metadata findings of the S3 strategies
                for (p, d) in diff(&snap, &loaded).into_iter().filter(|x| x.0 != "database-id-or-strategy-differs") {
                    v.report(json!({"check": "s3", "strategy": "s3_patition", "problem": p, "context": "restart-with-another-number-of-partitions"}),
                        json!({"partitions_at_snapshot": a, "partitions_at_restart": b, "keys": nkeys, "detail": d, "snapshotted": snap, "restored": loaded}));
                }
            }
        }
    }
    // a restart is a new operating-system process: what decides where a key lives (partition of a key) must not depend on
    // anything that differs between two processes. Process 1 writes and snapshots, process 2 loads, changes a few keys
    // and takes an incremental snapshot, process 3 loads: it must hold what process 2 held at its snapshot.
    let mut process_chain_cases = 0u64;
    {
        let rounds: Vec<(u64, usize)> = if thorough { vec![(3, 30), (10, 40), (10, 120), (3, 200), (10, 200), (7, 64)] } else { vec![(3, 30), (10, 60)] };
        for (ci, (parts, nkeys)) in rounds.iter().enumerate() {
            let cfg = Config { strategy: "s3_patition", partitions: *parts, fault: None, put_fault_shape: (500, 1) };
            let bucket = format!("chain{}", ci);
            let dbs = json!([["one", "none"], ["two", "newer"]]);
            let mut ops: Vec<serde_json::Value> = (0..*nkeys).map(|i| json!(["set", 0, format!("key-{}", i), (i + ci) % 6])).collect();
            ops.push(json!(["snap", [0], false]));
            ops.push(json!(["declutter"]));
            let d1 = fresh_dir("c18-chain");
            let first = run_child(&json!({"dbs": dbs, "ops": ops}), &cfg, &stub, &bucket, &d1);
            let _ = std::fs::remove_dir_all(&d1);
            let d2 = fresh_dir("c18-chain");
            let second = run_child(&json!({"dbs": dbs, "ops": [["image"], ["set", 0, "key-1", 3], ["set", 0, "key-5", 1], ["set", 0, "brand-new", 2], ["snap", [0], false], ["declutter"]]}), &cfg, &stub, &bucket, &d2);
            let _ = std::fs::remove_dir_all(&d2);
            let d3 = fresh_dir("c18-chain");
            let third = run_child(&json!({"dbs": dbs, "ops": [["image"]]}), &cfg, &stub, &bucket, &d3);
            let _ = std::fs::remove_dir_all(&d3);
            let (Some(first), Some(second), Some(third)) = (first, second, third) else {
                v.inconclusive("process-chain run produced no result");
                continue;
            };
            let ev_of = |doc: &serde_json::Value, name: &str| doc["events"].as_array().unwrap().iter().find(|e| e["event"] == name).map(|e| e["image"].clone());
            let (Some(snap1), Some(load2), Some(snap2), Some(load3)) = (ev_of(&first, "snapshot-completed"), ev_of(&second, "restart"), ev_of(&second, "snapshot-completed"), ev_of(&third, "restart")) else {
                v.inconclusive("process-chain run: an event is missing");
                continue;
            };
            process_chain_cases += 1;
            for (stage, want, got) in [("first-restart", &snap1, &load2), ("restart-after-an-incremental-snapshot-by-another-process", &snap2, &load3)] {
                for (p, d) in diff(want, got).into_iter().filter(|x| x.0 != "database-id-or-strategy-differs") {
                    v.report(json!({"check": "s3", "strategy": "s3_patition", "problem": p, "context": format!("chain-of-processes/{}", stage)}),
                        json!({"partitions": parts, "keys": nkeys, "detail": d, "snapshotted": want, "restored": got}));
                }
            }
        }
    }
    // moving an existing node to a bucket (and back): process 1 runs with one strategy and snapshots; process 2 reads with
    // that strategy and writes with the other one (NUN_STORAGE_READ_STRATEGY / NUN_STORAGE_WRITE_STRATEGY), changes a few
    // keys and takes a complete snapshot; process 3 runs with the new strategy only and must hold what process 2 held
    let mut migration_cases = 0u64;
    {
        let mut plans: Vec<(&str, &str, u64, usize)> = vec![("disk", "s3_patition", 3, 40), ("disk", "s3", 10, 40), ("s3_patition", "disk", 3, 40), ("s3", "disk", 10, 30)];
        if thorough {
            plans.extend([("disk", "s3_patition", 10, 200), ("disk", "s3_patition", 1, 25), ("s3", "s3_patition", 3, 60), ("s3_patition", "s3", 10, 60), ("s3_patition", "disk", 10, 150)]);
        }
        for (ci, (from, to, parts, nkeys)) in plans.iter().enumerate() {
            let bucket = format!("mig{}", ci);
            let dbs = json!([["one", "none"], ["two", "newer"]]);
            let mut ops: Vec<serde_json::Value> = (0..*nkeys).map(|i| json!(["set", 0, format!("key-{}", i), (i + ci) % 6])).collect();
            ops.push(json!(["set", 1, "other", 1]));
            ops.push(json!(["remove", 0, "key-7"]));
            ops.push(json!(["snap", [0, 1], false]));
            ops.push(json!(["declutter"]));
            let cfg_from = Config { strategy: if *from == "disk" { "disk" } else if *from == "s3" { "s3" } else { "s3_patition" }, partitions: *parts, fault: None, put_fault_shape: (500, 1) };
            let cfg_to = Config { strategy: if *to == "disk" { "disk" } else if *to == "s3" { "s3" } else { "s3_patition" }, partitions: *parts, fault: None, put_fault_shape: (500, 1) };
            // the data directory is the node's own: it stays for processes 1 and 2 (and 3 when the target is the disk)
            let d = fresh_dir("c18-mig");
            let first = run_child(&json!({"dbs": dbs, "ops": ops}), &cfg_from, &stub, &bucket, &d);
            let second = run_child_rw(&json!({"dbs": dbs, "ops": [["image"], ["set", 0, "key-1", 3], ["remove", 0, "key-2"], ["set", 0, "brand-new", 2], ["inc", 0, "count"], ["snap", [0, 1], true], ["declutter"]]}), &cfg_from, Some((from, to)), &stub, &bucket, &d);
            let d3 = if *to == "disk" { d.clone() } else { fresh_dir("c18-mig3") };
            let third = run_child(&json!({"dbs": dbs, "ops": [["image"]]}), &cfg_to, &stub, &bucket, &d3);
            let _ = std::fs::remove_dir_all(&d);
            let _ = std::fs::remove_dir_all(&d3);
            let (Some(first), Some(second), Some(third)) = (first, second, third) else {
                v.inconclusive("migration run produced no result");
                continue;
            };
            let ev_of = |doc: &serde_json::Value, name: &str| doc["events"].as_array().unwrap().iter().find(|e| e["event"] == name).map(|e| e["image"].clone());
            let (Some(snap1), Some(load2), Some(snap2), Some(load3)) = (ev_of(&first, "snapshot-completed"), ev_of(&second, "restart"), ev_of(&second, "snapshot-completed"), ev_of(&third, "restart")) else {
                let failed = [&first, &second, &third].iter().flat_map(|d| d["events"].as_array().unwrap().iter()).find(|e| e["event"] == "snapshot-reported-failure" || e["event"] == "restart-failed").cloned();
                match failed {
                    Some(f) => { v.report(json!({"check": "s3", "strategy": to, "problem": format!("{}", f["event"].as_str().unwrap_or("")), "context": format!("node-moved-from-{}-to-{}", from, to)}), json!({"event": f})); }
                    None => v.inconclusive("migration run: an event is missing"),
                }
                continue;
            };
            migration_cases += 1;
            for (stage, want, got) in [("start-of-the-process-that-reads-the-old-storage", &snap1, &load2), ("start-on-the-new-storage", &snap2, &load3)] {
                for (p, dd) in diff(want, got).into_iter().filter(|x| x.0 != "database-id-or-strategy-differs") {
                    v.report(json!({"check": "s3", "strategy": to, "problem": p, "context": format!("node-moved-from-{}-to-{}/{}", from, to, stage)}),
                        json!({"partitions": parts, "keys": nkeys, "detail": dd, "snapshotted": want, "restored": got}));
                }
            }
        }
    }
    ev.set("nodes_moved_between_storage_strategies", json!(migration_cases));
    let s = st.into_inner().unwrap();
    ev.evaluations = s.runs + 2 * repartition_cases + 3 * process_chain_cases + 3 * migration_cases;
    ev.set("restarts_with_another_number_of_partitions", json!(repartition_cases));
    ev.set("chains_of_three_processes_snapshot_load_incremental_snapshot_load", json!(process_chain_cases));
    ev.distinct_nontrivial = s.shapes.len() as u64;
    ev.rule = format!("{} generated histories (set / set-safe / remove / increment / snapshot incremental|reclaim of one or both databases / declutter / restart over 2 databases x 3 keys x 6 value classes; every 5th history uses the prefix-related names a / ab), each run in child processes under disk (reference) and two of 10 configurations (s3; s3_patition with 1, 3, 10 partitions; 2nd PUT fails once / always; 1st GET fails once) against tools/s3stub.py with a fresh bucket per run; every restart of the S3 run is compared with the same restart of the disk run; + {} restarts of a fresh process with another number of partitions (10->3, 3->10, 10->1, ...) against the bucket a snapshot of 12-39 keys was written to, compared with the image at the snapshot; distinct_nontrivial = distinct (configuration, history features, outcome class) shapes", n_hist, repartition_cases);
    ev.samples = s.samples.clone();
    ev.set("histories", json!(s.histories));
    ev.set("restarts_compared_with_disk_run", json!(s.restarts_compared));
    ev.set("stub_put_requests_observed", json!(s.puts));
    ev.set("stub_faults_injected", json!(s.faults_injected));
    ev.set("known_findings_seen", json!(v.known_seen()));
    ev.violations = v.violation_count();
    ev.assumptions = vec![
        "the disk strategy's restore is the reference (C06 checks it against the node's own pre-snapshot image)".into(),
        "stub: in-memory PUT / GET / ListObjectsV2, path style; 'reported' = the snapshot action panics (what kills the timer thread in production) ; 'silent' = it returns and the object is missing".into(),
    ];
    ev.write();
    cleanup_scratch();
    let code = v.finish(tier);
    if code == 0 && (s.runs < 100 || s.restarts_compared < 100 || v.inconclusive_count() > 5) {
        println!("INCONCLUSIVE property=C18 reason=coverage floor not met ({} runs, {} restarts compared)", s.runs, s.restarts_compared);
        return 2;
    }
    println!("C18 {}: {} histories, {} S3 runs, {} restarts compared, {} PUTs, {} faults, {} shapes, {} violations", tier, s.histories, s.runs, s.restarts_compared, s.puts, s.faults_injected, s.shapes.len(), v.violation_count());
    code
}
