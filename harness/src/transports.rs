//! Engine H: the real TCP / HTTP / WebSocket servers started in-process on loopback ports,
//! driven by raw socket clients.
use crate::c10::Who;
use crate::common::kf::Verdicts;
use crate::common::node::{Node, NodeOpts};
use crate::common::rng::Rng;
use crate::common::session::Session;
use crate::common::*;
use nundb::bo::{ClusterRole, Databases};
use serde_json::json;
use std::io::{Read, Write};
use std::net::{TcpListener, TcpStream};
use std::sync::atomic::{AtomicBool, AtomicU64, Ordering};
use std::sync::Arc;
use std::time::{Duration, Instant};

pub struct LiveNode {
    pub dbs: Arc<Databases>,
    pub tcp: String,
    pub http: String,
    pub ws: String,
    pub loop_dead: Arc<AtomicBool>,
    pub repl_msgs: Arc<AtomicU64>,
    /// what the node's own threads handed to its supervisor (the harness takes the messages instead of a supervisor)
    pub sup_log: Arc<std::sync::Mutex<Vec<String>>>,
    stop: Arc<AtomicBool>,
}

fn free_port() -> u16 {
    let l = TcpListener::bind("127.0.0.1:0").unwrap();
    l.local_addr().unwrap().port()
}

fn wait_listening(addr: &str) -> bool {
    for _ in 0..200 {
        if TcpStream::connect(addr).is_ok() {
            return true;
        }
        std::thread::sleep(Duration::from_millis(10));
    }
    false
}

impl LiveNode {
    /// Starts a node with its three real servers. None if no port could be bound (inconclusive).
    pub fn start(dir: &str, real_loop: bool) -> Option<LiveNode> {
        for _attempt in 0..20 {
            let (tcp, http, ws) = (format!("127.0.0.1:{}", free_port()), format!("127.0.0.1:{}", free_port()), format!("127.0.0.1:{}", free_port()));
            let mut o = NodeOpts::simple(dir);
            o.addr = tcp.clone();
            o.real_loop = real_loop;
            let mut node = Node::start(o);
            node.set_role(ClusterRole::Primary);
            node.keep_logs = false;
            let dbs = node.dbs.clone();
            {
                let mut adm = Session::new();
                adm.call(&dbs, "auth admin pwd");
                adm.call(&dbs, "create-db db tok");
                adm.call(&dbs, "create-db db2 tok2");
                adm.call(&dbs, "create-db adb tok arbiter");
                adm.call(&dbs, "use-db db tok");
                adm.call(&dbs, "create-user u utok");
                adm.call(&dbs, "set-permissions u r a*|w b*");
                adm.call(&dbs, "set $$secret s");
            }
            let (d1, a1) = (dbs.clone(), tcp.clone());
            let dir1 = dir.to_string();
            std::thread::spawn(move || {
                nundb::verif::set_dir(Some(dir1));
                let _ = std::panic::catch_unwind(std::panic::AssertUnwindSafe(|| nundb::network::tcp_ops::start_tcp_client(d1, &a1)));
            });
            let (d2, a2) = (dbs.clone(), Arc::new(http.clone()));
            std::thread::spawn(move || {
                let _ = std::panic::catch_unwind(std::panic::AssertUnwindSafe(|| nundb::network::http_ops::start_http_client(d2, a2)));
            });
            let (d3, a3) = (dbs.clone(), Arc::new(ws.clone()));
            std::thread::spawn(move || {
                let _ = std::panic::catch_unwind(std::panic::AssertUnwindSafe(|| nundb::network::ws_ops::start_web_socket_client(d3, a3)));
            });
            let stop = Arc::new(AtomicBool::new(false));
            let loop_dead = Arc::new(AtomicBool::new(false));
            let repl_msgs = Arc::new(AtomicU64::new(0));
            let sup_log = Arc::new(std::sync::Mutex::new(Vec::new()));
            let sup2 = sup_log.clone();
            let (stop2, dead2, msgs2) = (stop.clone(), loop_dead.clone(), repl_msgs.clone());
            // the replication loop runs on its own thread, as in production
            std::thread::spawn(move || {
                while !stop2.load(Ordering::Relaxed) {
                    let r = std::panic::catch_unwind(std::panic::AssertUnwindSafe(|| node.pump()));
                    match r {
                        Ok(n) => {
                            msgs2.fetch_add(n as u64, Ordering::Relaxed);
                            if n == 0 {
                                std::thread::sleep(Duration::from_micros(300));
                            }
                        }
                        Err(_) => {
                            dead2.store(true, Ordering::SeqCst);
                            break;
                        }
                    }
                    while let Some(m) = node.take_sup() {
                        sup2.lock().unwrap().push(m);
                    }
                }
            });
            if wait_listening(&tcp) && wait_listening(&http) && wait_listening(&ws) {
                return Some(LiveNode { dbs, tcp, http, ws, loop_dead, repl_msgs, sup_log, stop });
            }
            stop.store(true, Ordering::Relaxed);
        }
        None
    }
}

impl Drop for LiveNode {
    fn drop(&mut self) {
        self.stop.store(true, Ordering::Relaxed);
    }
}

// ---------------------------------------------------------------- TCP
pub struct TcpClient {
    pub s: TcpStream,
    buf: Vec<u8>,
    /// keep the white space at the end of a line (only the line feed is cut): values may end in spaces or tabs
    pub keep_ws: bool,
}

impl TcpClient {
    pub fn connect(addr: &str) -> std::io::Result<TcpClient> {
        let s = TcpStream::connect(addr)?;
        s.set_nodelay(true).ok();
        let mut c = TcpClient { s, buf: vec![], keep_ws: false };
        c.read_until("ok", Duration::from_secs(10));
        Ok(c)
    }
    pub fn send(&mut self, bytes: &[u8]) -> bool {
        self.s.write_all(bytes).is_ok()
    }
    /// Reads lines until one contains `needle`; Err(true) on EOF / reset, Err(false) on timeout.
    pub fn read_until(&mut self, needle: &str, timeout: Duration) -> Result<Vec<String>, (bool, Vec<String>)> {
        let deadline = Instant::now() + timeout;
        let mut lines: Vec<String> = vec![];
        loop {
            while let Some(p) = self.buf.iter().position(|b| *b == b'\n') {
                let l: Vec<u8> = self.buf.drain(..=p).collect();
                let l = String::from_utf8_lossy(&l).to_string();
                let l = if self.keep_ws { l.strip_suffix('\n').unwrap_or(&l).to_string() } else { l.trim_end().to_string() };
                let hit = l.contains(needle);
                lines.push(l);
                if hit {
                    return Ok(lines);
                }
            }
            let left = deadline.saturating_duration_since(Instant::now());
            if left.is_zero() {
                return Err((false, lines));
            }
            self.s.set_read_timeout(Some(left.min(Duration::from_millis(200)))).ok();
            let mut tmp = [0u8; 4096];
            match self.s.read(&mut tmp) {
                Ok(0) => return Err((true, lines)),
                Ok(n) => self.buf.extend_from_slice(&tmp[..n]),
                Err(e) if e.kind() == std::io::ErrorKind::WouldBlock || e.kind() == std::io::ErrorKind::TimedOut => {}
                Err(_) => return Err((true, lines)),
            }
        }
    }
    /// Collects whatever arrives during `d`.
    pub fn read_for(&mut self, d: Duration) -> Vec<String> {
        match self.read_until("\u{1}never\u{1}", d) {
            Ok(l) => l,
            Err((_, l)) => l,
        }
    }
}

// ---------------------------------------------------------------- HTTP
/// POSTs `body`; Ok(response body) or Err(reason).
pub fn http_post(addr: &str, body: &[u8], timeout: Duration) -> Result<String, String> {
    let mut s = TcpStream::connect(addr).map_err(|e| format!("connect: {}", e))?;
    s.set_read_timeout(Some(timeout)).ok();
    s.set_write_timeout(Some(timeout)).ok();
    let head = format!("POST / HTTP/1.1\r\nHost: x\r\nConnection: close\r\nContent-Type: text/plain\r\nContent-Length: {}\r\n\r\n", body.len());
    s.write_all(head.as_bytes()).map_err(|e| format!("write: {}", e))?;
    s.write_all(body).map_err(|e| format!("write: {}", e))?;
    let mut resp = vec![];
    let mut tmp = [0u8; 8192];
    loop {
        match s.read(&mut tmp) {
            Ok(0) => break,
            Ok(n) => resp.extend_from_slice(&tmp[..n]),
            Err(e) => {
                if resp.is_empty() {
                    return Err(format!("read: {}", e));
                }
                break;
            }
        }
    }
    // split and de-chunk on bytes (a chunk boundary may fall inside a multi-byte character), decode at the end
    let pos = match resp.windows(4).position(|w| w == b"\r\n\r\n") {
        Some(p) => p,
        None => return Err(format!("no http response ({} bytes)", resp.len())),
    };
    let head = String::from_utf8_lossy(&resp[..pos]).to_string();
    let body: &[u8] = &resp[pos + 4..];
    let status = head.lines().next().unwrap_or("").to_string();
    if !status.contains(" 200") {
        return Err(format!("status: {}", status));
    }
    if head.to_ascii_lowercase().contains("transfer-encoding: chunked") {
        let mut out: Vec<u8> = vec![];
        let mut rest = body;
        loop {
            let Some(p) = rest.windows(2).position(|w| w == b"\r\n") else { break };
            let n = usize::from_str_radix(String::from_utf8_lossy(&rest[..p]).trim(), 16).unwrap_or(0);
            if n == 0 {
                break;
            }
            let start = p + 2;
            if start + n > rest.len() {
                break;
            }
            out.extend_from_slice(&rest[start..start + n]);
            rest = &rest[(start + n + 2).min(rest.len())..];
        }
        return Ok(String::from_utf8_lossy(&out).to_string());
    }
    Ok(String::from_utf8_lossy(body).to_string())
}

// ---------------------------------------------------------------- WebSocket (hand-rolled client)
pub struct WsClient {
    s: TcpStream,
    buf: Vec<u8>,
}

pub enum WsMsg {
    Text(String),
    Close,
    Other(u8),
}

impl WsClient {
    pub fn connect(addr: &str) -> Result<WsClient, String> {
        let mut s = TcpStream::connect(addr).map_err(|e| format!("connect: {}", e))?;
        s.set_nodelay(true).ok();
        s.set_read_timeout(Some(Duration::from_secs(5))).ok();
        let req = format!("GET / HTTP/1.1\r\nHost: {}\r\nUpgrade: websocket\r\nConnection: Upgrade\r\nSec-WebSocket-Key: dGhlIHNhbXBsZSBub25jZQ==\r\nSec-WebSocket-Version: 13\r\n\r\n", addr);
        s.write_all(req.as_bytes()).map_err(|e| format!("write: {}", e))?;
        let mut buf = vec![];
        let mut tmp = [0u8; 1024];
        loop {
            let n = s.read(&mut tmp).map_err(|e| format!("handshake read: {}", e))?;
            if n == 0 {
                return Err("handshake eof".into());
            }
            buf.extend_from_slice(&tmp[..n]);
            if let Some(p) = buf.windows(4).position(|w| w == b"\r\n\r\n") {
                let head = String::from_utf8_lossy(&buf[..p]).to_string();
                if !head.contains(" 101") {
                    return Err(format!("handshake: {}", head.lines().next().unwrap_or("")));
                }
                let rest = buf[p + 4..].to_vec();
                return Ok(WsClient { s, buf: rest });
            }
        }
    }
    pub fn send_frame(&mut self, opcode: u8, payload: &[u8]) -> bool {
        let mut f = vec![0x80 | opcode];
        let n = payload.len();
        if n < 126 {
            f.push(0x80 | n as u8);
        } else if n < 65536 {
            f.push(0x80 | 126);
            f.extend_from_slice(&(n as u16).to_be_bytes());
        } else {
            f.push(0x80 | 127);
            f.extend_from_slice(&(n as u64).to_be_bytes());
        }
        let mask = [0x12u8, 0x34, 0x56, 0x78];
        f.extend_from_slice(&mask);
        f.extend(payload.iter().enumerate().map(|(i, b)| b ^ mask[i % 4]));
        self.s.write_all(&f).is_ok()
    }
    pub fn send_text(&mut self, t: &str) -> bool {
        self.send_frame(1, t.as_bytes())
    }
    pub fn send_binary(&mut self, b: &[u8]) -> bool {
        self.send_frame(2, b)
    }
    /// Next message; Err(true) = EOF/reset, Err(false) = timeout
    pub fn recv(&mut self, timeout: Duration) -> Result<WsMsg, bool> {
        let deadline = Instant::now() + timeout;
        loop {
            if self.buf.len() >= 2 {
                let opcode = self.buf[0] & 0x0f;
                let mut len = (self.buf[1] & 0x7f) as usize;
                let mut off = 2;
                if len == 126 {
                    if self.buf.len() >= 4 {
                        len = u16::from_be_bytes([self.buf[2], self.buf[3]]) as usize;
                        off = 4;
                    } else {
                        len = usize::MAX;
                    }
                } else if len == 127 {
                    if self.buf.len() >= 10 {
                        let mut b = [0u8; 8];
                        b.copy_from_slice(&self.buf[2..10]);
                        len = u64::from_be_bytes(b) as usize;
                        off = 10;
                    } else {
                        len = usize::MAX;
                    }
                }
                if len != usize::MAX && self.buf.len() >= off + len {
                    let payload: Vec<u8> = self.buf[off..off + len].to_vec();
                    self.buf.drain(..off + len);
                    return Ok(match opcode {
                        1 => WsMsg::Text(String::from_utf8_lossy(&payload).to_string()),
                        8 => WsMsg::Close,
                        o => WsMsg::Other(o),
                    });
                }
            }
            let left = deadline.saturating_duration_since(Instant::now());
            if left.is_zero() {
                return Err(false);
            }
            self.s.set_read_timeout(Some(left.min(Duration::from_millis(200)))).ok();
            let mut tmp = [0u8; 4096];
            match self.s.read(&mut tmp) {
                Ok(0) => return Err(true),
                Ok(n) => self.buf.extend_from_slice(&tmp[..n]),
                Err(e) if e.kind() == std::io::ErrorKind::WouldBlock || e.kind() == std::io::ErrorKind::TimedOut => {}
                Err(_) => return Err(true),
            }
        }
    }
    /// Reads text messages until one contains `needle`.
    pub fn read_until(&mut self, needle: &str, timeout: Duration) -> Result<Vec<String>, (bool, Vec<String>)> {
        let deadline = Instant::now() + timeout;
        let mut got = vec![];
        loop {
            let left = deadline.saturating_duration_since(Instant::now());
            if left.is_zero() {
                return Err((false, got));
            }
            match self.recv(left) {
                Ok(WsMsg::Text(t)) => {
                    let hit = t.contains(needle);
                    got.push(t);
                    if hit {
                        return Ok(got);
                    }
                }
                Ok(WsMsg::Close) => return Err((true, got)),
                Ok(WsMsg::Other(_)) => {}
                Err(eof) => return Err((eof, got)),
            }
        }
    }
    /// Ends the connection with a TCP reset instead of a closing handshake.
    pub fn reset(self) {
        use std::os::unix::io::AsRawFd;
        let lin = libc::linger { l_onoff: 1, l_linger: 0 };
        unsafe {
            libc::setsockopt(self.s.as_raw_fd(), libc::SOL_SOCKET, libc::SO_LINGER, &lin as *const _ as *const libc::c_void, std::mem::size_of::<libc::linger>() as libc::socklen_t);
        }
        drop(self);
    }
    /// Sends a frame that violates the protocol (reserved opcode, unmasked) and leaves: the server ends the session itself.
    pub fn protocol_error(mut self) {
        let _ = self.s.write_all(&[0x8b, 0x02, b'x', b'y']);
        std::thread::sleep(Duration::from_millis(20));
        drop(self);
    }
    pub fn close(mut self) {
        self.send_frame(8, &[0x03, 0xe8]);
        let _ = self.recv(Duration::from_millis(300));
    }
}

// ---------------------------------------------------------------- probes
static PROBE_N: AtomicU64 = AtomicU64::new(0);

pub fn probe_tcp(n: &LiveNode) -> Result<(), String> {
    let id = PROBE_N.fetch_add(1, Ordering::SeqCst);
    let mut c = TcpClient::connect(&n.tcp).map_err(|e| format!("tcp connect: {}", e))?;
    c.send(format!("use-db db tok\nset tprobe t{}\nget tprobe\n", id).as_bytes());
    match c.read_until(&format!("value t{}", id), Duration::from_secs(10)) {
        Ok(_) => Ok(()),
        Err((eof, l)) => Err(format!("tcp probe got {:?} (eof={})", l, eof)),
    }
}

pub fn probe_http(n: &LiveNode) -> Result<(), String> {
    let id = PROBE_N.fetch_add(1, Ordering::SeqCst);
    // all four workers must answer
    for i in 0..6 {
        let r = http_post(&n.http, format!("use-db db tok; set hprobe h{}x{}; get hprobe", id, i).as_bytes(), Duration::from_secs(10))?;
        if !r.contains(&format!("value h{}x{}", id, i)) {
            return Err(format!("http probe body {:?}", r));
        }
    }
    Ok(())
}

pub fn probe_ws(n: &LiveNode) -> Result<(), String> {
    let id = PROBE_N.fetch_add(1, Ordering::SeqCst);
    let mut c = WsClient::connect(&n.ws)?;
    c.send_text(&format!("use-db db tok;set wprobe w{};get wprobe", id));
    let r = c.read_until(&format!("value w{}", id), Duration::from_secs(10));
    c.close();
    match r {
        Ok(_) => Ok(()),
        Err((eof, l)) => Err(format!("ws probe got {:?} (eof={})", l, eof)),
    }
}

// ---------------------------------------------------------------- C10 over the transports
pub struct TransportStats {
    pub lines: u64,
    pub tcp: u64,
    pub http: u64,
    pub ws: u64,
    pub probes: u64,
}

impl TransportStats {
    pub fn to_json(&self) -> serde_json::Value {
        json!({"lines": self.lines, "tcp_sessions": self.tcp, "http_bodies": self.http, "ws_sessions": self.ws, "liveness_probes": self.probes})
    }
}

fn login_lines(who: Who) -> Vec<String> {
    match who {
        Who::Anon => vec![],
        Who::Token => vec!["use-db db tok".into()],
        Who::Admin => vec!["auth admin pwd".into(), "use-db db tok".into()],
        Who::AdminNoDb => vec!["auth admin pwd".into()],
    }
}

fn detail_class(d: &str) -> String {
    d.chars().filter(|c| !c.is_ascii_digit()).take(80).collect()
}

pub fn c10_transports(v: &Verdicts, cases: &[(Who, Vec<(String, String)>)], budget: usize) -> TransportStats {
    let mut st = TransportStats { lines: 0, tcp: 0, http: 0, ws: 0, probes: 0 };
    let dir = fresh_dir("c10-live");
    let mut live = match LiveNode::start(&dir, true) {
        Some(l) => l,
        None => {
            v.inconclusive("could not bind loopback ports for the transport servers");
            return st;
        }
    };
    // transport-specific hostile inputs first, then a sample of the corpus
    let mut work: Vec<(String, Who, Vec<Vec<u8>>, String)> = vec![]; // (transport, who, chunks, class)
    let flood: Vec<u8> = (0..150).map(|i| format!("rp {} get k\n", i + 1)).collect::<String>().into_bytes();
    work.push(("tcp".into(), Who::Token, vec![flood.clone()], "rp-flood-150".into()));
    work.push(("tcp".into(), Who::Anon, vec![vec![0xff, 0xfe, 0x00, b'\n', 0x80, b'g', b'e', b't', b'\n']], "invalid-utf8".into()));
    work.push(("tcp".into(), Who::Token, vec![format!("set big {}\n", "z".repeat(1_000_000)).into_bytes()], "1MB-line".into()));
    work.push(("tcp".into(), Who::Token, vec![b"get k".to_vec()], "no-trailing-newline".into()));
    work.push(("tcp".into(), Who::Token, vec![(0..400).map(|i| format!("watch w{}\nset w{} v\n", i, i)).collect::<String>().into_bytes()], "watch-set-flood".into()));
    work.push(("http".into(), Who::Token, vec![(0..150).map(|i| format!("rp {} get k;", i + 1)).collect::<String>().into_bytes()], "rp-flood-150".into()));
    work.push(("http".into(), Who::Token, vec![(0..300).map(|i| format!("watch h{};set h{} v;", i, i)).collect::<String>().into_bytes()], "watch-set-flood".into()));
    work.push(("http".into(), Who::Anon, vec![vec![0xff, 0xfe, 0xfd]], "invalid-utf8-body".into()));
    work.push(("http".into(), Who::Anon, vec![vec![]], "empty-body".into()));
    work.push(("http".into(), Who::Token, vec![";;;; ; ;".as_bytes().to_vec()], "only-separators".into()));
    work.push(("ws".into(), Who::Token, vec![b"\x02binary-frame".to_vec()], "binary-frame".into()));
    work.push(("ws".into(), Who::Token, vec![b"\x02\xff\xfe\x00\x80".to_vec()], "binary-frame-not-utf8".into()));
    work.push(("ws".into(), Who::Token, vec![(0..150).map(|i| format!("rp {} get k;", i + 1)).collect::<String>().into_bytes()], "rp-flood-150".into()));
    work.push(("ws".into(), Who::Anon, vec![b"\x09ping".to_vec(), b"get k".to_vec()], "ping-then-text".into()));
    work.push(("ws".into(), Who::Token, vec![format!("set big {}", "z".repeat(200_000)).into_bytes()], "200KB-frame".into()));
    let stride = (cases.len() / budget.max(1)).max(1);
    for (i, (who, lines)) in cases.iter().enumerate().step_by(stride) {
        let t = ["tcp", "http", "ws"][i % 3];
        let chunks: Vec<Vec<u8>> = lines.iter().map(|l| l.0.clone().into_bytes()).collect();
        work.push((t.to_string(), *who, chunks, lines.iter().map(|l| l.1.clone()).collect::<Vec<_>>().join(" + ")));
    }
    let mut marker = 0u64;
    take_panics();
    for (transport, who, chunks, class) in work {
        marker += 1;
        let mk = format!("marker-{}", marker);
        let mut problem: Option<(String, String)> = None;
        let shown: Vec<String> = chunks.iter().map(|c| { let s = String::from_utf8_lossy(c); if s.len() > 100 { format!("{}…({} bytes)", s.chars().take(80).collect::<String>(), c.len()) } else { s.to_string() } }).collect();
        match transport.as_str() {
            "tcp" => {
                st.tcp += 1;
                match TcpClient::connect(&live.tcp) {
                    Ok(mut c) => {
                        for l in login_lines(who) {
                            c.send(format!("{}\n", l).as_bytes());
                        }
                        for ch in &chunks {
                            st.lines += 1;
                            c.send(ch);
                            if !ch.ends_with(b"\n") && class != "no-trailing-newline" {
                                c.send(b"\n");
                            }
                        }
                        if class == "no-trailing-newline" {
                            // half-close: the handler sees the line and then EOF
                            let _ = c.s.shutdown(std::net::Shutdown::Write);
                            let _ = c.read_for(Duration::from_millis(300));
                        } else {
                            c.send(format!("{}\n", mk).as_bytes());
                            let mut r = c.read_until(&mk, Duration::from_secs(4));
                            if let Err((false, _)) = r {
                                // replies beyond the 100-message client channel are dropped by design: ask again once it has drained
                                c.send(format!("{}\n", mk).as_bytes());
                                r = c.read_until(&mk, Duration::from_secs(20));
                            }
                            if let Err((eof, got)) = r {
                                // confirm with a fresh connection before reporting
                                let detail = format!("connection {} before the marker reply; last lines {:?}", if eof { "closed by the server" } else { "silent for 20 s" }, got.iter().rev().take(3).collect::<Vec<_>>());
                                problem = Some((if eof { "tcp-handler-died".into() } else { "tcp-handler-wedged".into() }, detail));
                            }
                        }
                    }
                    Err(e) => problem = Some(("tcp-listener-dead".into(), format!("{}", e))),
                }
            }
            "http" => {
                st.http += 1;
                let mut body: Vec<u8> = vec![];
                for l in login_lines(who) {
                    body.extend_from_slice(l.as_bytes());
                    body.push(b';');
                }
                for ch in &chunks {
                    st.lines += 1;
                    body.extend_from_slice(ch);
                    body.push(b';');
                }
                match http_post(&live.http, &body, Duration::from_secs(20)) {
                    Ok(_) => {}
                    // an HTTP error status is an answer; whether a worker died is decided by the panic log below
                    Err(e) if e.starts_with("status:") => {}
                    Err(e) => problem = Some(("http-request-not-answered".into(), e)),
                }
            }
            _ => {
                st.ws += 1;
                match WsClient::connect(&live.ws) {
                    Ok(mut c) => {
                        for l in login_lines(who) {
                            c.send_text(&l);
                        }
                        for ch in &chunks {
                            st.lines += 1;
                            if ch.first() == Some(&2) {
                                c.send_binary(&ch[1..]);
                            } else if ch.first() == Some(&9) {
                                c.send_frame(9, &ch[1..]);
                            } else {
                                match std::str::from_utf8(ch) {
                                    Ok(t) => {
                                        c.send_text(t);
                                    }
                                    Err(_) => {
                                        c.send_binary(ch);
                                    }
                                }
                            }
                        }
                        c.send_text(&mk);
                        let mut r = c.read_until(&mk, Duration::from_secs(4));
                        if let Err((false, _)) = r {
                            c.send_text(&mk);
                            r = c.read_until(&mk, Duration::from_secs(20));
                        }
                        if let Err((eof, got)) = r {
                            let detail = format!("connection {} before the marker reply; last messages {:?}", if eof { "closed by the server" } else { "silent for 20 s" }, got.iter().rev().take(3).collect::<Vec<_>>());
                            problem = Some((if eof { "ws-connection-died".into() } else { "ws-wedged".into() }, detail));
                        } else {
                            c.close();
                        }
                    }
                    Err(e) => problem = Some(("ws-listener-dead".into(), e)),
                }
            }
        }
        // an administrator session of the corpus may have changed what the probes rely on (the token of `db`): put it back
        // in-process first, so that a refused probe means a dead service and not a changed password
        if let Ok(m) = live.dbs.map.read() {
            if let Some(d) = m.get("db") {
                let cur = d.get_value("$$token".to_string()).map(|v| v.value);
                if cur.as_deref() != Some("tok") {
                    // (forced: the corpus may also have pushed the key's version to the i32 limit, where a plain set is refused)
                    d.set_value_version(&"$$token".to_string(), &"tok".to_string(), 0, nundb::bo::ValueStatus::New, 0, 0, 0);
                }
            }
        }
        // liveness of the node for other clients, over the same transport (all three every 25 sessions)
        st.probes += 1;
        let probes: Vec<(&str, Result<(), String>)> = if marker % 25 == 0 || problem.is_some() {
            vec![("tcp", probe_tcp(&live)), ("http", probe_http(&live)), ("ws", probe_ws(&live))]
        } else {
            match transport.as_str() {
                "tcp" => vec![("tcp", probe_tcp(&live))],
                "http" => vec![("http", probe_http(&live))],
                _ => vec![("ws", probe_ws(&live))],
            }
        };
        let mut service_dead = false;
        for (t, r) in probes {
            if let Err(e) = r {
                service_dead = true;
                if problem.is_none() || !problem.as_ref().unwrap().0.contains("service") {
                    problem = Some((format!("{}-service-dead-for-other-clients", t), e));
                }
            }
        }
        let panics: Vec<String> = take_panics().into_iter().filter(|p| p.contains("/repo/") || p.contains("nun")).collect();
        if !panics.is_empty() {
            let first = panics[0].clone();
            let file = first.split('|').next().unwrap_or("").trim().rsplit('/').next().unwrap_or("").split(':').next().unwrap_or("").to_string();
            problem = Some((format!("service-thread-panicked-in-{}", file), panics.join(" || ")));
        }
        if live.loop_dead.load(Ordering::SeqCst) {
            problem = Some(("replication-loop-panicked".into(), "the replication loop thread died".into()));
            service_dead = true;
        }
        let p = crate::common::node::poisoned(&live.dbs);
        if !p.is_empty() {
            problem = Some(("lock-poisoned".into(), p.join(",")));
            service_dead = true;
        }
        if let Some((kind, detail)) = problem {
            let word = chunks.last().map(|c| String::from_utf8_lossy(c).split(|ch: char| ch == ' ' || ch == '\n' || ch == ';').next().unwrap_or("").chars().take(24).collect::<String>()).unwrap_or_default();
            let sig = json!({"check": "transport", "transport": transport, "problem": kind, "input_class": if class.contains('/') { format!("corpus:{}", word) } else { class.clone() }});
            v.report(sig, json!({"transport": transport, "session": format!("{:?}", who), "input": shown, "class": class, "detail": detail_class(&detail), "full_detail": detail}));
            if service_dead {
                // a wedged node cannot be used further: start a new one
                drop(live);
                let dir = fresh_dir("c10-live");
                live = match LiveNode::start(&dir, true) {
                    Some(l) => l,
                    None => {
                        v.inconclusive("could not restart the transport servers");
                        return st;
                    }
                };
            }
        }
    }
    st
}

// ---------------------------------------------------------------- session isolation over the transports (C08, C09)
/// What a whole client session over one transport got back: every reply / message, as one text.
fn exchange(live: &LiveNode, transport: &str, lines: &[String], n: u64) -> Result<String, String> {
    let mk = format!("isomark-{}", n);
    match transport {
        "tcp" => {
            let mut c = TcpClient::connect(&live.tcp).map_err(|e| format!("tcp connect: {}", e))?;
            for l in lines {
                c.send(format!("{}\n", l).as_bytes());
            }
            c.send(format!("{}\n", mk).as_bytes());
            match c.read_until(&mk, Duration::from_secs(20)) {
                Ok(l) => Ok(l.join("\n")),
                Err((eof, l)) => Err(format!("tcp session {} before the marker reply: {:?}", if eof { "closed" } else { "silent" }, l.iter().rev().take(2).collect::<Vec<_>>())),
            }
        }
        "http" => http_post(&live.http, lines.join(";").as_bytes(), Duration::from_secs(20)),
        _ => {
            let mut c = WsClient::connect(&live.ws)?;
            for l in lines {
                c.send_text(l);
            }
            c.send_text(&mk);
            let r = c.read_until(&mk, Duration::from_secs(20));
            match r {
                Ok(l) => {
                    c.close();
                    Ok(l.join("\n"))
                }
                Err((eof, l)) => Err(format!("ws session {} before the marker reply: {:?}", if eof { "closed" } else { "silent" }, l.iter().rev().take(2).collect::<Vec<_>>())),
            }
        }
    }
}

#[derive(Default)]
pub struct IsoStats {
    pub rounds: u64,
    pub admin_sessions: u64,
    pub other_sessions: u64,
    pub tcp: u64,
    pub http: u64,
    pub ws: u64,
    pub commands_judged: u64,
    pub cells: std::collections::BTreeSet<String>,
}

impl IsoStats {
    pub fn to_json(&self) -> serde_json::Value {
        json!({"rounds": self.rounds, "administrator_sessions": self.admin_sessions, "non_administrator_sessions": self.other_sessions, "tcp_sessions": self.tcp, "http_requests": self.http, "ws_sessions": self.ws, "commands_judged": self.commands_judged, "distinct (transport, credential, command) cells": self.cells.len()})
    }
}

/// Sessions of different clients over the real servers must not inherit anything from each other: administrator
/// sessions (over every transport, enough HTTP requests to pass through every worker thread) are followed by and
/// interleaved with sessions that never authenticate as administrator; those must neither learn nor change what
/// C08 (`secure` = true: $$ keys) or C09 (administrator commands, keys outside the permission list) protects.
pub fn session_isolation(v: &Verdicts, secure: bool, rng: &mut Rng, rounds: usize) -> IsoStats {
    let mut st = IsoStats::default();
    let dir = fresh_dir("iso-live");
    let live = match LiveNode::start(&dir, true) {
        Some(l) => l,
        None => {
            v.inconclusive("could not bind loopback ports for the transport servers");
            return st;
        }
    };
    let mut n = 0u64;
    let transports = ["tcp", "http", "ws"];
    let mut adm = Session::new();
    adm.call(&live.dbs, "auth admin pwd");
    adm.call(&live.dbs, "use-db db tok");
    let read = |adm: &mut Session, key: &str| -> String { adm.call(&live.dbs, &format!("get {}", key)).pushed.join("").trim().to_string() };
    for round in 0..rounds {
        st.rounds += 1;
        let secret = format!("SEC{:x}", rng.next());
        // administrator traffic
        let admin_lines: Vec<String> = vec!["auth admin pwd".into(), "use-db db tok".into(), format!("set $$secret {}", secret), format!("set $$hidden7 {}x", secret), format!("set b1 {}b", secret), format!("set a1 {}a", secret), "get $$secret".into()];
        let n_admin = if round % 2 == 0 { 12 } else { rng.range(1, 6) };
        for i in 0..n_admin {
            let t = if round % 2 == 0 { if i < 9 { "http" } else { transports[i % 3] } } else { *rng.pick(&transports) };
            n += 1;
            st.admin_sessions += 1;
            match exchange(&live, t, &admin_lines, n) {
                Ok(r) => {
                    if !r.contains(&secret) {
                        v.inconclusive(&format!("administrator session over {} did not read back its own $$secret: {:?}", t, r.chars().take(200).collect::<String>()));
                    }
                }
                Err(e) => v.inconclusive(&format!("administrator session over {}: {}", t, e)),
            }
        }
        let perm_before = read(&mut adm, "$$permission_$u");
        // sessions that are not administrators
        let n_other = rng.range(4, 10);
        for _ in 0..n_other {
            let t = *rng.pick(&transports);
            let cred = rng.below(3);
            let (cred_name, login): (&str, Vec<String>) = match cred {
                0 => ("none", vec![]),
                1 => ("db-token", vec!["use-db db tok".into()]),
                _ => ("user-token", vec!["use-db db u utok".into()]),
            };
            // (command, what must not show in the replies, what to look at afterwards)
            let newdb = format!("iso{}", n);
            let pool: Vec<(String, &str)> = if secure {
                vec![
                    ("get $$secret".into(), "get-secure"),
                    ("get-safe $$secret".into(), "get-safe-secure"),
                    ("keys $$*".into(), "keys-secure-pattern"),
                    ("keys".into(), "keys-all"),
                    ("keys *7".into(), "keys-suffix"),
                    (format!("set $$secret hacked{}", n), "set-secure"),
                    (format!("set-safe $$secret 0 hacked{}", n), "set-safe-secure"),
                    ("increment $$secret 1".into(), "increment-secure"),
                    ("remove $$secret".into(), "remove-secure"),
                    ("remove $$token".into(), "remove-token"),
                    ("watch $$secret".into(), "watch-secure"),
                ]
            } else {
                vec![
                    (format!("create-db {} t", newdb), "create-db"),
                    ("create-user eve pw".into(), "create-user"),
                    ("set-permissions u rwix *".into(), "set-permissions"),
                    ("cluster-state".into(), "cluster-state"),
                    ("metrics-state".into(), "metrics-state"),
                    ("snapshot false".into(), "snapshot"),
                    ("get b1".into(), "get-outside-permissions"),
                    (format!("set a1 hacked{}", n), "set-outside-permissions"),
                    ("increment a1 1".into(), "increment-outside-permissions"),
                    ("remove a1".into(), "remove-outside-permissions"),
                ]
            };
            let k = rng.range(1, 4);
            let mut lines = login.clone();
            let mut classes: Vec<&str> = vec![];
            for _ in 0..k {
                let (c, class) = rng.pick(&pool).clone();
                lines.push(c);
                classes.push(class);
            }
            n += 1;
            st.other_sessions += 1;
            match t {
                "tcp" => st.tcp += 1,
                "http" => st.http += 1,
                _ => st.ws += 1,
            }
            let reply = match exchange(&live, t, &lines, n) {
                Ok(r) => r,
                Err(e) => {
                    v.inconclusive(&format!("session over {}: {}", t, e));
                    continue;
                }
            };
            st.commands_judged += k as u64;
            for c in &classes {
                st.cells.insert(format!("{}/{}/{}", t, cred_name, c));
            }
            let mut problems: Vec<&str> = vec![];
            if secure {
                if reply.contains(&secret) {
                    problems.push("secure-value-disclosed");
                }
                if reply.contains("$$hidden7") {
                    problems.push("secure-key-name-listed");
                }
                if read(&mut adm, "$$secret") != format!("value {}", secret) || read(&mut adm, "$$hidden7") != format!("value {}x", secret) || read(&mut adm, "$$token") != "value tok" {
                    problems.push("secure-key-changed");
                }
            } else {
                let data_allowed = cred != 0; // a session without any credential can do nothing at all
                if live.dbs.map.read().map(|m| m.contains_key(&newdb)).unwrap_or(false) {
                    problems.push("create-db-executed-without-administrator");
                }
                if read(&mut adm, "$$user_eve") != "value <Empty>" {
                    problems.push("create-user-executed-without-administrator");
                }
                if read(&mut adm, "$$permission_$u") != perm_before {
                    problems.push("set-permissions-executed-without-administrator");
                }
                if reply.contains(&live.tcp) || reply.contains("metrics-state ") {
                    problems.push("cluster-data-returned-without-administrator");
                }
                // user u: r a*|w b*  — b1 unreadable, a1 unwritable; no credential: nothing readable or writable
                if cred != 1 && reply.contains(&format!("{}b", secret)) {
                    problems.push("value-returned-outside-the-credential");
                }
                if (cred != 1 || !data_allowed) && read(&mut adm, "a1") != format!("value {}a", secret) {
                    problems.push("key-changed-outside-the-credential");
                }
                if cred == 1 {
                    // the db-token session may legitimately have changed a1: put it back for the next session
                    adm.call(&live.dbs, &format!("set a1 {}a", secret));
                }
            }
            for p in problems {
                let sig = json!({"check": "session-isolation-over-transports", "transport": t, "credential": cred_name, "problem": p});
                v.report(sig, json!({"transport": t, "credential": cred_name, "lines": lines, "reply": reply.chars().take(600).collect::<String>(), "administrator_sessions_before": st.admin_sessions, "round": round}));
            }
        }
        if live.loop_dead.load(Ordering::SeqCst) {
            v.inconclusive("replication loop died during the session-isolation part");
            break;
        }
    }
    st
}

// ---------------------------------------------------------------- a TCP subscriber that falls behind
/// What happened to one TCP session that subscribed to a key and then did not read its socket while `writes` values of
/// `value_len` bytes were committed to that key (the notifications fill the socket buffers), and read again afterwards.
pub struct SlowSubscriber {
    /// numbers n of the `changed-version k <version> w<n>-...` notifications received, in order of arrival
    pub received: Vec<u64>,
    pub writes: u64,
    /// the server ended the connection (EOF / reset seen by the client) before the client closed it
    pub ended_by_server: bool,
    /// `$connections` of the database as another session reads it: before the subscriber came, while it was connected,
    /// after it was gone (its connection ended by the server, or closed by the client) and the node had time to notice
    pub count_before: String,
    pub count_with: String,
    pub count_after: String,
    /// watcher entries left for the key after the session was gone
    pub watchers_left: usize,
    pub panics: Vec<String>,
    /// a later session is served (get of the key answers the last value)
    pub served_afterwards: bool,
}

fn read_connections(live: &LiveNode, db: &str, tok: &str) -> String {
    // read in-process: a session of its own would change the count it reads
    let dbs = live.dbs.map.read().unwrap();
    let _ = tok;
    match dbs.get(db) {
        Some(d) => d.get_value("$connections".to_string()).map(|v| v.value).unwrap_or("0".into()),
        None => "?".into(),
    }
}

pub fn slow_tcp_subscriber(dir: &str, writes: usize, value_len: usize) -> Option<SlowSubscriber> {
    let live = LiveNode::start(dir, false)?;
    take_panics();
    let count_before = read_connections(&live, "db", "tok");
    let mut sub = TcpClient::connect(&live.tcp).ok()?;
    // a small receive buffer on the client side: the window closes early
    {
        use std::os::unix::io::AsRawFd;
        let sz: libc::c_int = 4096;
        unsafe {
            libc::setsockopt(sub.s.as_raw_fd(), libc::SOL_SOCKET, libc::SO_RCVBUF, &sz as *const _ as *const libc::c_void, std::mem::size_of::<libc::c_int>() as libc::socklen_t);
        }
    }
    sub.send(b"use-db db tok\n");
    let _ = sub.read_until("ok", Duration::from_secs(10));
    sub.send(b"watch slowkey\n");
    let _ = sub.read_until("ok", Duration::from_secs(10));
    let count_with = read_connections(&live, "db", "tok");
    // the writer: an in-process session (what another client's handler thread does)
    let mut w = Session::new();
    w.call(&live.dbs, "use-db db tok");
    let pad = "x".repeat(value_len);
    for n in 0..writes {
        w.call(&live.dbs, &format!("set slowkey w{}-{}", n, pad));
        w.drain();
        if n % 16 == 15 {
            std::thread::sleep(Duration::from_millis(1));
        }
    }
    // let the handler thread push what it can
    std::thread::sleep(Duration::from_millis(300));
    // the subscriber reads again, until the server ends the connection or nothing has arrived for a while
    let mut received = vec![];
    let mut ended_by_server = false;
    let mut idle = 0;
    loop {
        match sub.read_until("\u{1}never\u{1}", Duration::from_millis(400)) {
            Ok(_) => {}
            Err((eof, lines)) => {
                if lines.is_empty() {
                    idle += 1;
                } else {
                    idle = 0;
                }
                for l in lines {
                    if let Some(rest) = l.strip_prefix("changed-version slowkey ") {
                        if let Some(v) = rest.split(' ').nth(1).and_then(|x| x.strip_prefix('w')).and_then(|x| x.split('-').next()).and_then(|x| x.parse::<u64>().ok()) {
                            received.push(v);
                        }
                    }
                }
                if eof {
                    ended_by_server = true;
                    break;
                }
                if idle >= 4 {
                    break;
                }
            }
        }
    }
    drop(sub);
    w.disconnect(&live.dbs);
    // the node notices a closed connection at its next read
    let mut count_after = String::new();
    for _ in 0..100 {
        count_after = read_connections(&live, "db", "tok");
        if count_after == count_before {
            break;
        }
        std::thread::sleep(Duration::from_millis(50));
    }
    let watchers_left = {
        let dbs = live.dbs.map.read().unwrap();
        let d = dbs.get("db").unwrap();
        let wm = d.watchers.map.read().unwrap();
        wm.get("slowkey").map(|v| v.len()).unwrap_or(0)
    };
    let served_afterwards = match TcpClient::connect(&live.tcp) {
        Ok(mut c) => {
            c.send(b"use-db db tok\nget slowkey\n");
            c.read_until("value ", Duration::from_secs(10)).is_ok()
        }
        Err(_) => false,
    };
    let panics: Vec<String> = take_panics().into_iter().filter(|p| p.contains("/repo/") || p.contains("nun")).collect();
    Some(SlowSubscriber { received, writes: writes as u64, ended_by_server, count_before, count_with, count_after, watchers_left, panics, served_afterwards })
}
