//! C12 — the operation-log query never misses an operation.
//! Logs are written with the real writer (rotation included) with chosen
//! timestamps; `read_operations_since` / `last_op_time` are compared with a
//! linear scan of the same files. One child process per NUN_MAX_OP_LOG_SIZE
//! (the variable is read once per process).
use crate::common::evidence::Evidence;
use crate::common::kf::Verdicts;
use crate::common::rng::Rng;
use crate::common::*;
use nundb::bo::ReplicateOpp;
use nundb::disk_ops::{read_operations_since, Oplog};
use serde_json::json;
use std::collections::{BTreeMap, BTreeSet};

#[derive(Clone, Debug)]
struct Rec {
    time: u64,
    key: u64,
    db: u64,
    op: u8,
}

fn op_of(n: u8) -> ReplicateOpp {
    match n {
        0 => ReplicateOpp::Update,
        1 => ReplicateOpp::Remove,
        2 => ReplicateOpp::CreateDb,
        _ => ReplicateOpp::Snapshot,
    }
}

/// Linear scan of the files in creation order (rotated files carry their creation time in the name).
fn scan(dir: &str) -> (Vec<Rec>, Vec<(String, usize)>) {
    let mut files: Vec<(u64, String)> = vec![];
    if let Ok(rd) = std::fs::read_dir(format!("{}/oplog", dir)) {
        for e in rd.flatten() {
            let n = e.file_name().to_string_lossy().to_string();
            if n.ends_with(".op") {
                let ts: u64 = n.trim_start_matches("oplog-nun-").trim_end_matches(".op").parse().unwrap_or(0);
                files.push((ts, format!("{}/oplog/{}", dir, n)));
            }
        }
    }
    files.sort();
    files.push((u64::MAX, format!("{}/oplog-nun.op", dir)));
    let mut out = vec![];
    let mut per_file = vec![];
    for (_, f) in files {
        let bytes = std::fs::read(&f).unwrap_or_default();
        let mut n = 0;
        for c in bytes.chunks(25) {
            if c.len() < 25 {
                break;
            }
            n += 1;
            out.push(Rec {
                time: u64::from_le_bytes(c[0..8].try_into().unwrap()),
                key: u64::from_le_bytes(c[8..16].try_into().unwrap()),
                db: u64::from_le_bytes(c[16..24].try_into().unwrap()),
                op: c[24],
            });
        }
        per_file.push((f, n));
    }
    (out, per_file)
}

fn expected_since(recs: &[Rec], since: u64) -> BTreeMap<String, u8> {
    // every (db,key) with a record at or after `since`, labelled with the kind of its most recent record
    let mut latest: BTreeMap<String, (u64, u8)> = BTreeMap::new();
    for r in recs {
        // update / remove records belong to a (database, key); create-db and snapshot records belong to the database
        let k = match r.op {
            2 => format!("{}_create-db", r.db),
            3 => format!("{}_snapshot", r.db),
            _ => format!("{}_{}", r.db, r.key),
        };
        match latest.get(&k) {
            Some((t, _)) if *t > r.time => {}
            _ => {
                latest.insert(k, (r.time, r.op));
            }
        }
    }
    latest.into_iter().filter(|(_, (t, _))| *t >= since).map(|(k, (_, o))| (k, o)).collect()
}

/// A node whose databases d1 / d2 carry the ids 1 / 2 and whose key map knows the ids 10..15 as k10..k15: the records
/// the child writes decode against it, so the catch-up a primary would SEND for a `replicate-since` can be asked for
/// as well (replication_ops::get_pendding_opps_since, the consumer of the log query).
fn catchup_dbs() -> Option<&'static std::sync::Arc<nundb::bo::Databases>> {
    static DBS: std::sync::OnceLock<Option<std::sync::Arc<nundb::bo::Databases>>> = std::sync::OnceLock::new();
    DBS.get_or_init(|| {
        let (rs, rr) = futures::channel::mpsc::channel(100000);
        let (ss, sr) = futures::channel::mpsc::channel(100000);
        std::mem::forget(rr);
        std::mem::forget(sr);
        let dbs = std::sync::Arc::new(nundb::bo::Databases::new("admin".into(), "pwd".into(), "127.0.0.1:1".into(), "127.0.0.1:1".into(), rs, ss, std::collections::HashMap::new(), 1, true));
        dbs.node_state.store(nundb::bo::ClusterRole::Primary as usize, std::sync::atomic::Ordering::SeqCst);
        let mut adm = crate::common::session::Session::new();
        adm.call(&dbs, "auth admin pwd");
        adm.call(&dbs, "create-db d1 tok1");
        adm.call(&dbs, "create-db d2 tok2");
        {
            let names = dbs.id_name_db_map.read().unwrap();
            if names.get(&1).map(|s| s.as_str()) != Some("d1") || names.get(&2).map(|s| s.as_str()) != Some("d2") {
                return None;
            }
        }
        let mut ids = dbs.id_keys_map.write().unwrap();
        for k in 10u64..=15 {
            ids.insert(k, format!("k{}", k));
        }
        drop(ids);
        Some(dbs)
    })
    .as_ref()
}

/// (database, key / record family) and kind of one catch-up command, in the namespace of `expected_since`
fn classify_catch_up(line: &str) -> Option<(String, u8)> {
    let w: Vec<&str> = line.split(' ').collect();
    let dbid = |n: &str| match n { "d1" => Some(1), "d2" => Some(2), _ => None };
    let keyid = |k: &str| k.strip_prefix('k').and_then(|x| x.parse::<u64>().ok());
    match w.first().copied() {
        Some("replicate") => Some((format!("{}_{}", dbid(w.get(1)?)?, keyid(w.get(2)?)?), 0)),
        Some("replicate-remove") => Some((format!("{}_{}", dbid(w.get(1)?)?, keyid(w.get(2)?)?), 1)),
        Some("create-db") => Some((format!("{}_create-db", dbid(w.get(1)?)?), 2)),
        Some("replicate-snapshot") => Some((format!("{}_snapshot", dbid(w.get(1)?)?), 3)),
        _ => None,
    }
}

struct ChildOut {
    queries: u64,
    catch_up_queries: u64,
    logs: u64,
    shapes: BTreeSet<String>,
    problems: Vec<(serde_json::Value, serde_json::Value)>,
    samples: Vec<serde_json::Value>,
    max_files: usize,
    prune_checks: u64,
}

fn check_log(dir: &str, tag: &str, out: &mut ChildOut, sinces_extra: &[u64]) {
    let (recs, per_file) = scan(dir);
    out.logs += 1;
    out.max_files = out.max_files.max(per_file.len());
    let times: BTreeSet<u64> = recs.iter().map(|r| r.time).collect();
    let mut sinces: BTreeSet<u64> = BTreeSet::new();
    sinces.insert(0);
    for t in &times {
        sinces.insert(*t);
        sinces.insert(t.saturating_sub(1));
        sinces.insert(t + 1);
    }
    for s in sinces_extra {
        sinces.insert(*s);
    }
    // keep the query count bounded for long logs
    let sinces: Vec<u64> = if sinces.len() > 60 {
        let v: Vec<u64> = sinces.into_iter().collect();
        let step = v.len() / 50;
        v.iter().enumerate().filter(|(i, _)| i % step == 0 || *i < 4 || *i + 4 > v.len()).map(|(_, x)| *x).collect()
    } else {
        sinces.into_iter().collect()
    };
    let equal_times = recs.windows(2).any(|w| w[0].time == w[1].time);
    let current_records = per_file.last().map(|x| x.1).unwrap_or(0);
    // last_op_time
    let newest = recs.iter().map(|r| r.time).max().unwrap_or(0);
    let got_last = std::panic::catch_unwind(Oplog::last_op_time);
    match got_last {
        Ok(t) if t == newest => {}
        Ok(t) => {
            let sig = json!({"check": "oplog", "problem": "last-op-time-is-not-newest-record", "current_file": if current_records == 0 {"empty"} else {"has-records"}, "rotated_files": if per_file.len() > 1 {"some"} else {"none"}, "reported": if t == 0 {"zero"} else if t < newest {"older"} else {"other"}});
            out.problems.push((sig, json!({"tag": tag, "files": per_file, "newest_record_time": newest, "last_op_time": t})));
        }
        Err(e) => out.problems.push((json!({"check": "oplog", "problem": "last-op-time-panicked"}), json!({"tag": tag, "msg": panic_msg(&e)}))),
    }
    for since in sinces {
        out.queries += 1;
        let exp = expected_since(&recs, since);
        let got = std::panic::catch_unwind(|| read_operations_since(since));
        let pos = if recs.is_empty() {
            "empty-log"
        } else if since == 0 {
            "zero"
        } else if since < recs.iter().map(|r| r.time).min().unwrap() {
            "before-first"
        } else if since > newest {
            "after-last"
        } else if times.contains(&since) {
            "at-a-record"
        } else {
            "between-records"
        };
        out.shapes.insert(format!("{}|files={}|{}|{}", pos, per_file.len().min(4), if equal_times { "equal-times" } else { "strict" }, recs.len().min(13)));
        match got {
            Err(e) => out.problems.push((json!({"check": "oplog", "problem": "query-panicked", "since": pos}), json!({"tag": tag, "since": since, "msg": panic_msg(&e), "files": per_file}))),
            Ok(map) => {
                let got: BTreeMap<String, u8> = map.iter().map(|(k, r)| (k.clone(), r.opp.to_u8())).collect();
                // the consumer of the query: the commands a primary sends to a node that reports `since` as its last
                // operation. Every (database, key) with a record at or after `since` must be named by a command of the
                // kind of its newest record (judged only where the query itself is right, so nothing is reported twice)
                if got == exp && since != 0 {
                    if let Some(dbs) = catchup_dbs() {
                        out.catch_up_queries += 1;
                        match std::panic::catch_unwind(std::panic::AssertUnwindSafe(|| nundb::replication_ops::get_pendding_opps_since(since, dbs))) {
                            Err(e) => out.problems.push((json!({"check": "catch-up-commands", "problem": "catch-up-panicked", "since": pos}), json!({"tag": tag, "since": since, "msg": panic_msg(&e), "files": per_file}))),
                            Ok(lines) => {
                                let mut sent: BTreeMap<String, u8> = BTreeMap::new();
                                for l in &lines {
                                    if let Some((k, o)) = classify_catch_up(l) {
                                        sent.insert(k, o);
                                    }
                                }
                                let missing: Vec<&String> = exp.keys().filter(|k| !sent.contains_key(*k)).collect();
                                let wrong: Vec<&String> = exp.iter().filter(|(k, o)| sent.get(*k).map(|g| g != *o).unwrap_or(false)).map(|(k, _)| k).collect();
                                if !missing.is_empty() || !wrong.is_empty() {
                                    let kind = if !missing.is_empty() { "no-command-for-an-operation-at-or-after-since" } else { "command-of-the-wrong-kind" };
                                    if out.problems.len() < 400 {
                                        out.problems.push((json!({"check": "catch-up-commands", "problem": kind, "since": pos, "files": if per_file.len() > 1 {"rotated"} else {"single"}}),
                                            json!({"tag": tag, "since": since, "records": recs.iter().map(|r| json!([r.time, r.db, r.key, r.op])).collect::<Vec<_>>(), "expected": exp, "commands": lines, "missing": missing, "wrong_kind": wrong})));
                                    }
                                }
                            }
                        }
                    }
                }
                if got != exp {
                    let missing: Vec<&String> = exp.keys().filter(|k| !got.contains_key(*k)).collect();
                    let extra: Vec<&String> = got.keys().filter(|k| !exp.contains_key(*k)).collect();
                    let wrong: Vec<&String> = exp.iter().filter(|(k, o)| got.get(*k).map(|g| g != *o).unwrap_or(false)).map(|(k, _)| k).collect();
                    let kind = if !missing.is_empty() { "operation-missing" } else if !wrong.is_empty() { "wrong-kind-label" } else { "operation-before-since-returned" };
                    // "extra" (older than since) is harmless for catch-up and not part of the statement; only report it when nothing else is wrong
                    if kind == "operation-before-since-returned" {
                        continue;
                    }
                    let sig = json!({"check": "oplog", "problem": kind, "since": pos, "files": if per_file.len() > 1 {"rotated"} else {"single"}, "timestamps": if equal_times {"non-strict"} else {"strict"}});
                    if out.problems.len() < 400 {
                        out.problems.push((sig, json!({"tag": tag, "since": since, "records": recs.iter().map(|r| json!([r.time, r.db, r.key, r.op])).collect::<Vec<_>>(), "files": per_file,
                            "expected": exp, "got": got, "missing": missing, "extra": extra, "wrong_label": wrong})));
                    }
                }
            }
        }
    }
    if out.samples.len() < 3 && recs.len() > 3 && recs.len() < 14 {
        out.samples.push(json!({"tag": tag, "records_time_db_key_kind": recs.iter().map(|r| json!([r.time, r.db, r.key, r.op])).collect::<Vec<_>>(), "files": per_file}));
    }
}

/// Conservation between what the writer was given and what the files hold. `from` = index into `written` from which on
/// everything must be on disk (usize::MAX: find it — pruning may have dropped a prefix, never anything in the middle).
/// Returns the index from which on the files hold everything.
fn conservation(dir: &str, written: &[(u64, u64, u64, u8)], from: usize, tag: &str, out: &mut ChildOut) -> Option<usize> {
    let (recs, per_file) = scan(dir);
    let on_disk: BTreeSet<(u64, u64, u64, u8)> = recs.iter().map(|r| (r.time, r.db, r.key, r.op)).collect();
    let start = if from == usize::MAX {
        // the longest suffix of `written` that is completely on disk
        let mut i = written.len();
        while i > 0 && on_disk.contains(&written[i - 1]) {
            i -= 1;
        }
        i
    } else {
        from
    };
    let expected: BTreeSet<(u64, u64, u64, u8)> = written[start..].iter().cloned().collect();
    let missing: Vec<&(u64, u64, u64, u8)> = expected.iter().filter(|r| !on_disk.contains(*r)).collect();
    // after a pruning older records may legitimately survive in part of a file; records nobody wrote may not exist
    let all: BTreeSet<(u64, u64, u64, u8)> = written.iter().cloned().collect();
    let alien: Vec<&(u64, u64, u64, u8)> = on_disk.iter().filter(|r| !all.contains(*r)).collect();
    if !missing.is_empty() || !alien.is_empty() {
        let sig = json!({"check": "oplog", "problem": if !missing.is_empty() { "written-record-not-in-any-file" } else { "file-holds-a-record-nobody-wrote" }, "when": tag});
        if out.problems.len() < 400 {
            out.problems.push((sig, json!({"tag": tag, "files": per_file, "written": written.len(), "must_be_on_disk_from_index": start, "missing_time_db_key_op": missing.iter().take(20).collect::<Vec<_>>(), "alien": alien.iter().take(20).collect::<Vec<_>>()})));
        }
        return None;
    }
    if from == usize::MAX {
        // a pruning keeps at least the current file and the newest rotated files: it cannot have dropped everything
        if start == written.len() && !written.is_empty() {
            out.problems.push((json!({"check": "oplog", "problem": "nothing-written-is-left", "when": tag}), json!({"tag": tag, "files": per_file})));
            return None;
        }
    }
    Some(start)
}

fn fresh(dir: &str) {
    let _ = std::fs::remove_dir_all(dir);
    std::fs::create_dir_all(dir).unwrap();
}

/// Child: everything for one NUN_MAX_OP_LOG_SIZE.
pub fn child(args: &[String]) -> i32 {
    quiet_panics();
    let size: u64 = args[3].parse().unwrap();
    let seed0: u64 = args[4].parse().unwrap();
    let thorough = args[5] == "thorough";
    let dir = fresh_dir(&format!("c12-{}", size));
    nundb::verif::set_dir(Some(dir.clone()));
    let mut out = ChildOut { queries: 0, catch_up_queries: 0, logs: 0, shapes: BTreeSet::new(), problems: vec![], samples: vec![], max_files: 0, prune_checks: 0 };
    let mut rng = Rng::new(seed0 ^ size);
    let per_file = (size / 10) / 25;
    // ---- systematic short logs
    let n_sys = if thorough { 6000 } else { 600 };
    for i in 0..n_sys {
        fresh(&dir);
        let n = (i % 13) as usize;
        let strict = i % 2 == 0;
        let mut t = 100 + rng.below(50) as u64;
        let mut stream = Oplog::get_log_file_append_mode();
        for _ in 0..n {
            t += if strict { rng.range(1, 5) as u64 } else { *rng.pick(&[0u64, 0, 1, 3]) };
            let _ = Oplog::try_write_op_log(&mut stream, Some(rng.range(1, 2) as u64), rng.range(10, 12) as u64, &op_of(rng.below(4) as u8), t);
        }
        drop(stream);
        check_log(&dir, &format!("short n={} strict={}", n, strict), &mut out, &[t + 5]);
    }
    // ---- longer random logs with rotation, optionally restart of the writer and pruning
    let n_long = if thorough { 300 } else { 40 };
    for i in 0..n_long {
        fresh(&dir);
        let n = rng.range(20, if thorough { 5000 } else { 1500 }).min((per_file as usize * 16).max(40));
        let strict = i % 3 != 0;
        let mut t = 1000u64;
        let mut stream = Oplog::get_log_file_append_mode();
        // what the writer was given, in order: the files must account for all of it (conservation), whatever the queries return
        let mut written: Vec<(u64, u64, u64, u8)> = vec![];
        for j in 0..n {
            t += if strict { rng.range(1, 9) as u64 } else { *rng.pick(&[0u64, 0, 1, 2, 7]) };
            let (wdb, wkey, wop) = (rng.range(1, 2) as u64, rng.range(10, 15) as u64, rng.below(4) as u8);
            let _ = Oplog::try_write_op_log(&mut stream, Some(wdb), wkey, &op_of(wop), t);
            written.push((t, wdb, wkey, op_of(wop).to_u8()));
            if j % 97 == 96 && i % 4 == 1 {
                // the writer is reopened (process restart)
                drop(stream);
                stream = Oplog::get_log_file_append_mode();
            }
        }
        drop(stream);
        conservation(&dir, &written, 0, "after-writing", &mut out);
        check_log(&dir, &format!("long n={} strict={}", n, strict), &mut out, &[]);
        if i % 2 == 0 {
            // a restart opens the writer (which may rotate a full file) before anything is written
            let stream = Oplog::get_log_file_append_mode();
            drop(stream);
            check_log(&dir, "writer-reopened-without-writing", &mut out, &[]);
        }
        // pruning keeps the newest files: every record of the 9 newest rotated files + the current one survives
        let (_before, files_before) = scan(&dir);
        let dbs = std::sync::Arc::new(nundb::bo::Databases::new("a".into(), "b".into(), "x".into(), "x".into(), futures::channel::mpsc::channel(1).0, futures::channel::mpsc::channel(1).0, std::collections::HashMap::new(), 1, true));
        let r = std::panic::catch_unwind(std::panic::AssertUnwindSafe(|| nundb::disk_ops::verif_declutter(&dbs)));
        out.prune_checks += 1;
        if r.is_err() {
            out.problems.push((json!({"check": "oplog", "problem": "pruning-panicked"}), json!({"files": files_before})));
            continue;
        }
        let (_after, files_after) = scan(&dir);
        let rotated_before: Vec<&(String, usize)> = files_before.iter().take(files_before.len() - 1).collect();
        let keep: BTreeSet<String> = rotated_before.iter().rev().take(9).map(|f| f.0.clone()).collect();
        let have: BTreeSet<String> = files_after.iter().take(files_after.len() - 1).map(|f| f.0.clone()).collect();
        if !keep.is_subset(&have) {
            out.problems.push((json!({"check": "oplog", "problem": "pruning-dropped-a-file-within-the-configured-size"}), json!({"before": files_before, "after": files_after})));
        } else if have.len() > 9 && rotated_before.len() > 9 {
            out.problems.push((json!({"check": "oplog", "problem": "pruning-kept-more-than-the-configured-size"}), json!({"before": files_before.len(), "after": files_after.len()})));
        }
        check_log(&dir, "after-pruning", &mut out, &[]);
        // the log goes on after the pruning: more records, more rotations, and nothing that was kept may disappear
        let kept_from = conservation(&dir, &written, usize::MAX, "after-pruning", &mut out);
        let mut stream = Oplog::get_log_file_append_mode();
        let more = rng.range(10, (per_file as usize * 4).clamp(20, 600));
        for _ in 0..more {
            t += if strict { rng.range(1, 9) as u64 } else { *rng.pick(&[0u64, 0, 1, 2, 7]) };
            let (wdb, wkey, wop) = (rng.range(1, 2) as u64, rng.range(10, 15) as u64, rng.below(4) as u8);
            let _ = Oplog::try_write_op_log(&mut stream, Some(wdb), wkey, &op_of(wop), t);
            written.push((t, wdb, wkey, op_of(wop).to_u8()));
        }
        drop(stream);
        if let Some(k) = kept_from {
            conservation(&dir, &written, k, "writing-on-after-pruning", &mut out);
        }
        check_log(&dir, "written-on-after-pruning", &mut out, &[]);
    }
    // ---- a reader at work while the log is being written and rotated (a session asking for metrics, the supervisor
    // answering a catch-up): afterwards every record the writer was given must be in some file
    let mut raced = 0u64;
    if per_file <= 2000 {
        let rounds = if thorough { 60 } else { 12 };
        for r in 0..rounds {
            fresh(&dir);
            let stop = std::sync::atomic::AtomicBool::new(false);
            let mut written: Vec<(u64, u64, u64, u8)> = vec![];
            std::thread::scope(|sc| {
                let (stop2, dir2) = (&stop, dir.clone());
                sc.spawn(move || {
                    nundb::verif::set_dir(Some(dir2));
                    let mut i = 0u64;
                    while !stop2.load(std::sync::atomic::Ordering::Acquire) {
                        let _ = std::panic::catch_unwind(|| match i % 3 {
                            0 => {
                                let _ = Oplog::last_op_time();
                            }
                            1 => {
                                let _ = read_operations_since(1);
                            }
                            _ => {
                                let _ = nundb::disk_ops::get_op_log_size();
                            }
                        });
                        i += 1;
                    }
                });
                let mut stream = Oplog::get_log_file_append_mode();
                let mut t = 5000u64 + r as u64;
                let n = (per_file as usize * 12).clamp(200, 3000);
                for j in 0..n {
                    t += 1 + (j % 3) as u64;
                    let (wdb, wkey, wop) = (1 + (j % 2) as u64, 100 + j as u64, (j % 4) as u8);
                    let _ = Oplog::try_write_op_log(&mut stream, Some(wdb), wkey, &op_of(wop), t);
                    written.push((t, wdb, wkey, op_of(wop).to_u8()));
                }
                drop(stream);
                stop.store(true, std::sync::atomic::Ordering::Release);
            });
            raced += 1;
            if conservation(&dir, &written, 0, "written-while-a-reader-was-at-work", &mut out).is_none() {
                break;
            }
        }
    }
    let doc = json!({
        "rounds_written_while_a_reader_was_at_work": raced,
        "queries": out.queries, "catch_up_queries": out.catch_up_queries, "logs": out.logs, "shapes": out.shapes.iter().cloned().collect::<Vec<_>>(), "max_files": out.max_files, "prune_checks": out.prune_checks,
        "problems": out.problems.iter().map(|(s, r)| json!({"sig": s, "replay": r})).collect::<Vec<_>>(), "samples": out.samples,
    });
    println!("{}", doc);
    cleanup_scratch();
    0
}

pub fn run(tier: &str) -> i32 {
    let v = Verdicts::load("C12");
    let mut ev = Evidence::new("C12", tier, "exploration");
    let sizes: Vec<u64> = if tier == "thorough" { vec![250, 1000, 1270, 25_000, 33_330, 1_073_741_824] } else { vec![250, 1270, 25_000, 1_073_741_824] };
    let exe = std::env::current_exe().unwrap();
    let mut children = vec![];
    for s in &sizes {
        let c = std::process::Command::new(&exe)
            .args(["C12-child", "x", &s.to_string(), &seed().to_string(), tier])
            .env("NUN_MAX_OP_LOG_SIZE", s.to_string())
            .stdout(std::process::Stdio::piped())
            .stderr(std::process::Stdio::piped())
            .spawn()
            .unwrap();
        children.push((*s, c));
    }
    let mut queries = 0u64;
    let mut catch_up_queries = 0u64;
    let mut logs = 0u64;
    let mut shapes: BTreeSet<String> = BTreeSet::new();
    let mut max_files = 0u64;
    let mut prune = 0u64;
    for (s, c) in children {
        let o = c.wait_with_output().unwrap();
        if !o.status.success() {
            v.inconclusive(&format!("child for size {} died: {}", s, String::from_utf8_lossy(&o.stderr).lines().last().unwrap_or("")));
            continue;
        }
        let txt = String::from_utf8_lossy(&o.stdout);
        let line = txt.lines().last().unwrap_or("{}");
        let doc: serde_json::Value = serde_json::from_str(line).unwrap_or(json!({}));
        queries += doc["queries"].as_u64().unwrap_or(0);
        catch_up_queries += doc["catch_up_queries"].as_u64().unwrap_or(0);
        logs += doc["logs"].as_u64().unwrap_or(0);
        prune += doc["prune_checks"].as_u64().unwrap_or(0);
        max_files = max_files.max(doc["max_files"].as_u64().unwrap_or(0));
        for sh in doc["shapes"].as_array().cloned().unwrap_or_default() {
            shapes.insert(format!("{}|size={}", sh.as_str().unwrap_or(""), s));
        }
        for p in doc["problems"].as_array().cloned().unwrap_or_default() {
            let mut sig = p["sig"].clone();
            sig["log_size_divisible_by_record"] = json!((s / 10) % 25 == 0);
            let mut rp = p["replay"].clone();
            rp["NUN_MAX_OP_LOG_SIZE"] = json!(s);
            v.report(sig, rp);
        }
        for sm in doc["samples"].as_array().cloned().unwrap_or_default() {
            ev.sample(sm);
        }
    }
    ev.evaluations = queries;
    ev.distinct_nontrivial = shapes.len() as u64;
    ev.rule = format!("one child process per NUN_MAX_OP_LOG_SIZE in {:?}; per size: systematic logs of 0-12 records over 2 dbs x 3 keys x 4 kinds with strictly and non-strictly increasing timestamps + random logs of 20-5000 records (6 keys) that force up to {} files, written with the real writer (try_write_op_log incl. rotation, writer reopened as a restart does), queried for since in {{0, each record time, each +-1, after last}}; then the timer action (pruning) and the same queries again. distinct_nontrivial = distinct (position of since, number of files, strict/equal timestamps, log length class, size) query shapes", sizes, max_files);
    ev.set("logs_written", json!(logs));
    ev.set("queries_compared_with_linear_scan", json!(queries));
    ev.set("catch_up_command_lists_compared_with_linear_scan", json!(catch_up_queries));
    ev.set("pruning_checks", json!(prune));
    ev.set("max_files_in_one_log", json!(max_files));
    ev.set("known_findings_seen", json!(v.known_seen()));
    ev.violations = v.violation_count();
    ev.assumptions = vec![
        "oracle: linear scan of the same files, rotated files ordered by the creation time in their name, then the current file".into(),
        "entries older than `since` that the query returns in addition are not counted as violations (harmless for catch-up, not part of the statement)".into(),
    ];
    ev.write();
    let code = v.finish(tier);
    if code == 0 && (queries < 5000 || catch_up_queries < 2000 || shapes.len() < 100 || v.inconclusive_count() > 0) {
        println!("INCONCLUSIVE property=C12 reason=coverage floor not met or a child died ({} queries, {} catch-up command lists, {} shapes)", queries, catch_up_queries, shapes.len());
        return 2;
    }
    println!("C12 {}: {} logs, {} queries, {} shapes, up to {} files, {} pruning checks, {} violations", tier, logs, queries, shapes.len(), max_files, prune, v.violation_count());
    code
}
