//! C03 — watchers get every committed change, only committed changes, and end up current.
//! Controlled interleavings of writers / subscribers / bystanders; the recorded
//! history and every client's inbox are judged by a small WatchModel.
use crate::c02::{mem_node, short};
use crate::common::evidence::Evidence;
use crate::common::kf::Verdicts;
use crate::common::rng::Rng;
use crate::common::sched::{self, Ev, Policy};
use crate::common::session::Session;
use crate::common::*;
use serde_json::json;
use std::collections::{BTreeMap, BTreeSet};
use std::sync::Mutex;

#[derive(Clone, Debug)]
pub enum WOp {
    Set(String),
    SetSafe(String, i32),
    Inc(String, usize), // digit position
    Remove(String),
    ReplSet(String, i32),
    ReplRemove(String),
    ReplInc(String, usize),
    Watch(String),
    Unwatch(String),
    UnwatchAll,
    Disconnect,
}

#[derive(Clone, Debug)]
struct Done {
    client: usize,
    idx: usize,
    op: WOp,
    line: String,
    reply: String,
    call: usize,
    ret: usize,
}

fn gen_case(r: &mut Rng) -> Vec<(bool, Vec<WOp>)> {
    // returns (is_admin_link, ops) per client
    let n = r.range(3, 4);
    let keys = ["a", "b"];
    let mut digit = 0usize;
    let mut out = vec![];
    for c in 0..n {
        let writer = c == 0 || r.chance(1, 3);
        let admin = writer && r.chance(1, 4);
        let mut ops = vec![];
        let mut watched: BTreeSet<String> = BTreeSet::new();
        let len = r.range(2, 4);
        let mut gone = false;
        for _ in 0..len {
            if gone {
                break;
            }
            let k = r.pick(&keys).to_string();
            if writer && r.chance(2, 3) {
                let op = if admin {
                    match r.below(6) {
                        0..=2 => WOp::ReplSet(k, *r.pick(&[-1, 0, 1, 2, 5])),
                        3 => WOp::ReplRemove(k),
                        _ => {
                            digit += 1;
                            WOp::ReplInc("n".into(), digit)
                        }
                    }
                } else {
                    match r.below(9) {
                        0..=2 => WOp::Set(k),
                        3..=4 => WOp::SetSafe(k, *r.pick(&[0, 1, 2, 3, 6])),
                        5..=6 => {
                            digit += 1;
                            WOp::Inc("n".into(), digit)
                        }
                        _ => WOp::Remove(k),
                    }
                };
                ops.push(op);
            } else {
                let wk = if r.chance(1, 4) { "n".to_string() } else { k };
                match r.below(10) {
                    0..=4 => {
                        if watched.insert(wk.clone()) {
                            ops.push(WOp::Watch(wk));
                        } else {
                            watched.remove(&wk);
                            ops.push(WOp::Unwatch(wk));
                        }
                    }
                    5..=6 => {
                        watched.remove(&wk);
                        ops.push(WOp::Unwatch(wk));
                    }
                    7..=8 => {
                        watched.clear();
                        ops.push(WOp::UnwatchAll);
                    }
                    _ => {
                        ops.push(WOp::Disconnect);
                        gone = true;
                    }
                }
            }
        }
        out.push((admin, ops));
    }
    out
}

pub struct Stats {
    pub runs: u64,
    pub distinct: BTreeSet<u64>,
    pub nontrivial: BTreeSet<u64>,
    pub notifications: u64,
    pub mutations: u64,
    pub obligations: u64,
    pub probe_obligations: u64,
    pub stuck: u64,
    pub samples: Vec<serde_json::Value>,
    pub max_inbox: usize,
}

fn digit_value(d: usize) -> i32 {
    // distinct bits so that every partial sum identifies the increments applied
    1 << d
}

fn run_case(case: &[(bool, Vec<WOp>)], rng: &mut Rng, policy: Policy, v: &Verdicts, stats: &Mutex<Stats>, node: &mut crate::common::node::Node, adm: &mut Session, dbn: &mut u64) -> bool {
    *dbn += 1;
    let db = format!("w{}", dbn);
    adm.call(&node.dbs, &format!("create-db {} tok none", db));
    // initial: a exists at version 1, b absent
    let mut s0 = Session::new();
    s0.call(&node.dbs, &format!("use-db {} tok", db));
    s0.call(&node.dbs, "set a init0");
    s0.call(&node.dbs, "set a init1");
    node.pump();
    let dbs = node.dbs.clone();
    let inboxes: Vec<Mutex<Vec<String>>> = case.iter().map(|_| Mutex::new(vec![])).collect();
    let sessions: Vec<Mutex<Option<Session>>> = case.iter().map(|_| Mutex::new(None)).collect();
    // sessions are prepared before the controlled part so that set-up noise is not scheduled
    for (ci, (admin, _)) in case.iter().enumerate() {
        let mut s = Session::new();
        if *admin {
            s.call(&dbs, "auth admin pwd");
        }
        s.call(&dbs, &format!("use-db {} tok", db));
        s.drain();
        *sessions[ci].lock().unwrap() = Some(s);
    }
    let bodies: Vec<_> = case
        .iter()
        .enumerate()
        .map(|(ci, (_admin, ops))| {
            let (dbs, ops, db, inboxes, sessions) = (dbs.clone(), ops.clone(), db.clone(), &inboxes, &sessions);
            move |tid: usize, sc: &sched::Sched| {
                let mut s = sessions[ci].lock().unwrap().take().unwrap();
                let mut alive = true;
                for (i, op) in ops.iter().enumerate() {
                    sched::yield_point(sc, tid, "op");
                    let val = format!("w{}x{}", ci, i);
                    let line = match op {
                        WOp::Set(k) => format!("set {} {}", k, val),
                        WOp::SetSafe(k, ver) => format!("set-safe {} {} {}", k, ver, val),
                        WOp::Inc(k, d) => format!("increment {} {}", k, digit_value(*d)),
                        WOp::Remove(k) => format!("remove {}", k),
                        WOp::ReplSet(k, ver) => format!("replicate {} {} {} {}", db, k, ver, val),
                        WOp::ReplRemove(k) => format!("replicate-remove {} {}", db, k),
                        WOp::ReplInc(k, d) => format!("replicate-increment {} {} {}", db, k, digit_value(*d)),
                        WOp::Watch(k) => format!("watch {}", k),
                        WOp::Unwatch(k) => format!("unwatch {}", k),
                        WOp::UnwatchAll => "unwatch-all".to_string(),
                        WOp::Disconnect => "DISCONNECT".to_string(),
                    };
                    sc.log(Ev::Call(tid, i, line.clone()));
                    let reply = if let WOp::Disconnect = op {
                        // what every transport does when the peer goes away
                        let r = s.call_raw(&dbs, "unwatch-all");
                        s.client.left(&dbs);
                        alive = false;
                        short(&r)
                    } else {
                        short(&s.call_raw(&dbs, &line))
                    };
                    // keep the channel far below its capacity
                    inboxes[ci].lock().unwrap().extend(s.drain());
                    sc.log(Ev::Ret(tid, i, reply));
                    if !alive {
                        break;
                    }
                }
                *sessions[ci].lock().unwrap() = Some(s);
            }
        })
        .collect();
    let out = sched::run_controlled(bodies, rng, policy);
    if out.stuck {
        stats.lock().unwrap().stuck += 1;
        v.inconclusive("controlled run stuck (20 s watchdog)");
        return false;
    }
    // ---- reconstruct the history
    let mut done: Vec<Done> = vec![];
    let mut open: BTreeMap<(usize, usize), (String, usize)> = BTreeMap::new();
    for (pos, e) in out.events.iter().enumerate() {
        match e {
            Ev::Call(t, i, line) => {
                open.insert((*t, *i), (line.clone(), pos));
            }
            Ev::Ret(t, i, reply) => {
                if *i == usize::MAX {
                    v.report(json!({"check": "watch", "problem": "client-thread-panicked", "panic": reply.split(':').next().unwrap_or("")}), json!({"case": format!("{:?}", case), "events": format!("{:?}", out.events)}));
                    return false;
                }
                if let Some((line, call)) = open.remove(&(*t, *i)) {
                    done.push(Done { client: *t, idx: *i, op: case[*t].1[*i].clone(), line, reply: reply.clone(), call, ret: pos });
                }
            }
            _ => {}
        }
    }
    let end = out.events.len() + 10;
    // ---- final probe phase (sequential): every still-subscribed client must see these, nobody else
    let mut probe_lines = vec![];
    for (k, line) in [("a", "set a probeA".to_string()), ("b", "set b probeB".to_string()), ("n", format!("increment n {}", 1 << 20))] {
        let r = s0.call_raw(&dbs, &line);
        probe_lines.push((k, line, short(&r)));
    }
    node.pump();
    let mut max_inbox = 0;
    let mut inbox: Vec<Vec<String>> = vec![];
    for ci in 0..case.len() {
        let mut got = inboxes[ci].lock().unwrap().clone();
        if let Some(s) = sessions[ci].lock().unwrap().as_mut() {
            let tail = s.drain();
            max_inbox = max_inbox.max(tail.len());
            got.extend(tail);
        }
        inbox.push(got);
    }
    let final_vals: BTreeMap<&str, String> = ["a", "b"].iter().map(|k| {
        let r = s0.call_raw(&dbs, &format!("get {}", k));
        s0.drain();
        (*k, match r { nundb::bo::Response::Value { value, .. } => value, _ => "?".into() })
    }).collect();
    let _ = final_vals;

    // ---- oracle
    let h = sched::schedule_hash(&out.events);
    let mut problems: Vec<(serde_json::Value, String)> = vec![];
    let mut obligations = 0u64;
    let mut probe_obl = 0u64;
    let mut notifications = 0u64;
    let mut sub_overlaps_mutation = false;
    let muts: Vec<&Done> = done
        .iter()
        .filter(|d| matches!(d.op, WOp::Set(_) | WOp::SetSafe(..) | WOp::Inc(..) | WOp::Remove(_) | WOp::ReplSet(..) | WOp::ReplRemove(_) | WOp::ReplInc(..)))
        .collect();
    let key_of = |op: &WOp| -> String {
        match op {
            WOp::Set(k) | WOp::SetSafe(k, _) | WOp::Inc(k, _) | WOp::Remove(k) | WOp::ReplSet(k, _) | WOp::ReplRemove(k) | WOp::ReplInc(k, _) | WOp::Watch(k) | WOp::Unwatch(k) => k.clone(),
            _ => String::new(),
        }
    };
    for ci in 0..case.len() {
        let mine: Vec<&Done> = done.iter().filter(|d| d.client == ci).collect();
        for key in ["a", "b", "n"] {
            // subscription intervals of (ci, key): (watch.call, watch.ret, unsub.call, unsub.ret)
            let mut intervals: Vec<(usize, usize, usize, usize)> = vec![];
            let mut cur: Option<(usize, usize)> = None;
            for d in &mine {
                match &d.op {
                    WOp::Watch(k) if k == key && d.reply == "Ok" => {
                        if cur.is_none() {
                            cur = Some((d.call, d.ret));
                        }
                    }
                    WOp::Unwatch(k) if k == key => {
                        if let Some((c, r)) = cur.take() {
                            intervals.push((c, r, d.call, d.ret));
                        }
                    }
                    WOp::UnwatchAll | WOp::Disconnect => {
                        if let Some((c, r)) = cur.take() {
                            intervals.push((c, r, d.call, d.ret));
                        }
                    }
                    _ => {}
                }
            }
            let active_at_end = cur.is_some();
            if let Some((c, r)) = cur {
                intervals.push((c, r, end, end + 1));
            }
            // notifications this client holds for this key
            let mut changed: Vec<String> = vec![];
            let mut changed_version: Vec<(i32, String)> = vec![];
            let mut removed = 0usize;
            for m in &inbox[ci] {
                let t = m.trim_end_matches('\n');
                if let Some(rest) = t.strip_prefix(&format!("changed {} ", key)) {
                    changed.push(rest.to_string());
                } else if let Some(rest) = t.strip_prefix(&format!("changed-version {} ", key)) {
                    let mut p = rest.splitn(2, ' ');
                    let ver: i32 = p.next().unwrap_or("0").parse().unwrap_or(i32::MIN);
                    changed_version.push((ver, p.next().unwrap_or("").to_string()));
                } else if t == format!("removed {}", key) {
                    removed += 1;
                }
            }
            notifications += (changed.len() + changed_version.len() + removed) as u64;
            let kmuts: Vec<&&Done> = muts.iter().filter(|m| key_of(&m.op) == key).collect();
            // --- value-carrying mutations (set / set-safe / replicate): matched by unique value
            for m in &kmuts {
                let is_val = matches!(m.op, WOp::Set(_) | WOp::SetSafe(..) | WOp::ReplSet(..));
                let is_rm = matches!(m.op, WOp::Remove(_) | WOp::ReplRemove(_));
                let ok = m.reply == "Ok";
                let inside = intervals.iter().any(|iv| m.call > iv.1 && m.ret < iv.2);
                let overlaps = intervals.iter().any(|iv| m.ret > iv.0 && m.call < iv.3);
                if overlaps && !inside {
                    sub_overlaps_mutation = true;
                }
                if is_val {
                    let val = m.line.rsplit(' ').next().unwrap().to_string();
                    let n1 = changed.iter().filter(|x| **x == val).count();
                    let n2 = changed_version.iter().filter(|x| x.1 == val).count();
                    if ok && inside {
                        obligations += 1;
                        if n1 != 1 || n2 != 1 {
                            problems.push((json!({"check": "watch", "problem": if n1 == 0 || n2 == 0 {"committed-change-not-notified"} else {"duplicate-notification"}, "op": m.line.split(' ').next().unwrap()}),
                                format!("client {} subscribed to {} did not get exactly one changed/changed-version pair for '{}' (got {} / {})", ci, key, m.line, n1, n2)));
                        }
                    } else if !ok && (n1 > 0 || n2 > 0) {
                        problems.push((json!({"check": "watch", "problem": "refused-write-notified", "op": m.line.split(' ').next().unwrap()}), format!("client {} notified of refused '{}'", ci, m.line)));
                    } else if ok && !overlaps && (n1 > 0 || n2 > 0) {
                        problems.push((json!({"check": "watch", "problem": "notified-outside-subscription", "op": m.line.split(' ').next().unwrap()}), format!("client {} notified of '{}' which does not overlap any of its subscriptions to {}", ci, m.line, key)));
                    } else if n1 > 1 || n2 > 1 {
                        problems.push((json!({"check": "watch", "problem": "duplicate-notification", "op": m.line.split(' ').next().unwrap()}), format!("client {} got '{}' {} / {} times", ci, m.line, n1, n2)));
                    }
                }
                let _ = is_rm;
            }
            // --- removes: counted
            let rm_inside = kmuts.iter().filter(|m| matches!(m.op, WOp::Remove(_) | WOp::ReplRemove(_)) && m.reply == "Ok" && intervals.iter().any(|iv| m.call > iv.1 && m.ret < iv.2)).count();
            let rm_overlap = kmuts.iter().filter(|m| matches!(m.op, WOp::Remove(_) | WOp::ReplRemove(_)) && intervals.iter().any(|iv| m.ret > iv.0 && m.call < iv.3)).count();
            if key != "n" {
                obligations += rm_inside as u64;
                if removed < rm_inside {
                    problems.push((json!({"check": "watch", "problem": "remove-not-notified"}), format!("client {} key {}: {} removes inside its subscription, {} removed notifications", ci, key, rm_inside, removed)));
                } else if removed > rm_overlap {
                    problems.push((json!({"check": "watch", "problem": "removed-notified-outside-subscription"}), format!("client {} key {}: {} removed notifications but only {} removes overlap its subscriptions", ci, key, removed, rm_overlap)));
                }
            }
            // --- increments on n: counted, values must be subset sums of the increments issued
            if key == "n" {
                let incs: Vec<&&&Done> = kmuts.iter().filter(|m| matches!(m.op, WOp::Inc(..) | WOp::ReplInc(..))).collect();
                let inside = incs.iter().filter(|m| m.reply == "Ok" && intervals.iter().any(|iv| m.call > iv.1 && m.ret < iv.2)).count();
                let overlap = incs.iter().filter(|m| intervals.iter().any(|iv| m.ret > iv.0 && m.call < iv.3)).count();
                let probe = if active_at_end { 1 } else { 0 };
                obligations += inside as u64;
                let all_bits: i64 = incs.iter().map(|m| m.line.rsplit(' ').next().unwrap().parse::<i64>().unwrap()).sum::<i64>() + (1 << 20);
                for val in &changed {
                    let n: i64 = val.parse().unwrap_or(-1);
                    if n < 0 || (n & !all_bits) != 0 {
                        problems.push((json!({"check": "watch", "problem": "increment-notification-carries-uncommitted-value"}), format!("client {} got changed n {}", ci, val)));
                    }
                }
                if changed.len() < inside + probe || changed.len() > overlap + probe || changed.len() != changed_version.len() {
                    problems.push((json!({"check": "watch", "problem": if changed.len() < inside + probe {"committed-change-not-notified"} else {"notified-outside-subscription"}, "op": "increment"}),
                        format!("client {} key n: {} increments inside / {} overlapping its subscriptions (+{} probe), {} changed, {} changed-version notifications", ci, inside, overlap, probe, changed.len(), changed_version.len())));
                }
            }
            // --- probe phase: isolation of subscriptions (nobody else's watch/unwatch/disconnect dropped ours)
            if key != "n" {
                let pv = if key == "a" { "probeA" } else { "probeB" };
                let got = changed.iter().filter(|x| *x == pv).count();
                probe_obl += 1;
                if active_at_end && got != 1 {
                    problems.push((json!({"check": "watch", "problem": "subscription-lost", "detail": if got == 0 {"no-notification-after-others-unsubscribed"} else {"duplicate"}}),
                        format!("client {} never unsubscribed from {} but holds {} notifications for the final probe write", ci, key, got)));
                } else if !active_at_end && got != 0 {
                    problems.push((json!({"check": "watch", "problem": "notified-after-unsubscribe"}), format!("client {} unsubscribed from {} earlier but got the final probe write", ci, key)));
                }
                // --- final view: highest-versioned notification carries the current value
                // (a remove starts a new incarnation of the key whose versions restart, so the rule is
                // applied to keys that were only written with set / set-safe in this history)
                let key_was_removed = kmuts.iter().any(|m| matches!(m.op, WOp::Remove(_) | WOp::ReplRemove(_)));
                if active_at_end && !key_was_removed {
                    if let Some(top) = changed_version.iter().max_by_key(|x| x.0) {
                        if top.1 != pv {
                            problems.push((json!({"check": "watch", "problem": "highest-versioned-notification-not-current"}), format!("client {} key {}: highest-versioned notification {:?}, current value {}", ci, key, top, pv)));
                        }
                    }
                }
            }
        }
        // notifications for keys never watched by this client
        let ever: BTreeSet<String> = mine.iter().filter_map(|d| if let WOp::Watch(k) = &d.op { Some(k.clone()) } else { None }).collect();
        for m in &inbox[ci] {
            let t = m.trim_end_matches('\n');
            let mut p = t.split(' ');
            let w = p.next().unwrap_or("");
            if w == "changed" || w == "changed-version" || w == "removed" {
                let k = p.next().unwrap_or("");
                if !ever.contains(k) {
                    problems.push((json!({"check": "watch", "problem": "notification-for-unwatched-key"}), format!("client {} got '{}'", ci, t)));
                }
            }
        }
    }
    {
        let mut st = stats.lock().unwrap();
        st.runs += 1;
        st.distinct.insert(h);
        st.notifications += notifications;
        st.mutations += muts.len() as u64;
        st.obligations += obligations;
        st.probe_obligations += probe_obl;
        st.max_inbox = st.max_inbox.max(max_inbox);
        if sub_overlaps_mutation {
            st.nontrivial.insert(h);
            if st.samples.len() < 3 {
                st.samples.push(json!({"clients": case.iter().map(|c| format!("{:?}", c)).collect::<Vec<_>>(),
                    "history": done.iter().map(|d| json!([d.client, d.line, d.reply, d.call, d.ret])).collect::<Vec<_>>(), "inboxes": inbox}));
            }
        }
    }
    let had = !problems.is_empty();
    let mut seen = BTreeSet::new();
    for (sig, why) in problems {
        if !seen.insert(sig.to_string()) {
            continue;
        }
        v.report(
            sig,
            json!({"clients": case.iter().map(|c| format!("{:?}", c)).collect::<Vec<_>>(), "explanation": why,
                   "history": done.iter().map(|d| json!({"client": d.client, "idx": d.idx, "line": d.line, "reply": d.reply, "call": d.call, "ret": d.ret})).collect::<Vec<_>>(),
                   "probe": probe_lines.iter().map(|p| json!([p.1, p.2])).collect::<Vec<_>>(),
                   "inboxes": inbox, "decisions": out.decisions, "events": out.events.iter().map(|e| format!("{:?}", e)).collect::<Vec<_>>()}),
        );
    }
    !had
}

/// Subscriptions that departed sessions left behind (round 10). A session that watched a key, selected another
/// database and then went away is still listed for the key (the clean-up at disconnect covers the selected database
/// only): its channel is closed. Any number of such entries before, between and behind a LIVE subscription must not
/// cost the live one anything: it hears of every committed change of the key, for as long as it stays, and so does a
/// second live subscriber. `strategy` is the conflict strategy of the database (C19 runs this on a newer database and
/// sends stale versioned writes, which are committed there). Returns (cases, notifications judged).
pub fn leftover_subscriptions_part(v: &Verdicts, check: &str, strategy: &str) -> (u64, u64) {
    let (node, _adm) = mem_node(&[("lo", strategy), ("elsewhere", "none")]);
    let dbs = node.dbs.clone();
    let (mut cases, mut judged) = (0u64, 0u64);
    let mut keyn = 0u64;
    for dead_before in 0..=3usize {
        for dead_between in 0..=2usize {
            for dead_after in 0..=2usize {
                for how_left in ["selected-another-database-then-disconnected", "watched-twice-then-selected-another-database-then-disconnected", "channel-dropped-without-any-disconnect-handling"] {
                    if dead_before + dead_between + dead_after == 0 && how_left != "selected-another-database-then-disconnected" {
                        continue;
                    }
                    cases += 1;
                    keyn += 1;
                    let key = format!("lk{}", keyn);
                    let mut w = Session::new();
                    w.call(&dbs, "use-db lo tok");
                    w.call(&dbs, &format!("set {} 0", key));
                    let depart = |n: usize| {
                        for _ in 0..n {
                            let mut d = Session::new();
                            d.call(&dbs, "use-db lo tok");
                            d.call(&dbs, &format!("watch {}", key));
                            match how_left {
                                "selected-another-database-then-disconnected" => {
                                    d.call(&dbs, "use-db elsewhere tok");
                                    d.disconnect(&dbs);
                                }
                                "watched-twice-then-selected-another-database-then-disconnected" => {
                                    d.call(&dbs, &format!("watch {}", key));
                                    d.call(&dbs, "use-db elsewhere tok");
                                    d.disconnect(&dbs);
                                }
                                _ => drop(d),
                            }
                        }
                    };
                    depart(dead_before);
                    let mut live1 = Session::new();
                    live1.call(&dbs, "use-db lo tok");
                    live1.call(&dbs, &format!("watch {}", key));
                    depart(dead_between);
                    let mut live2 = Session::new();
                    live2.call(&dbs, "use-db lo tok");
                    live2.call(&dbs, &format!("watch {}", key));
                    depart(dead_after);
                    // six committed changes of every kind; each must reach both live subscribers, in order
                    let writes: Vec<String> = vec![
                        format!("set {} a{}", key, keyn),
                        format!("set-safe {} 900 b{}", key, keyn),
                        if strategy == "newer" { format!("set-safe {} 0 stale{}", key, keyn) } else { format!("set {} c{}", key, keyn) },
                        format!("set {} 5", key),
                        format!("increment {} 2", key),
                        format!("set {} last{}", key, keyn),
                    ];
                    let mut expected: Vec<String> = vec![];
                    for (i, line) in writes.iter().enumerate() {
                        let r = w.call(&dbs, line);
                        if r.is_error() {
                            continue;
                        }
                        let (val, _) = {
                            let g = w.call_raw(&dbs, &format!("get-safe {}", key));
                            w.drain();
                            match g {
                                nundb::bo::Response::Value { value, version, .. } => (value, version),
                                _ => (String::from("?"), 0),
                            }
                        };
                        expected.push(val);
                        for (name, s) in [("first-live-subscriber", &mut live1), ("second-live-subscriber", &mut live2)] {
                            let got: Vec<String> = s.drain().into_iter().filter(|l| l.starts_with("changed ")).collect();
                            judged += 1;
                            let want = format!("changed {} {}\n", key, expected.last().unwrap());
                            if !got.iter().any(|l| *l == want) {
                                v.report(
                                    json!({"check": check, "problem": "committed-change-not-notified", "context": "subscriptions-left-behind-by-departed-sessions", "departed": how_left}),
                                    json!({"database_strategy": strategy, "departed_before_between_after_the_live_subscribers": [dead_before, dead_between, dead_after], "subscriber": name, "write_number": i + 1, "line": line,
                                           "reply": r.resp, "expected_notification": want, "got": got, "earlier_writes_were_notified": i}),
                                );
                                break;
                            }
                        }
                    }
                    for s in [w, live1, live2] {
                        s.disconnect(&dbs);
                    }
                }
            }
        }
    }
    (cases, judged)
}

/// A mutation that stores the value the key already holds is a mutation like any other (round 11): the version moves, so
/// the subscriber is told - one changed / changed-version pair per committed write, whatever the write is (plain,
/// versioned, replicated, an increment by zero, the same value again after a remove) and on every conflict strategy.
/// Returns (cases, writes judged).
pub fn same_value_part(v: &Verdicts, check: &str) -> (u64, u64) {
    let (node, _adm) = mem_node(&[("svnone", "none"), ("svnewer", "newer"), ("svarb", "arbiter")]);
    let dbs = node.dbs.clone();
    let (mut cases, mut judged) = (0u64, 0u64);
    for db in ["svnone", "svnewer", "svarb"] {
        let forms: Vec<(&str, Vec<String>)> = vec![
            ("plain-set-twice", vec!["set {k} on".into(), "set {k} on".into(), "set {k} on".into()]),
            ("versioned-set-of-the-held-value", vec!["set {k} on".into(), "set-safe {k} 900 on".into(), "set-safe {k} 1900 on".into()]),
            ("replicated-set-of-the-held-value", vec!["set {k} on".into(), format!("replicate {} {{k}} -1 on", db), format!("replicate {} {{k}} 2900 on", db)]),
            ("increment-by-zero", vec!["set {k} 7".into(), "increment {k} 0".into(), "increment {k} 0".into()]),
            ("same-value-after-a-remove", vec!["set {k} on".into(), "remove {k}".into(), "set {k} on".into(), "set {k} on".into()]),
            ("empty-value-twice", vec!["set {k} ".into(), "set {k} ".into()]),
            ("number-set-again", vec!["set {k} 5".into(), "set {k} 5".into(), "increment {k} 0".into(), "set {k} 5".into()]),
        ];
        for (name, lines) in forms {
            for who in ["token-session", "administrator-session"] {
                cases += 1;
                let key = format!("sv{}", cases);
                let mut w = Session::new();
                if who == "administrator-session" {
                    w.call(&dbs, "auth admin pwd");
                }
                w.call(&dbs, &format!("use-db {} tok", db));
                let mut sub = Session::new();
                sub.call(&dbs, &format!("use-db {} tok", db));
                sub.call(&dbs, &format!("watch {}", key));
                sub.drain();
                for (i, l) in lines.iter().enumerate() {
                    let line = l.replace("{k}", &key);
                    if line.starts_with("replicate ") && who != "administrator-session" {
                        continue;
                    }
                    let r = w.call(&dbs, &line);
                    let got = sub.drain();
                    if r.is_error() {
                        continue;
                    }
                    judged += 1;
                    let n_changed = got.iter().filter(|m| m.starts_with(&format!("changed {} ", key)) || m.trim_end() == format!("changed {}", key)).count();
                    let n_removed = got.iter().filter(|m| m.trim_end() == format!("removed {}", key)).count();
                    let is_remove = line.starts_with("remove ");
                    if (is_remove && n_removed != 1) || (!is_remove && n_changed != 1) {
                        v.report(
                            json!({"check": check, "problem": if n_changed + n_removed == 0 { "committed-change-not-notified" } else { "notified-more-than-once" }, "context": "write-of-the-value-the-key-already-holds", "form": name}),
                            json!({"database_strategy": db, "writer": who, "write_number": i + 1, "line": line, "reply": r.resp, "subscriber_got": got, "all_lines": lines}),
                        );
                        break;
                    }
                }
                w.disconnect(&dbs);
                sub.disconnect(&dbs);
            }
        }
    }
    (cases, judged)
}

pub fn run(tier: &str) -> i32 {
    quiet_panics();
    let thorough = tier == "thorough";
    let v = Verdicts::load("C03");
    let mut ev = Evidence::new("C03", tier, "exploration");
    let stats = Mutex::new(Stats { runs: 0, distinct: BTreeSet::new(), nontrivial: BTreeSet::new(), notifications: 0, mutations: 0, obligations: 0, probe_obligations: 0, stuck: 0, samples: vec![], max_inbox: 0 });
    let (cases, per_case) = if thorough { (4000, 40) } else { (300, 25) };
    sched::install_callback_inner();
    let next = std::sync::atomic::AtomicUsize::new(0);
    std::thread::scope(|sc| {
        for _ in 0..workers() {
            let (next, v, stats) = (&next, &v, &stats);
            sc.spawn(move || {
                let (mut node, mut adm) = mem_node(&[]);
                let mut dbn = 0u64;
                loop {
                    let c = next.fetch_add(1, std::sync::atomic::Ordering::SeqCst);
                    if c >= cases {
                        break;
                    }
                    let mut rng = Rng::new(seed().wrapping_mul(7_000_003).wrapping_add(c as u64));
                    let case = gen_case(&mut rng);
                    for i in 0..per_case {
                        if dbn % 1000 == 999 {
                            let (n2, a2) = mem_node(&[]);
                            node = n2;
                            adm = a2;
                        }
                        let policy = if i % 3 == 2 { Policy::Pct(3) } else { Policy::Random };
                        let ok = run_case(&case, &mut rng, policy, v, stats, &mut node, &mut adm, &mut dbn);
                        if !ok {
                            let (n2, a2) = mem_node(&[]);
                            node = n2;
                            adm = a2;
                        }
                    }
                }
            });
        }
    });
    // repeated watch of one key by one client: how many copies it gets while subscribed is not specified (1..n are
    // accepted), but one unwatch / unwatch-all ends the subscription: nothing may arrive for writes that start later,
    // and a bystander's subscription is untouched throughout
    let mut rewatch_cases = 0u64;
    {
        let (node, _adm) = mem_node(&[("rw", "none")]);
        let dbs = node.dbs.clone();
        let mut case = 0u64;
        for n_watch in [2usize, 3] {
            for end in ["unwatch k", "unwatch-all"] {
                for write in ["set k v{}", "set-safe k 90{} s{}", "increment k 1", "remove k"] {
                    for bystander_first in [false, true] {
                        case += 1;
                        rewatch_cases += 1;
                        let key = format!("rk{}", case);
                        let mut w = Session::new();
                        let mut c = Session::new();
                        let mut b = Session::new();
                        for s in [&mut w, &mut c, &mut b] {
                            s.call(&dbs, "use-db rw tok");
                        }
                        w.call(&dbs, &format!("set {} 1", key));
                        if bystander_first {
                            b.call(&dbs, &format!("watch {}", key));
                        }
                        for _ in 0..n_watch {
                            c.call(&dbs, &format!("watch {}", key));
                        }
                        if !bystander_first {
                            b.call(&dbs, &format!("watch {}", key));
                        }
                        let line = |i: u64| write.replace(" k", &format!(" {}", key)).replacen("{}", &i.to_string(), 1).replacen("{}", &i.to_string(), 1);
                        let first_ok = !w.call(&dbs, &line(1)).is_error();
                        let while_subscribed = c.drain().iter().filter(|l| l.starts_with("changed ") || l.starts_with("removed ")).count();
                        let bystander_1 = b.drain().iter().filter(|l| l.starts_with("changed ") || l.starts_with("removed ")).count();
                        c.call(&dbs, &end.replace(" k", &format!(" {}", key)));
                        c.drain();
                        // (a refused write — stale version, non-numeric value — notifies nobody)
                        let later_ok = [w.call(&dbs, &format!("set {} {}", key, 500 + case)), w.call(&dbs, &line(2))].iter().filter(|r| !r.is_error()).count();
                        let after: Vec<String> = c.drain();
                        let bystander_2 = b.drain().iter().filter(|l| l.starts_with("changed ") || l.starts_with("removed ")).count();
                        let kind = write.split(' ').next().unwrap();
                        if (first_ok && while_subscribed == 0) || while_subscribed > n_watch || (!first_ok && while_subscribed != 0) {
                            v.report(json!({"check": "watch", "problem": if while_subscribed == 0 { "committed-change-not-notified" } else { "more-notifications-than-subscriptions" }, "context": "client-watched-the-key-more-than-once", "op": kind}), json!({"watches": n_watch, "write": line(1), "notifications": while_subscribed}));
                        }
                        if !after.is_empty() {
                            v.report(json!({"check": "watch", "problem": "notified-after-unsubscribing", "context": "client-watched-the-key-more-than-once", "ended_by": end.split(' ').next().unwrap()}), json!({"watches": n_watch, "ended_by": end, "later_writes": [format!("set {} {}", key, 500 + case), line(2)], "received": after}));
                        }
                        if bystander_1 != first_ok as usize || bystander_2 != later_ok {
                            v.report(json!({"check": "watch", "problem": "bystander-subscription-disturbed", "context": "another-client-watched-the-key-more-than-once"}), json!({"watches": n_watch, "bystander_got": [bystander_1, bystander_2], "expected": [first_ok as usize, later_ok], "ended_by": end, "write": write}));
                        }
                        for s in [w, c, b] {
                            s.disconnect(&dbs);
                        }
                    }
                }
            }
        }
    }
    let same_value = same_value_part(&v, "watch");
    ev.set("writes_of_the_value_the_key_already_holds", json!({"cases": same_value.0, "writes_judged": same_value.1}));
    let leftover = leftover_subscriptions_part(&v, "watch", "none");
    ev.set("subscriptions_left_behind_by_departed_sessions", json!({"cases": leftover.0, "notifications_judged": leftover.1}));
    // free-running part: real threads, no scheduler. (a) several clients subscribe to one key at the same instant: each
    // acknowledged subscription must be there afterwards; (b) one subscriber stays while others churn (watch / unwatch /
    // unwatch-all on the same key) and a writer writes: the subscriber gets every value once, in order, and the churners
    // nothing once they have left.
    let stress_rounds = if thorough { 20_000 } else { 2_500 };
    let mut stress_stats = (0u64, 0u64);
    {
        sched::clear_callback();
        let (node, _adm) = mem_node(&[("st", "none")]);
        let dbs = node.dbs.clone();
        let mut writer = Session::new();
        writer.call(&dbs, "use-db st tok");
        'rounds: for r in 0..stress_rounds {
            let key = format!("sk{}", r);
            let n = 4;
            let barrier = std::sync::Barrier::new(n);
            let mut sessions: Vec<Session> = (0..n).map(|_| { let mut s = Session::new(); s.call(&dbs, "use-db st tok"); s }).collect();
            std::thread::scope(|sc| {
                for s in sessions.iter_mut() {
                    let (dbs, barrier, key) = (&dbs, &barrier, &key);
                    sc.spawn(move || {
                        barrier.wait();
                        s.call_raw(dbs, &format!("watch {}", key));
                    });
                }
            });
            writer.call(&dbs, &format!("set {} v{}", key, r));
            stress_stats.0 += 1;
            for (i, s) in sessions.iter_mut().enumerate() {
                let got = s.drain();
                if !got.iter().any(|l| l.trim_end() == format!("changed {} v{}", key, r)) {
                    v.report(json!({"check": "watch", "problem": "subscription-lost", "detail": "clients-subscribed-at-the-same-instant", "engine": "free-running-threads"}), json!({"round": r, "client": i, "clients": n, "received": got}));
                    break 'rounds;
                }
            }
            for s in sessions {
                s.disconnect(&dbs);
            }
        }
        let churn_rounds = stress_rounds / 25;
        'churn: for r in 0..churn_rounds {
            let key = format!("ck{}", r);
            let mut stable = Session::new();
            stable.call(&dbs, "use-db st tok");
            stable.call(&dbs, &format!("watch {}", key));
            let writes = 40;
            let mut churners: Vec<Session> = (0..2).map(|_| { let mut s = Session::new(); s.call(&dbs, "use-db st tok"); s }).collect();
            std::thread::scope(|sc| {
                for (ci, s) in churners.iter_mut().enumerate() {
                    let (dbs, key) = (&dbs, &key);
                    sc.spawn(move || {
                        for j in 0..30 {
                            s.call_raw(dbs, &format!("watch {}", key));
                            s.drain();
                            s.call_raw(dbs, if (j + ci) % 3 == 0 { "unwatch-all".to_string() } else { format!("unwatch {}", key) }.as_str());
                            s.drain();
                        }
                    });
                }
                let (dbs, key, writer) = (&dbs, &key, &mut writer);
                sc.spawn(move || {
                    for j in 0..writes {
                        writer.call_raw(dbs, &format!("set {} w{}", key, j));
                    }
                });
            });
            for s in churners.iter_mut() {
                s.drain();
            }
            writer.call(&dbs, &format!("set {} last", key));
            stress_stats.1 += 1;
            let got: Vec<String> = stable.drain().iter().filter(|l| l.starts_with("changed ")).map(|l| l.trim_end().to_string()).collect();
            let want: Vec<String> = (0..writes).map(|j| format!("changed {} w{}", key, j)).chain(std::iter::once(format!("changed {} last", key))).collect();
            if got != want {
                let problem = if got.len() < want.len() { "committed-change-not-notified" } else { "notification-duplicated-or-reordered" };
                v.report(json!({"check": "watch", "problem": problem, "detail": "subscriber-stays-while-others-churn", "engine": "free-running-threads"}), json!({"round": r, "expected": want.len(), "received": got.len(), "first_difference": got.iter().zip(want.iter()).position(|(a, b)| a != b)}));
                break 'churn;
            }
            for (ci, s) in churners.iter_mut().enumerate() {
                let late = s.drain();
                if !late.is_empty() {
                    v.report(json!({"check": "watch", "problem": "notified-after-unsubscribing", "context": "churning-client", "engine": "free-running-threads"}), json!({"round": r, "client": ci, "received": late}));
                    break 'churn;
                }
            }
            stable.disconnect(&dbs);
            for s in churners {
                s.disconnect(&dbs);
            }
        }
    }
    // a subscriber with a backlog: its connection does not take the queued lines for a while (a burst of writes, a slow
    // client) while the keys it watches are written; when it takes them again, every committed change is there, both
    // lines of it (changed, changed-version), in the order of the commits. (The 100-message bound of a session's channel
    // applies to the replies of its own commands; a notification is sent through a handle of its own.)
    let mut backlog_stats = (0u64, 0u64, 0u64);
    {
        let (node, _adm) = mem_node(&[("bl", "none")]);
        let dbs = node.dbs.clone();
        let mut writer = Session::new();
        writer.call(&dbs, "use-db bl tok");
        let shapes: Vec<(usize, usize)> = if thorough { vec![(45, 1), (60, 1), (99, 1), (101, 1), (150, 1), (400, 1), (40, 3), (70, 3), (300, 4), (1500, 2)] } else { vec![(45, 1), (60, 1), (101, 1), (150, 1), (70, 3), (400, 2)] };
        for (round, (writes, nkeys)) in shapes.into_iter().enumerate() {
            for kind in ["set", "set-safe", "increment"] {
                let mut sub = Session::new();
                sub.call(&dbs, "use-db bl tok");
                let keys: Vec<String> = (0..nkeys).map(|i| format!("b{}{}k{}", round, kind, i)).collect();
                for k in &keys {
                    sub.call(&dbs, &format!("watch {}", k));
                }
                sub.drain();
                let mut want: Vec<String> = vec![];
                for j in 0..writes {
                    let k = &keys[j % nkeys];
                    let n = j / nkeys; // number of earlier writes of this key = version of the stored value after this one - 1 ... see below
                    let (line, val, ver) = match kind {
                        "set" => (format!("set {} {}", k, 7000 + j), format!("{}", 7000 + j), n as i32 + 1),
                        "set-safe" => (format!("set-safe {} {} {}", k, n, 7000 + j), format!("{}", 7000 + j), n as i32 + 1),
                        _ => (format!("increment {} 1", k), format!("{}", n + 1), n as i32 + 1),
                    };
                    if writer.call(&dbs, &line).is_error() {
                        v.inconclusive("backlog part: a write of the burst was refused");
                    }
                    let _ = ver;
                    want.push(format!("{} {}", k, val));
                }
                backlog_stats.0 += 1;
                backlog_stats.1 += writes as u64;
                let got = sub.drain();
                backlog_stats.2 = backlog_stats.2.max(got.len() as u64);
                let changed: Vec<String> = got.iter().filter(|l| l.starts_with("changed ")).map(|l| l.trim_end()["changed ".len()..].to_string()).collect();
                // changed-version <key> <version> <value>
                let versioned: Vec<String> = got.iter().filter(|l| l.starts_with("changed-version ")).map(|l| { let p: Vec<&str> = l.trim_end().splitn(4, ' ').collect(); format!("{} {}", p.get(1).unwrap_or(&""), p.get(3).unwrap_or(&"")) }).collect();
                for (name, list) in [("changed", &changed), ("changed-version", &versioned)] {
                    if list != &want {
                        let first = list.iter().zip(want.iter()).position(|(a, b)| a != b).unwrap_or(list.len().min(want.len()));
                        let problem = if list.len() < want.len() { "committed-change-not-notified" } else { "notification-duplicated-or-reordered" };
                        v.report(json!({"check": "watch", "problem": problem, "detail": "subscriber-with-a-backlog", "line": name, "op": kind}), json!({"writes": writes, "watched_keys": nkeys, "lines_received": list.len(), "first_difference_at_write": first, "queued_lines_when_it_read_again": got.len()}));
                        break;
                    }
                }
                sub.disconnect(&dbs);
            }
        }
    }
    ev.set("subscribers_with_a_backlog", json!({"bursts": backlog_stats.0, "writes_notified_while_nothing_was_taken": backlog_stats.1, "largest_backlog_lines": backlog_stats.2}));
    // a subscriber over the real TCP transport that does not read its socket for a while (the notifications fill the
    // socket buffers and the connection's write buffer), then reads again: up to the end of its connection it has been
    // sent every committed change in order - the server may end the connection of a client it cannot write to (a
    // disconnect ends the subscription), it may not leave holes
    let mut slow_runs = 0u64;
    let mut slow_received = 0u64;
    for (writes, len) in if thorough { vec![(2000usize, 4000usize), (6000, 900), (800, 20_000), (3000, 2500)] } else { vec![(2000, 4000), (5000, 900)] } {
        let dir = fresh_dir("c03-slow");
        match crate::transports::slow_tcp_subscriber(&dir, writes, len) {
            Some(sl) => {
                slow_runs += 1;
                slow_received += sl.received.len() as u64;
                let hole = sl.received.iter().enumerate().position(|(i, n)| *n != i as u64);
                let ctx = json!({"writes": sl.writes, "value_bytes": len, "received": sl.received.len(), "first_hole_at": hole, "around": hole.map(|h| sl.received[h.saturating_sub(2)..(h + 3).min(sl.received.len())].to_vec()), "connection_ended_by_server": sl.ended_by_server});
                if hole.is_some() {
                    v.report(json!({"check": "watch", "problem": "committed-change-not-notified", "detail": "tcp-subscriber-that-fell-behind", "engine": "real-tcp-transport"}), ctx);
                } else if !sl.ended_by_server && (sl.received.len() as u64) < sl.writes {
                    v.report(json!({"check": "watch", "problem": "committed-change-not-notified", "detail": "tcp-subscriber-that-fell-behind-lost-the-tail", "engine": "real-tcp-transport"}), ctx);
                }
            }
            None => v.inconclusive("could not bind loopback ports"),
        }
    }
    ev.set("tcp_subscribers_that_fell_behind", json!({"runs": slow_runs, "notifications_received_in_order": slow_received}));
    let st = stats.into_inner().unwrap();
    ev.evaluations = st.runs;
    ev.distinct_nontrivial = st.nontrivial.len() as u64;
    ev.rule = format!("{} generated client mixes (3-4 clients x 2-4 ops; writers: set / set-safe accepted+refused / increment / remove, admin link: replicate / replicate-remove / replicate-increment; others: watch / unwatch / unwatch-all / disconnect on keys a,b,n) x {} seeded token-passing schedules (random + PCT), followed by a sequential probe write per key; distinct = hash of the (thread,site,call,return) sequence; non-trivial = distinct schedules in which a mutation of a key overlaps the start or the end of some client's subscription to that key", cases, per_case);
    ev.samples = st.samples.clone();
    ev.set("repeated_watch_cases", json!(rewatch_cases));
    ev.set("free_running_rounds", json!({"clients_subscribing_at_the_same_instant": stress_stats.0, "subscriber_stays_while_others_churn": stress_stats.1}));
    ev.set("distinct_schedules", json!(st.distinct.len()));
    ev.set("mutations_observed", json!(st.mutations));
    ev.set("notifications_observed", json!(st.notifications));
    ev.set("must_notify_obligations_checked", json!(st.obligations));
    ev.set("probe_obligations_checked", json!(st.probe_obligations));
    ev.set("max_undrained_inbox", json!(st.max_inbox));
    ev.set("stuck_runs", json!(st.stuck));
    ev.set("known_findings_seen", json!(v.known_seen()));
    ev.violations = v.violation_count();
    ev.assumptions = vec![
        "in the interleaved part a client never watches a key it already watches; the repeated-watch part accepts 1..n copies per mutation for a client that watched n times (unspecified) and judges only the end of the subscription and the bystander".into(),
        "a mutation overlapping the first or last instant of a subscription may or may not be notified; only mutations entirely inside must be, only mutations overlapping may be".into(),
        "inboxes are drained after every operation, far below the documented 100-message back-pressure limit".into(),
        "disconnect = unwatch-all + Client::left, the sequence all three transports execute".into(),
    ];
    ev.write();
    cleanup_scratch();
    let code = v.finish(tier);
    if code == 0 && (st.nontrivial.len() < 300 || st.obligations < 1000) {
        println!("INCONCLUSIVE property=C03 reason=coverage floor not met ({} non-trivial schedules, {} obligations)", st.nontrivial.len(), st.obligations);
        return 2;
    }
    println!("C03 {}: {} runs, {} distinct schedules, {} non-trivial, {} mutations, {} notifications, {} obligations, {} violations", tier, st.runs, st.distinct.len(), st.nontrivial.len(), st.mutations, st.notifications, st.obligations, v.violation_count());
    code
}
