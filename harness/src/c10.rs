//! C10 — no client input can crash a handler or wedge the node.
//! Grammar + random fuzzing of the real request handler with a crash oracle:
//! catch_unwind around every call, poison scan of every lock, the real
//! replication loop and supervisor fed with whatever the handler enqueued, a
//! probe client after every line. (Engine H drives the same corpus through the
//! real TCP / HTTP / WebSocket servers: see transports.rs.)
use crate::common::evidence::Evidence;
use crate::common::kf::Verdicts;
use crate::common::node::{poisoned, Node, NodeOpts};
use crate::common::rng::Rng;
use crate::common::session::Session;
use crate::common::*;
use nundb::bo::ClusterRole;
use serde_json::json;
use std::collections::BTreeSet;
use std::sync::{Arc, Mutex};

#[derive(Clone, Copy, Debug, PartialEq)]
pub enum Who {
    Anon,
    Token,
    Admin,
    /// authenticated administrator that never selected a database
    AdminNoDb,
}

pub fn arg_pool() -> Vec<(&'static str, String)> {
    vec![
        ("empty", "".into()),
        ("spaces", "   ".into()),
        ("word", "abc".into()),
        ("key", "k".into()),
        ("db", "db".into()),
        ("token", "tok".into()),
        ("secure", "$$token".into()),
        ("zero", "0".into()),
        ("one", "1".into()),
        ("neg", "-1".into()),
        ("i32max", "2147483647".into()),
        ("i32max-1", "2147483646".into()),
        ("i32min", "-2147483648".into()),
        ("i32over", "2147483648".into()),
        ("u64max", "18446744073709551615".into()),
        ("u64over", "18446744073709551616".into()),
        ("u128max", "340282366920938463463374607431768211455".into()),
        ("u128over", "340282366920938463463374607431768211456".into()),
        ("float", "1.5".into()),
        ("nonnum", "12x".into()),
        ("semicolon", "a;b".into()),
        ("newline", "a\nb".into()),
        ("crlf", "a\r\n".into()),
        ("long", "x".repeat(10_000)),
        ("nonascii", "ключ-鍵-🔑".into()),
        ("nul", "a\0b".into()),
        ("pipe", "a|b|".into()),
        ("star", "*".into()),
        ("true", "true".into()),
        ("addr", "127.0.0.1:1".into()),
        ("self", "127.0.0.1:4998".into()),
        ("candidate", "candidate".into()),
        ("win", "win".into()),
        ("perm", "rwix *|r".into()),
        ("slash", "../x".into()),
        ("admin-db", "$admin".into()),
        // long runs of multi-byte characters at every byte alignment: whatever fixed-size buffer, log cap or chunk boundary
        // (256 ... 65536) the text meets, some variant has a character straddling it
        ("mb2-a", "é".repeat(2100)),
        ("mb2-b", format!("x{}", "é".repeat(2100))),
        ("mb3-a", "漢".repeat(1400)),
        ("mb3-b", format!("x{}", "漢".repeat(1400))),
        ("mb3-c", format!("xx{}", "漢".repeat(1400))),
        ("mb4-a", "🔑".repeat(1100)),
        ("mb4-b", format!("x{}", "🔑".repeat(1100))),
        ("mb4-c", format!("xx{}", "🔑".repeat(1100))),
        ("mb4-d", format!("xxx{}", "🔑".repeat(1100))),
        ("mb2-64k-a", "é".repeat(33_000)),
        ("mb2-64k-b", format!("x{}", "é".repeat(33_000))),
    ]
}

pub fn gen_line(r: &mut Rng, words: &[String], pool: &[(&'static str, String)]) -> (String, String) {
    if r.chance(1, 12) {
        // raw random bytes (lossy decoded for the in-process path)
        let n = r.range(0, 40);
        let bytes: Vec<u8> = (0..n).map(|_| r.below(256) as u8).collect();
        return (String::from_utf8_lossy(&bytes).to_string(), "random/bytes".into());
    }
    let w = r.pick(words).clone();
    let n = r.below(6);
    let mut line = w.clone();
    let mut classes = vec![];
    for _ in 0..n {
        let (c, a) = r.pick(pool);
        line.push(' ');
        line.push_str(a);
        classes.push(*c);
    }
    if r.chance(1, 10) {
        line.push(';');
    }
    (line, format!("{}/{}", w, classes.join(",")))
}

pub struct Stats {
    pub lines: u64,
    pub sequences: u64,
    pub classes: BTreeSet<String>,
    pub word_class: BTreeSet<String>,
    pub probes: u64,
    pub repl_msgs: u64,
    pub sup_msgs: u64,
    pub samples: Vec<serde_json::Value>,
}

pub fn install_null_transport() {
    // links requested by the supervisor close immediately (peer unreachable), nothing touches the network
    nundb::verif::set_transport(Some(Arc::new(|_req: nundb::verif::LinkRequest| {})));
}

struct Fx {
    node: Node,
    probe: Session,
    probe_n: u64,
}

fn fixture(dir: &str) -> Fx {
    let mut o = NodeOpts::simple(dir);
    o.addr = "127.0.0.1:4998".into();
    o.real_loop = true;
    o.real_supervisor = true;
    let node = Node::start(o);
    node.set_role(ClusterRole::Primary);
    let mut adm = Session::new();
    adm.call(&node.dbs, "auth admin pwd");
    adm.call(&node.dbs, "create-db db tok");
    adm.call(&node.dbs, "create-db adb tok arbiter");
    let mut probe = Session::new();
    probe.call(&node.dbs, "use-db db tok");
    Fx { node, probe, probe_n: 0 }
}

fn short_line(l: &str) -> String {
    if l.len() > 120 {
        format!("{}…({} bytes)", l.chars().take(100).collect::<String>(), l.len())
    } else {
        l.to_string()
    }
}

fn first_panic_frame(msg: &str) -> String {
    // "panicked at file:line:col:\nmessage" -> keep file + first line of message without numbers
    let m = msg.lines().next().unwrap_or("");
    m.chars().filter(|c| !c.is_ascii_digit()).collect()
}

fn run_sequence(who: Who, lines: &[(String, String)], dir: &str, v: &Verdicts, stats: &Mutex<Stats>) {
    run_sequence_after(&[], who, lines, dir, v, stats)
}

/// `departed`: sessions that ran a script and are gone before the session under test starts: (script, clean) where clean =
/// the disconnect sequence of the transports (unwatch-all + left) ran, not clean = the connection's thread died (the
/// client's channel is simply dropped). What they leave behind (subscriptions in a database they no longer had selected,
/// duplicate subscriptions, an arbiter registration) is state every later command has to cope with.
fn run_sequence_after(departed: &[(Vec<String>, bool)], who: Who, lines: &[(String, String)], dir: &str, v: &Verdicts, stats: &Mutex<Stats>) {
    let mut fx = fixture(dir);
    let dbs = fx.node.dbs.clone();
    for (script, clean) in departed {
        let mut g = Session::new();
        for l in script {
            let _ = std::panic::catch_unwind(std::panic::AssertUnwindSafe(|| g.call(&dbs, l)));
        }
        if *clean {
            g.disconnect(&dbs);
        } else {
            drop(g);
        }
    }
    let mut s = Session::new();
    match who {
        Who::Anon => {}
        Who::Token => {
            s.call(&dbs, "use-db db tok");
        }
        Who::Admin => {
            s.call(&dbs, "auth admin pwd");
            s.call(&dbs, "use-db db tok");
        }
        Who::AdminNoDb => {
            s.call(&dbs, "auth admin pwd");
        }
    }
    fx.node.pump();
    fx.node.pump_sup();
    let mut trace: Vec<serde_json::Value> = vec![];
    let mut n_lines = 0u64;
    let mut probes = 0u64;
    let mut repl = 0u64;
    let mut sup = 0u64;
    let report = |v: &Verdicts, problem: &str, line: &(String, String), detail: String, trace: &Vec<serde_json::Value>| -> bool {
        let word = line.1.split('/').next().unwrap_or("").to_string();
        let sig = json!({"check": "crash", "problem": problem, "word": word, "who": format!("{:?}", who), "detail": first_panic_frame(&detail)});
        v.report(sig, json!({"session": format!("{:?}", who), "line": short_line(&line.0), "arg_classes": line.1, "detail": detail, "trace": trace}))
    };
    // the name of the conflict record the session was last told about (it carries an operation id nobody can guess):
    // a later line may name it as {conflict}
    let mut last_conflict = String::from("$conflicts_none_0");
    'seq: for line in lines {
        n_lines += 1;
        let substituted = (line.0.replace("{conflict}", &last_conflict), line.1.clone());
        let line = &substituted;
        let res = {
            let _watch = hang::guard("command-handler", &short_line(&line.0));
            std::panic::catch_unwind(std::panic::AssertUnwindSafe(|| s.call(&dbs, &line.0)))
        };
        if let Ok(r) = &res {
            if let Some(p) = r.resp.find("$conflicts_") {
                last_conflict = r.resp[p..].split(|c: char| c == ' ' || c == ',' || c == '\n').next().unwrap_or("").to_string();
            }
        }
        match &res {
            Ok(r) => trace.push(json!({"line": short_line(&line.0), "reply": short_line(&r.resp)})),
            Err(e) => {
                trace.push(json!({"line": short_line(&line.0), "reply": "PANIC", "msg": panic_msg(e)}));
                report(v, "handler-panicked", line, panic_msg(e), &trace);
                break 'seq;
            }
        }
        // the service loops process what the handler enqueued
        loop {
            let mut moved = false;
            while let Some(m) = fx.node.take_repl() {
                moved = true;
                repl += 1;
                let r = std::panic::catch_unwind(std::panic::AssertUnwindSafe(|| fx.node.feed_repl(m.clone())));
                if let Err(e) = r {
                    trace.push(json!({"replication-loop": "PANIC", "message": short_line(&m), "msg": panic_msg(&e)}));
                    report(v, "replication-loop-panicked", line, panic_msg(&e), &trace);
                    break 'seq;
                }
            }
            while let Some(m) = fx.node.take_sup() {
                moved = true;
                sup += 1;
                let r = std::panic::catch_unwind(std::panic::AssertUnwindSafe(|| fx.node.feed_sup(m.clone())));
                if let Err(e) = r {
                    trace.push(json!({"supervisor": "PANIC", "message": short_line(&m), "msg": panic_msg(&e)}));
                    report(v, "supervisor-panicked", line, panic_msg(&e), &trace);
                    break 'seq;
                }
            }
            if !moved {
                break;
            }
        }
        // the timer action, when something was queued for snapshot
        if !fx.node.dbs.to_snapshot.read().map(|q| q.is_empty()).unwrap_or(true) {
            let r = std::panic::catch_unwind(std::panic::AssertUnwindSafe(|| fx.node.declutter()));
            if let Err(e) = r {
                trace.push(json!({"snapshot-timer": "PANIC", "msg": panic_msg(&e)}));
                report(v, "snapshot-timer-panicked", line, panic_msg(&e), &trace);
                break 'seq;
            }
        }
        let p = poisoned(&dbs);
        if !p.is_empty() {
            report(v, "lock-poisoned", line, p.join(","), &trace);
            break 'seq;
        }
        // probe from a second client
        fx.probe_n += 1;
        probes += 1;
        let val = format!("p{}", fx.probe_n);
        let pr = std::panic::catch_unwind(std::panic::AssertUnwindSafe(|| {
            let a = fx.probe.call(&dbs, &format!("set probe {}", val));
            let b = fx.probe.call(&dbs, "get probe");
            (a, b)
        }));
        match pr {
            Ok((a, b)) => {
                // (an administrator who stored a permission list for all token sessions may have taken the probe's access
                // away: a refusal for lack of permission is an orderly answer there)
                let restricted = line.1.ends_with("after-a-permission-record-stored-as-a-plain-key") && (a.resp.contains("permission denied") || b.resp.contains("permission denied"));
                if !restricted && (a.resp != "Ok" || b.pushed != vec![format!("value {}\n", val)]) {
                    trace.push(json!({"probe": [a.resp, b.resp, b.pushed]}));
                    report(v, "probe-client-failed", line, format!("{} / {}", a.resp.chars().take(60).collect::<String>(), b.resp.chars().take(60).collect::<String>()), &trace);
                    break 'seq;
                }
            }
            Err(e) => {
                report(v, "probe-client-panicked", line, panic_msg(&e), &trace);
                break 'seq;
            }
        }
        while fx.node.take_repl().is_some() {}
    }
    let mut st = stats.lock().unwrap();
    st.sequences += 1;
    st.lines += n_lines;
    st.probes += probes;
    st.repl_msgs += repl;
    st.sup_msgs += sup;
    for l in lines {
        st.word_class.insert(format!("{}|{:?}", l.1, who));
        let w = l.1.split('/').next().unwrap_or("");
        for c in l.1.split('/').nth(1).unwrap_or("").split(',') {
            st.classes.insert(format!("{}/{}", w, c));
        }
    }
    if st.samples.len() < 5 && lines.len() > 1 {
        st.samples.push(json!({"session": format!("{:?}", who), "trace": trace}));
    }
}

pub fn words() -> Vec<String> {
    let mut w = nundb::bo::Request::command_list();
    w.sort();
    w.push("bogus".into());
    w.push("".into());
    w
}

/// hand-written hostile lines that the random grammar reaches only rarely
pub fn targeted() -> Vec<(Who, Vec<String>)> {
    let mut t: Vec<(Who, Vec<String>)> = vec![];
    for who in [Who::Anon, Who::Token, Who::Admin, Who::AdminNoDb] {
        for l in [
            "election candidate x", "election candidate", "election candidate 1", "election candidate -1 n", "election candidate 340282366920938463463374607431768211456 n",
            "set-safe k 2147483647 v", "set-safe k 2147483646 v", "increment k 2147483647", "increment k -2147483648", "resolve 1 db k 2147483647 v",
            "replicate db k 2147483647 v", "replicate-increment db k 2147483647", "rp 1 rp 2 rp 3 get k", "rp 18446744073709551615 set k v", "ack 1", "ack x y",
            "use-db", "use-db db", "create-db", "create-db a", "snapshot", "snapshot true $admin", "snapshot false ../x", "create-db ../x t", "create-db a/b t",
            "debug", "debug force-election", "replicate-since n x", "replicate-since n 18446744073709551615", "replicate-snapshot", "replicate-snapshot nodb true", "set-permissions", "set-permissions u",
            "keys \u{0}", "watch", "unwatch", "get", "remove", "remove $$token", "arbiter x", "resolve", "resolve x", "resolve 1", "resolve 1 db", "resolve 1 db k", "resolve 1 db k 1",
            "join", "leave", "join 127.0.0.1:4998", "leave 127.0.0.1:4998", "set-primary 127.0.0.1:4998", "set-primary", "set-secoundary",
        ] {
            t.push((who, vec![l.to_string()]));
        }
        // two-step overflow paths
        t.push((who, vec!["set-safe k 2147483646 v".into(), "set k w".into(), "increment k".into(), "remove k".into(), "get-safe k".into()]));
        t.push((who, vec!["set k 2147483647".into(), "increment k".into(), "increment k 1".into(), "get k".into()]));
        t.push((who, vec!["set k -2147483648".into(), "increment k -1".into(), "get k".into()]));
        t.push((who, vec!["use-db adb tok".into(), "arbiter".into(), "set k 1".into(), "set k 2".into(), "set-safe k 0 c".into(), "set-safe k 2147483647 d".into(), "resolve 1 adb k 2147483647 x".into(), "resolve 1 adb k -2 x".into()]));
        // the record of a pending conflict is an ordinary key: removed, overwritten or resolved twice by a client while the
        // key still waits for it
        for tamper in ["remove {conflict}", "set {conflict} garbage", "set {conflict} resolved x", "remove $conflicts_k*", "increment {conflict}"] {
            t.push((who, vec!["use-db adb tok".into(), "arbiter".into(), "set k 1".into(), "set k 2".into(), "set-safe k 0 c".into(), tamper.into(), "set k d".into(), "set-safe k 0 e".into(), "get-safe k".into(),
                "arbiter".into(), "resolve 1 adb k 0 x".into(), "set k f".into(), "keys $conflicts".into()]));
        }
        t.push((who, vec!["join 127.0.0.1:1".into(), "join 127.0.0.1:1".into(), "leave 127.0.0.1:1".into(), "replicate-join 127.0.0.1:1".into(), "replicate-join 127.0.0.1:1".into()]));
        t.push((who, vec!["set-primary 127.0.0.1:2".into(), "set-primary 127.0.0.1:2".into(), "set-primary 127.0.0.1:3".into(), "election win".into(), "set-primary 127.0.0.1:2".into()]));
        t.push((who, vec!["create-db x/y t".into(), "snapshot false x/y".into(), "use-db $admin pwd".into(), "snapshot true".into(), "snapshot false db|adb|$admin".into()]));
        // catch-up requests of a known member against a non-empty operation log: since before, inside, after every record
        for since in ["0", "1", "9223372036854775807", "18446744073709551615"] {
            t.push((who, vec!["replicate-join 127.0.0.1:1".into(), "set k v".into(), "set k2 w".into(), "increment n 2".into(), format!("replicate-since 127.0.0.1:1 {}", since), "cluster-state".into(), "set k x".into()]));
        }
        // the in-conflict marker (-2) presented by a client as a version
        t.push((who, vec!["use-db adb tok".into(), "arbiter".into(), "set-safe k -2 v".into(), "set-safe k -2 v".into(), "set k w".into(), "get-safe k".into()]));
        t.push((who, vec!["use-db adb tok".into(), "arbiter".into(), "set-safe $connections -2 v".into(), "set-safe $connections -2 v".into(), "set $connections w".into(), "use-db db tok".into(), "use-db adb tok".into()]));
        t.push((who, vec!["set-safe k -2 v".into(), "set-safe k -2 v".into(), "set k w".into(), "set-safe k -5 v".into(), "set-safe nk -1 v".into(), "set-safe nk2 -2147483648 v".into(), "increment nk2".into(), "get-safe nk2".into()]));
        // a database whose name carries a separator of the internal message formats, then every command that names it
        // names longer than a file name may be (the name is part of the data file names)
        for long in ["n".repeat(241), "n".repeat(256), "é".repeat(128), "n".repeat(5000)] {
            t.push((who, vec![format!("create-db {} tok", long), format!("use-db {} tok", long), "set k v".into(), format!("snapshot false {}", long), "snapshot true".into(), "set k w".into(), "snapshot false".into()]));
        }
        for odd in ["a\nb", "a\rb", "a\tb", "a|b", "a\u{b}b", "a;b", " a", "a\u{a0}b", "a\r\n", "\n"] {
            t.push((who, vec![format!("create-db {} tok", odd), format!("use-db {} tok", odd), "set k v".into(), "increment n".into(), "remove k".into(), "create-user u p".into(),
                format!("snapshot false {}", odd), format!("snapshot true {}|db", odd), "snapshot false".into(), format!("replicate-snapshot {} false", odd), format!("replicate {} k 1 v", odd)]));
        }
        t.push((who, vec!["replicate nodb k 1 v".into(), "replicate-remove nodb k".into(), "replicate-increment nodb k 1".into(), "replicate-snapshot nodb".into(), "create-db db tok".into()]));
        // patterns with many wildcards against long repetitive keys (listing, permission lists, conflict listing): matching
        // must stay cheap whatever the pattern looks like - a matcher that backtracks would keep the handler busy for
        // good while it holds the database's lock
        let long_a = "a".repeat(64);
        let patterns = [format!("{}*b", "*a".repeat(24)), format!("{}b", "a*".repeat(24)), format!("{}*", "*a".repeat(24)), format!("a{}b", "*".repeat(30)), format!("{}c", "*a*b".repeat(12)), "?".repeat(40), format!("[{}]", "a*".repeat(20))];
        for pat in &patterns {
            t.push((who, vec![format!("set {} 1", long_a), format!("set {}x 2", long_a), format!("keys {}", pat), format!("ls {}", pat), format!("watch {}", pat), format!("get {}", long_a)]));
            t.push((who, vec![format!("set {} 1", long_a), "create-user pu pw".into(), format!("set-permissions pu rwi {}|r {}", pat, pat), "use-db db pu pw".into(), format!("get {}", long_a), format!("set {} 3", long_a), format!("increment {}n 1", long_a), format!("keys {}", pat), "keys".into()]));
        }
    }
    t
}

pub fn run(tier: &str) -> i32 {
    quiet_panics();
    std::env::set_var("NUN_ELECTION_TIMEOUT", "6");
    install_null_transport();
    let thorough = tier == "thorough";
    let v = Verdicts::load("C10");
    let mut ev = Evidence::new("C10", tier, "exploration");
    let stats = Mutex::new(Stats { lines: 0, sequences: 0, classes: BTreeSet::new(), word_class: BTreeSet::new(), probes: 0, repl_msgs: 0, sup_msgs: 0, samples: vec![] });
    let words = words();
    let pool = arg_pool();
    let mut cases: Vec<(Who, Vec<(String, String)>)> = vec![];
    for (who, lines) in targeted() {
        cases.push((who, lines.into_iter().map(|l| { let w = l.split(' ').next().unwrap_or("").to_string(); (l, format!("{}/targeted", w)) }).collect()));
    }
    // sessions that left something behind, then every kind of write that walks the watcher lists
    let mut departed_cases: Vec<(Vec<(Vec<String>, bool)>, Who, Vec<(String, String)>)> = vec![];
    {
        let scripts: Vec<Vec<&str>> = vec![
            vec!["use-db db tok", "watch k", "use-db adb tok"],
            vec!["use-db db tok", "watch k", "watch k", "watch n"],
            vec!["use-db db tok", "watch k", "watch n", "use-db db tok"],
            vec!["use-db adb tok", "arbiter", "watch k", "use-db db tok", "watch k"],
        ];
        let writes = ["set k v", "increment n 1", "remove k", "set k w", "set-safe k 0 x", "remove n", "increment n", "use-db adb tok", "set k 1", "set k 2", "set-safe k 0 c", "remove k", "unwatch-all", "watch k", "unwatch k"];
        for sc in &scripts {
            for n in 1..=3usize {
                for clean in [true, false] {
                    for who in [Who::Token, Who::Admin] {
                        let departed: Vec<(Vec<String>, bool)> = (0..n).map(|_| (sc.iter().map(|x| x.to_string()).collect(), clean)).collect();
                        departed_cases.push((departed, who, writes.iter().map(|l| (l.to_string(), format!("{}/after-departed-sessions", l.split(' ').next().unwrap()))).collect()));
                    }
                }
            }
        }
    }
    // records that an administrator (or a link, or an older data file) stored as plain keys, not through the command
    // that validates them: permission lists, user tokens, the database token, the connection counter. Every later
    // command of every other session reads them
    {
        let records = ["rwd *", "q", "rwix *|z a*", "", "|", "||", "r", "\u{20ac} *", "R *", "rw", "r *|", " ", "* rw", "rwix", "r k|w k|i n|x k|? *", "7 *", "r\t*"];
        let uses = ["get k", "set k v", "remove k", "increment n 1", "watch k", "keys", "keys k*", "set-safe k 0 x", "get-safe k", "use-db db pu pw", "get k", "set k v2", "increment n", "remove k", "watch n", "unwatch-all", "create-user x y", "arbiter"];
        for rec in records.iter() {
            for how in ["set {} {}", "set-safe {} 0 {}", "replicate db {} 3 {}", "rp 77 replicate db {} 3 {}"] {
                let store = |k: &str| how.replacen("{}", k, 1).replacen("{}", rec, 1).trim_end().to_string();
                let admin: Vec<String> = vec!["auth admin pwd".into(), "use-db db tok".into(), "create-user pu pw".into(), store("$$permission_$all"), store("$$permission_$pu"), store("$$permission_$"), "set k 1".into(), "set n 1".into()];
                for who in [Who::Token, Who::Anon] {
                    departed_cases.push((vec![(admin.clone(), true)], who, uses.iter().map(|l| (l.to_string(), format!("{}/after-a-permission-record-stored-as-a-plain-key", l.split(' ').next().unwrap()))).collect()));
                }
            }
        }
        for (key, vals) in [("$$user_pu", vec!["", " ", "a b", "\u{0}"]), ("$$token", vec!["t2", "a b"]), ("$connections", vec!["x", "-5", "2147483647", ""])] {
            for val in vals {
                let admin: Vec<String> = vec!["auth admin pwd".into(), "use-db db tok".into(), "create-user pu pw".into(), format!("set {} {}", key, val).trim_end().to_string(), "set k 1".into()];
                departed_cases.push((vec![(admin, true)], Who::Token, uses.iter().map(|l| (l.to_string(), format!("{}/after-a-system-record-stored-as-a-plain-key", l.split(' ').next().unwrap()))).collect()));
            }
        }
    }
    let n_targeted = cases.len();
    // systematic: every word x every single argument class, for every session kind
    for who in [Who::Anon, Who::Token, Who::Admin, Who::AdminNoDb] {
        for w in &words {
            cases.push((who, vec![(w.clone(), format!("{}/", w))]));
            for (c, a) in &pool {
                cases.push((who, vec![(format!("{} {}", w, a), format!("{}/{}", w, c))]));
                cases.push((who, vec![(format!("{} k {}", w, a), format!("{}/key,{}", w, c))]));
            }
        }
    }
    let n_systematic = cases.len() - n_targeted;
    let mut rng = Rng::new(seed());
    let n_random = if thorough { 400_000 } else { 20_000 };
    for _ in 0..n_random {
        let who = *rng.pick(&[Who::Anon, Who::Token, Who::Token, Who::Admin, Who::Admin, Who::AdminNoDb]);
        let len = rng.range(1, 4);
        cases.push((who, (0..len).map(|_| gen_line(&mut rng, &words, &pool)).collect()));
    }
    let next = std::sync::atomic::AtomicUsize::new(0);
    std::thread::scope(|sc| {
        for w in 0..workers() {
            let (next, v, stats, cases) = (&next, &v, &stats, &cases);
            sc.spawn(move || {
                let dir = fresh_dir(&format!("c10-w{}", w));
                loop {
                    let i = next.fetch_add(1, std::sync::atomic::Ordering::SeqCst);
                    if i >= cases.len() {
                        break;
                    }
                    let _ = std::fs::remove_dir_all(&dir);
                    std::fs::create_dir_all(&dir).unwrap();
                    run_sequence(cases[i].0, &cases[i].1, &dir, v, stats);
                }
            });
        }
    });
    // sequences that start after other sessions have left something behind
    {
        let dir = fresh_dir("c10-departed");
        for (departed, who, lines) in &departed_cases {
            let _ = std::fs::remove_dir_all(&dir);
            std::fs::create_dir_all(&dir).unwrap();
            run_sequence_after(departed, *who, lines, &dir, &v, &stats);
        }
    }
    // several sessions at once on one node: (a) the acknowledgements of one operation from its secondaries arrive on their
    // link threads at the same moment; (b) four sessions run random lines of the corpus concurrently. A handler panic, a
    // poisoned lock or a failing probe afterwards is a crash in the sense of the statement.
    let mut concurrent_rounds = 0u64;
    {
        let dir = fresh_dir("c10-conc");
        let fx = fixture(&dir);
        let dbs = fx.node.dbs.clone();
        let nodes = ["10.2.0.1:3014", "10.2.0.2:3014", "10.2.0.3:3014"];
        let rounds = if thorough { 40_000 } else { 4_000 };
        'acks: for r in 0..rounds {
            let op = 1_000_000 + r as u64;
            for n in nodes.iter() {
                dbs.register_pending_opp(op, "m".into(), &n.to_string());
            }
            let barrier = std::sync::Barrier::new(nodes.len());
            let panics: Mutex<Vec<String>> = Mutex::new(vec![]);
            std::thread::scope(|sc| {
                for n in nodes.iter() {
                    let (dbs, barrier, panics) = (&dbs, &barrier, &panics);
                    sc.spawn(move || {
                        let mut s = Session::new();
                        s.call(dbs, "auth admin pwd");
                        barrier.wait();
                        if let Err(e) = std::panic::catch_unwind(std::panic::AssertUnwindSafe(|| s.call(dbs, &format!("ack {} {}", op, n)))) {
                            panics.lock().unwrap().push(panic_msg(&e));
                        }
                    });
                }
            });
            concurrent_rounds += 1;
            let p = panics.into_inner().unwrap();
            let poisoned_now = poisoned(&dbs);
            if !p.is_empty() || !poisoned_now.is_empty() {
                v.report(json!({"check": "crash", "problem": if !p.is_empty() { "handler-panicked" } else { "lock-poisoned" }, "word": "ack", "who": "Admin", "detail": first_panic_frame(p.first().map(|x| x.as_str()).unwrap_or("")), "sessions": "concurrent"}),
                    json!({"round": r, "lines": nodes.iter().map(|n| format!("ack {} {}", op, n)).collect::<Vec<_>>(), "panics": p, "poisoned": poisoned_now}));
                break 'acks;
            }
        }
        // (b) random corpus lines from four sessions at once (token and admin sessions; words that reconfigure the cluster
        // left out). The threads are not scoped: sessions that block each other for good must end in a report, not a hang.
        let skip = ["join", "leave", "replicate-join", "replicate-leave", "set-primary", "set-secoundary", "election", "debug"];
        let corpus: Arc<Vec<(String, String)>> = Arc::new(cases.iter().flat_map(|c| c.1.iter()).filter(|l| !skip.contains(&l.1.split('/').next().unwrap_or("")) && l.0.len() < 2000).cloned().collect());
        let per_thread = if thorough { 20_000 } else { 2_500 };
        let panics: Arc<Mutex<Vec<(String, String)>>> = Arc::new(Mutex::new(vec![]));
        let (done_tx, done_rx) = std::sync::mpsc::channel::<u64>();
        for t in 0..4u64 {
            let (dbs, corpus, panics, done_tx, dir) = (dbs.clone(), corpus.clone(), panics.clone(), done_tx.clone(), dir.clone());
            let seed0 = seed();
            std::thread::spawn(move || {
                nundb::verif::set_dir(Some(dir));
                let mut r = Rng::new(seed0.wrapping_mul(31).wrapping_add(t));
                let mut s = Session::new();
                if t % 2 == 0 {
                    s.call(&dbs, "auth admin pwd");
                }
                s.call(&dbs, "use-db db tok");
                for _ in 0..per_thread {
                    let l = r.pick(&corpus);
                    if let Err(e) = std::panic::catch_unwind(std::panic::AssertUnwindSafe(|| s.call(&dbs, &l.0))) {
                        panics.lock().unwrap().push((l.1.clone(), panic_msg(&e)));
                        break;
                    }
                }
                let _ = done_tx.send(t);
            });
        }
        drop(done_tx);
        let mut finished = 0;
        let deadline = std::time::Instant::now() + std::time::Duration::from_secs(if thorough { 900 } else { 240 });
        while finished < 4 {
            match done_rx.recv_timeout(std::time::Duration::from_secs(1)) {
                Ok(_) => finished += 1,
                Err(_) => {
                    if std::time::Instant::now() > deadline {
                        break;
                    }
                }
            }
        }
        // (c) directed pairs: a command that walks the database map (and may take its lock again further down) against a
        // stream of create-db, which needs that lock exclusively
        let against_create_db: Vec<(&str, Vec<&str>)> = vec![
            ("resolve", vec!["auth admin pwd", "use-db db tok", "set rk 1", "resolve 1 db rk 1 v"]),
            ("conflicting-write", vec!["auth admin pwd", "use-db adb tok", "set ck 1", "set ck 2", "set-safe ck 0 c"]),
            ("snapshot", vec!["auth admin pwd", "use-db db tok", "snapshot false db|adb"]),
            ("use-db", vec!["use-db db tok", "use-db adb tok"]),
            ("replicate", vec!["auth admin pwd", "replicate db rk2 1 v", "replicate-increment db rn 1", "replicate-remove db rk2"]),
        ];
        for (pi, (name, lines)) in against_create_db.iter().enumerate() {
            if finished < 4 {
                break; // the node is wedged already
            }
            let (tx, rx) = std::sync::mpsc::channel::<u8>();
            let iterations = if thorough { 20_000 } else { 2_000 };
            {
                let (dbs, tx, dir, lines, panics) = (dbs.clone(), tx.clone(), dir.clone(), lines.iter().map(|x| x.to_string()).collect::<Vec<_>>(), panics.clone());
                let arb_needed = *name == "conflicting-write";
                std::thread::spawn(move || {
                    nundb::verif::set_dir(Some(dir));
                    let mut arb = Session::new();
                    if arb_needed {
                        arb.call(&dbs, "use-db adb tok");
                        arb.call(&dbs, "arbiter");
                    }
                    let mut s = Session::new();
                    for i in 0..iterations {
                        let l = &lines[if i < lines.len() { i } else { lines.len() - 1 }];
                        if let Err(e) = std::panic::catch_unwind(std::panic::AssertUnwindSafe(|| s.call(&dbs, l))) {
                            panics.lock().unwrap().push((format!("{}/against-create-db", l.split(' ').next().unwrap_or("")), panic_msg(&e)));
                            break;
                        }
                        arb.drain();
                    }
                    let _ = tx.send(0);
                });
            }
            {
                let (dbs, tx, dir, panics) = (dbs.clone(), tx.clone(), dir.clone(), panics.clone());
                std::thread::spawn(move || {
                    nundb::verif::set_dir(Some(dir));
                    let mut s = Session::new();
                    s.call(&dbs, "auth admin pwd");
                    for i in 0..iterations / 4 {
                        if let Err(e) = std::panic::catch_unwind(std::panic::AssertUnwindSafe(|| s.call(&dbs, &format!("create-db c{}x{} tok", pi, i)))) {
                            panics.lock().unwrap().push(("create-db/against".into(), panic_msg(&e)));
                            break;
                        }
                    }
                    let _ = tx.send(1);
                });
            }
            drop(tx);
            let mut got = 0;
            let deadline = std::time::Instant::now() + std::time::Duration::from_secs(if thorough { 600 } else { 120 });
            while got < 2 && std::time::Instant::now() < deadline {
                if rx.recv_timeout(std::time::Duration::from_secs(1)).is_ok() {
                    got += 1;
                }
            }
            concurrent_rounds += iterations as u64;
            if got < 2 {
                v.report(json!({"check": "crash", "problem": "sessions-blocked-forever", "sessions": "concurrent", "word": name, "detail": "against create-db"}), json!({"pair": [lines, &vec!["create-db <new name> tok"]], "explanation": "the two sessions never came back from their commands: they block each other, and everybody who needs the database map after them"}));
                finished = 0;
            }
        }
        // (d) two sessions writing one key of an arbiter database with stale versions at the same moment, while the
        // registered arbiter answers every conflict it is sent (the key goes into conflict resolution and comes out of it
        // again and again): whichever of them comes second finds the key between two steps of the first
        if finished == 4 {
            let rounds = if thorough { 30_000 } else { 3_000 };
            let stop = Arc::new(std::sync::atomic::AtomicBool::new(false));
            let (tx, rx) = std::sync::mpsc::channel::<u8>();
            {
                let mut adm = Session::new();
                adm.call(&dbs, "auth admin pwd");
                adm.call(&dbs, "create-db racearb tok arbiter");
                adm.call(&dbs, "use-db racearb tok");
                adm.call(&dbs, "set ck 1");
                adm.call(&dbs, "set ck 2");
            }
            {
                let (dbs, dir, stop, panics) = (dbs.clone(), dir.clone(), stop.clone(), panics.clone());
                std::thread::spawn(move || {
                    nundb::verif::set_dir(Some(dir));
                    let mut arb = Session::new();
                    arb.call(&dbs, "use-db racearb tok");
                    arb.call(&dbs, "arbiter");
                    while !stop.load(std::sync::atomic::Ordering::Relaxed) {
                        let notices: Vec<String> = arb.drain();
                        if notices.is_empty() {
                            std::thread::yield_now();
                        }
                        for n in notices {
                            // resolve <opid> <db> <version> <key> <old value or conflict key> <value>
                            let p: Vec<&str> = n.trim().split(' ').collect();
                            if p.len() >= 7 && p[0] == "resolve" {
                                let line = format!("resolve {} {} {} {} {}", p[1], p[2], p[4], p[3], p[6..].join(" "));
                                if let Err(e) = std::panic::catch_unwind(std::panic::AssertUnwindSafe(|| arb.call(&dbs, &line))) {
                                    panics.lock().unwrap().push(("resolve/two-conflicting-writers".into(), panic_msg(&e)));
                                    return;
                                }
                            }
                        }
                    }
                });
            }
            // both writers start a round together, and only once the arbiter has brought the key out of conflict resolution
            let gate = Arc::new(std::sync::atomic::AtomicU64::new(0));
            let broken = Arc::new(std::sync::atomic::AtomicBool::new(false));
            for t in 0..2u8 {
                let (dbs, dir, tx, panics, gate, broken) = (dbs.clone(), dir.clone(), tx.clone(), panics.clone(), gate.clone(), broken.clone());
                std::thread::spawn(move || {
                    nundb::verif::set_dir(Some(dir));
                    let mut s = Session::new();
                    s.call(&dbs, "use-db racearb tok");
                    let give_up = std::time::Instant::now() + std::time::Duration::from_secs(150);
                    'rounds: for i in 0..rounds as u64 {
                        // round i starts when the gate shows 2*i arrivals ... and both have arrived
                        gate.fetch_add(1, std::sync::atomic::Ordering::SeqCst);
                        while gate.load(std::sync::atomic::Ordering::SeqCst) < 2 * (i + 1) {
                            if broken.load(std::sync::atomic::Ordering::Relaxed) || std::time::Instant::now() > give_up {
                                break 'rounds;
                            }
                            std::hint::spin_loop();
                        }
                        if (i + t as u64) % 4 == 0 {
                            std::thread::yield_now();
                        }
                        let line = format!("set-safe ck 0 w{}x{}", t, i);
                        if let Err(e) = std::panic::catch_unwind(std::panic::AssertUnwindSafe(|| s.call(&dbs, &line))) {
                            panics.lock().unwrap().push(("set-safe/two-conflicting-writers".into(), panic_msg(&e)));
                            broken.store(true, std::sync::atomic::Ordering::Relaxed);
                            break;
                        }
                        // wait for the arbiter's answers: the key is writable again
                        loop {
                            let r = s.call_raw(&dbs, "get-safe ck");
                            s.drain();
                            match r {
                                nundb::bo::Response::Value { version, .. } if version != -2 => break,
                                _ => {}
                            }
                            if broken.load(std::sync::atomic::Ordering::Relaxed) || std::time::Instant::now() > give_up {
                                break 'rounds;
                            }
                            std::thread::yield_now();
                        }
                    }
                    let _ = tx.send(t);
                });
            }
            drop(tx);
            let mut got = 0;
            let deadline = std::time::Instant::now() + std::time::Duration::from_secs(if thorough { 600 } else { 180 });
            while got < 2 && std::time::Instant::now() < deadline {
                if rx.recv_timeout(std::time::Duration::from_secs(1)).is_ok() {
                    got += 1;
                }
            }
            stop.store(true, std::sync::atomic::Ordering::Relaxed);
            concurrent_rounds += 2 * rounds as u64;
            if got < 2 {
                v.report(json!({"check": "crash", "problem": "sessions-blocked-forever", "sessions": "concurrent", "word": "set-safe", "detail": "two conflicting writers on one key of an arbiter database"}), json!({"explanation": "the two writers never came back"}));
                finished = 0;
            }
        }
        if finished < 4 && finished != 0 {
            v.report(json!({"check": "crash", "problem": "sessions-blocked-forever", "sessions": "concurrent", "word": "", "detail": ""}), json!({"sessions_that_never_finished": 4 - finished, "explanation": "four sessions ran random lines of the corpus at once; some never came back from a command (the node is wedged for them)"}));
        }
        concurrent_rounds += 4 * per_thread as u64;
        let p: Vec<(String, String)> = panics.lock().unwrap().clone();
        let poisoned_now = if finished < 4 { vec![] } else { poisoned(&dbs) };
        if !p.is_empty() || !poisoned_now.is_empty() {
            let word = p.first().map(|x| x.0.split('/').next().unwrap_or("").to_string()).unwrap_or_default();
            v.report(json!({"check": "crash", "problem": if !p.is_empty() { "handler-panicked" } else { "lock-poisoned" }, "word": word, "detail": first_panic_frame(p.first().map(|x| x.1.as_str()).unwrap_or("")), "sessions": "concurrent"}),
                json!({"panics": p, "poisoned": poisoned_now}));
        }
    }
    // the same corpus over the three real transports
    let th = crate::transports::c10_transports(&v, &cases, if thorough { 6000 } else { 700 });
    // a client that sends legal commands (use-db, watch) and then does not read what it is sent
    let mut slow_clients = 0u64;
    for (writes, len) in if thorough { vec![(2000usize, 4000usize), (6000, 900), (800, 20_000)] } else { vec![(2000, 4000)] } {
        let dir = fresh_dir("c10-slow");
        match crate::transports::slow_tcp_subscriber(&dir, writes, len) {
            Some(sl) => {
                slow_clients += 1;
                if !sl.panics.is_empty() {
                    let file = sl.panics[0].split(':').next().unwrap_or("").rsplit('/').next().unwrap_or("").to_string();
                    v.report(json!({"check": "transport", "transport": "tcp", "problem": format!("service-thread-panicked-in-{}", file), "input": "client-that-does-not-read-its-notifications"}), json!({"panics": sl.panics, "writes": sl.writes, "value_bytes": len}));
                } else if !sl.served_afterwards {
                    v.report(json!({"check": "transport", "transport": "tcp", "problem": "service-dead-for-other-clients", "input": "client-that-does-not-read-its-notifications"}), json!({"writes": sl.writes, "value_bytes": len}));
                }
            }
            None => v.inconclusive("could not bind loopback ports"),
        }
    }
    ev.set("tcp_clients_that_did_not_read_their_notifications", json!(slow_clients));
    let st = stats.into_inner().unwrap();
    ev.evaluations = st.lines + th.lines;
    ev.distinct_nontrivial = st.classes.len() as u64;
    ev.rule = format!("in-process: {} sequences of 15 writes / watch commands that start after 1-3 other sessions left subscriptions behind (in a database they no longer had selected, duplicated, as arbiter; gone by the transports' disconnect sequence or with their channel simply dropped) + {} targeted sequences + {} systematic lines (every parser command word + unknown + empty x every argument class alone and after a key, for anonymous / db-token / admin sessions) + {} seeded random sequences of 1-4 lines (0-5 arguments from {} hostile classes, 1/12 raw random bytes); after every line: catch_unwind, the real replication loop and supervisor consume what was enqueued, snapshot timer action if queued, poison scan of every lock, set/get probe from a second client. Transports: {} lines of the same corpus over real TCP, HTTP (incl. bodies of >100 commands) and WebSocket (text and binary frames) servers started in-process, each followed by a liveness probe. distinct_nontrivial = distinct (command word, argument class) pairs executed", departed_cases.len(), n_targeted, n_systematic, n_random, pool.len(), th.lines);
    ev.samples = st.samples.clone();
    ev.set("in_process_lines", json!(st.lines));
    ev.set("commands_issued_by_concurrent_sessions", json!(concurrent_rounds));
    ev.set("probe_round_trips", json!(st.probes));
    ev.set("replication_messages_through_real_loop", json!(st.repl_msgs));
    ev.set("supervisor_messages_through_real_supervisor", json!(st.sup_msgs));
    ev.set("distinct_line_shapes", json!(st.word_class.len()));
    ev.set("transport", th.to_json());
    ev.set("known_findings_seen", json!(v.known_seen()));
    // Engine R: transport-level input against one real process (framing the corpus cannot express, and input whose
    // failure mode is an abort of the whole process)
    let real = crate::realparts::c10_real(&v, thorough);
    ev.set("real_process", real.to_json());
    ev.violations = v.violation_count();
    ev.assumptions = vec![
        "built with overflow-checks and debug-assertions on (profile verif); the thorough tier repeats the arithmetic-sensitive targeted sequences in a release build".into(),
        "links requested by the supervisor close at once (null transport): nothing connects to the network".into(),
        "NUN_ELECTION_TIMEOUT=6 ms so that admin-issued election commands finish quickly".into(),
    ];
    ev.write();
    cleanup_scratch();
    let code = v.finish(tier);
    if code == 0 && (st.classes.len() < 1000 || th.lines < 300) {
        println!("INCONCLUSIVE property=C10 reason=coverage floor not met ({} classes, {} transport lines)", st.classes.len(), th.lines);
        return 2;
    }
    println!("C10 {}: {} in-process lines in {} sequences, {} (word,arg-class) pairs, {} probes, {} repl msgs, {} supervisor msgs; transports: {} lines; {} violations",
        tier, st.lines, st.sequences, st.classes.len(), st.probes, st.repl_msgs, st.sup_msgs, th.lines, v.violation_count());
    code
}
