#!/bin/bash
# usage: tools/confirm_seed.sh <scratch worktree with patch.diff + demo.diff applied>
# confirms by myself: (1) full unit suite with the change, (2) demo fails with the change, (3) demo passes without it.
W="$1"; cd "$W" || exit 2
export CARGO_NET_OFFLINE=true
git apply --check -R patch.diff 2>/dev/null || { echo "patch not applied in worktree"; exit 2; }
cargo test --offline --lib -- --test-threads 8 > confirm.with.txt 2>&1
echo "WITH: $(grep -E '^test result' confirm.with.txt)"
echo "failed with: $(grep -E '^test .* FAILED' confirm.with.txt | sed 's/test \(.*\) \.\.\. FAILED/\1/' | tr '\n' ' ')"
git apply -R patch.diff
cargo test --offline --lib demo_ > confirm.without.txt 2>&1
echo "WITHOUT (demo only): $(grep -E '^test result' confirm.without.txt)"
git apply patch.diff
