#!/bin/bash
# usage: tools/confirm_seed.sh <scratch worktree with patch.diff + demo.diff applied>
# confirms by myself: (1) full unit suite with the change, (2) demo fails with the change, (3) demo passes without it.
W="$1"; cd "$W" || exit 2
export CARGO_NET_OFFLINE=true
git apply --check -R patch.diff 2>/dev/null || { echo "patch not applied in worktree"; exit 2; }
# other test runs on this machine share the unit tests' fixed scratch directories: an aborted run is repeated
for try in 1 2 3 4; do
  cargo test --offline --lib -- --test-threads 4 > confirm.with.txt 2>&1
  grep -q '^test result' confirm.with.txt && break
  sleep 5
done
echo "WITH: $(grep -E '^test result' confirm.with.txt)"
echo "failed with: $(grep -E '^test .* FAILED' confirm.with.txt | sed 's/test \(.*\) \.\.\. FAILED/\1/' | tr '\n' ' ')"
git apply -R patch.diff
cargo test --offline --lib demo_ > confirm.without.txt 2>&1
echo "WITHOUT (demo only): $(grep -E '^test result' confirm.without.txt)"
git apply patch.diff
