#!/usr/bin/python3
"""Minimal in-memory S3-compatible stub (path style): PUT / GET object, ListObjectsV2.
Buckets are created on first use. Per-bucket fault schedule and request log:
  POST /__control/<bucket>  body: JSON {"fail_put_nth": n, "fail_put_mode": "once"|"always", "fail_get_nth": n}
  GET  /__log/<bucket>      -> JSON list of {"op","key","status"}
Prints "PORT <n>" on stdout once listening."""
import json, sys, threading
from http.server import BaseHTTPRequestHandler, ThreadingHTTPServer
from urllib.parse import urlparse, parse_qs, unquote
from xml.sax.saxutils import escape

STORE = {}    # bucket -> {key: bytes}
FAULTS = {}   # bucket -> dict
LOG = {}      # bucket -> list
COUNTS = {}   # bucket -> {"put": n, "get": n}
LOCK = threading.Lock()

def dechunk_aws(body):
    """aws-chunked payload: <hex>;chunk-signature=..\r\n<data>\r\n ... 0\r\n trailers"""
    out = b''; i = 0
    while i < len(body):
        j = body.find(b'\r\n', i)
        if j < 0: break
        head = body[i:j].split(b';')[0]
        try: n = int(head, 16)
        except ValueError: return body
        if n == 0: break
        out += body[j+2:j+2+n]; i = j + 2 + n + 2
    return out

class H(BaseHTTPRequestHandler):
    protocol_version = 'HTTP/1.1'
    def log_message(self, *a): pass
    def _send(self, code, body=b'', ctype='application/xml', extra=None):
        self.send_response(code)
        self.send_header('Content-Type', ctype)
        self.send_header('Content-Length', str(len(body)))
        for k, v in (extra or {}).items(): self.send_header(k, v)
        self.end_headers()
        if body: self.wfile.write(body)
    def _split(self):
        u = urlparse(self.path); parts = u.path.lstrip('/').split('/', 1)
        return unquote(parts[0]), (unquote(parts[1]) if len(parts) > 1 else ''), parse_qs(u.query)
    def _body(self):
        if self.headers.get('Transfer-Encoding', '').lower() == 'chunked':
            data = b''
            while True:
                line = self.rfile.readline().strip()
                n = int(line.split(b';')[0], 16) if line else 0
                if n == 0:
                    # trailers
                    while self.rfile.readline().strip(): pass
                    break
                data += self.rfile.read(n); self.rfile.read(2)
            return data
        n = int(self.headers.get('Content-Length', '0'))
        return self.rfile.read(n) if n else b''
    def do_POST(self):
        bucket, key, q = self._split(); body = self._body()
        if bucket == '__control':
            with LOCK:
                FAULTS[key] = json.loads(body or b'{}'); COUNTS[key] = {'put': 0, 'get': 0}; LOG[key] = []
            return self._send(200, b'{}', 'application/json')
        self._send(405)
    def do_PUT(self):
        bucket, key, q = self._split(); body = self._body()
        if 'aws-chunked' in self.headers.get('Content-Encoding', '') or self.headers.get('x-amz-content-sha256', '').startswith('STREAMING'):
            body = dechunk_aws(body)
        with LOCK:
            c = COUNTS.setdefault(bucket, {'put': 0, 'get': 0}); c['put'] += 1
            f = FAULTS.get(bucket, {}); n = f.get('fail_put_nth')
            # 'once' fails fail_put_count (default 1) uploads in a row starting with the nth; the status decides whether the
            # client library retries by itself (5xx) or hands the error to its caller at once (4xx)
            cnt = f.get('fail_put_count', 1); status = f.get('fail_put_status', 500)
            fail = n is not None and (n <= c['put'] < n + cnt if f.get('fail_put_mode', 'once') == 'once' else c['put'] >= n)
            LOG.setdefault(bucket, []).append({'op': 'PUT', 'key': key, 'status': status if fail else 200, 'bytes': len(body)})
            if not fail: STORE.setdefault(bucket, {})[key] = body
        if fail:
            if status >= 500: return self._send(status, b'<Error><Code>InternalError</Code><Message>injected</Message></Error>')
            return self._send(status, b'<Error><Code>AccessDenied</Code><Message>injected</Message></Error>')
        self._send(200, b'', extra={'ETag': '"0"'})
    def do_GET(self):
        bucket, key, q = self._split()
        if bucket == '__log':
            with LOCK: body = json.dumps(LOG.get(key, [])).encode()
            return self._send(200, body, 'application/json')
        if bucket == '__dump':
            with LOCK: body = json.dumps({k: len(v) for k, v in STORE.get(key, {}).items()}).encode()
            return self._send(200, body, 'application/json')
        if key == '' or 'list-type' in q:
            prefix = q.get('prefix', [''])[0]
            with LOCK:
                keys = sorted(k for k in STORE.get(bucket, {}) if k.startswith(prefix))
                LOG.setdefault(bucket, []).append({'op': 'LIST', 'key': prefix, 'status': 200})
                items = ''.join('<Contents><Key>%s</Key><Size>%d</Size><ETag>"0"</ETag><StorageClass>STANDARD</StorageClass></Contents>' % (escape(k), len(STORE[bucket][k])) for k in keys)
            body = ('<?xml version="1.0" encoding="UTF-8"?><ListBucketResult xmlns="http://s3.amazonaws.com/doc/2006-03-01/"><Name>%s</Name><Prefix>%s</Prefix><KeyCount>%d</KeyCount><MaxKeys>1000</MaxKeys><IsTruncated>false</IsTruncated>%s</ListBucketResult>' % (escape(bucket), escape(prefix), len(keys), items)).encode()
            return self._send(200, body)
        with LOCK:
            c = COUNTS.setdefault(bucket, {'put': 0, 'get': 0}); c['get'] += 1
            f = FAULTS.get(bucket, {}); n = f.get('fail_get_nth')
            cnt = f.get('fail_get_count', 1); status = f.get('fail_get_status', 500)
            fail = n is not None and n <= c['get'] < n + cnt
            data = STORE.get(bucket, {}).get(key)
            LOG.setdefault(bucket, []).append({'op': 'GET', 'key': key, 'status': status if fail else (200 if data is not None else 404)})
        if fail:
            if status >= 500: return self._send(status, b'<Error><Code>InternalError</Code><Message>injected</Message></Error>')
            return self._send(status, b'<Error><Code>AccessDenied</Code><Message>injected</Message></Error>')
        if data is None: return self._send(404, b'<Error><Code>NoSuchKey</Code><Message>no such key</Message></Error>')
        self._send(200, data, 'application/octet-stream', extra={'ETag': '"0"'})
    def do_HEAD(self):
        self._send(200)

if __name__ == '__main__':
    srv = ThreadingHTTPServer(('127.0.0.1', int(sys.argv[1]) if len(sys.argv) > 1 else 0), H)
    srv.daemon_threads = True
    print('PORT %d' % srv.server_address[1], flush=True)
    srv.serve_forever()
