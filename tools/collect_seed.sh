#!/bin/bash
# usage: tools/collect_seed.sh <scratch worktree> <destination dir, e.g. /verif/seeded10/C03>
# confirms a seeded change by myself in its scratch worktree (shared target directory outside /repo and /verif so that
# the dependencies are compiled once), then copies patch.diff / demo.diff / meta.json and adds "confirmed_by_me".
W="$1"; D="$2"
[ -f "$W/patch.diff" ] && [ -f "$W/demo.diff" ] && [ -f "$W/meta.json" ] || { echo "deliverables missing in $W"; exit 2; }
export CARGO_NET_OFFLINE=true
export CARGO_TARGET_DIR="${SEED_TARGET:-/tmp/seed-confirm-target}"
cd "$W" || exit 2
# bring the worktree to: HEAD + patch + demo
git checkout -q -- src 2>/dev/null; git clean -fdq src 2>/dev/null
git apply --check patch.diff || { echo "patch.diff does not apply to HEAD"; exit 2; }
git apply patch.diff
git apply --check demo.diff || { echo "demo.diff does not apply on top of the patch"; exit 2; }
git apply demo.diff
cargo build --offline --features verif > confirm.verif.txt 2>&1 && VB=ok || VB=FAILED
for try in 1 2 3; do
  cargo test --offline --lib -- --test-threads 4 > confirm.with.txt 2>&1
  grep -q '^test result' confirm.with.txt && break
  sleep 3
done
SUITE="$(grep -E '^test result' confirm.with.txt)"
FAILED="$(grep -E '^test .* FAILED' confirm.with.txt | sed 's/test \(.*\) \.\.\. FAILED/\1/' | tr '\n' ' ')"
cargo test --offline --lib demo_ > confirm.demo.with.txt 2>&1
DW="$(grep -E '^test result' confirm.demo.with.txt)"
git apply -R demo.diff; git apply -R patch.diff
git apply --check demo.diff 2>/dev/null || { echo "demo.diff does not apply without the patch"; DWO="demo.diff does not apply without the patch"; }
if [ -z "${DWO:-}" ]; then
  git apply demo.diff
  cargo test --offline --lib demo_ > confirm.demo.without.txt 2>&1
  DWO="$(grep -E '^test result' confirm.demo.without.txt)"
  git apply -R demo.diff
fi
echo "verif-feature build with change: $VB"
echo "suite with change: $SUITE"
echo "failed with change: $FAILED"
echo "demo with change: $DW"
echo "demo without change: $DWO"
mkdir -p "$D"
cp patch.diff demo.diff "$D/"
/usr/bin/python3 - "$W/meta.json" "$D/meta.json" "$VB" "$SUITE" "$FAILED" "$DW" "$DWO" <<'EOF'
import json,sys
src,dst,vb,suite,failed,dw,dwo=sys.argv[1:8]
try: m=json.load(open(src))
except Exception as e: m={"meta_unreadable":str(e),"raw":open(src).read()[:4000]}
m["confirmed_by_me"]={"what_i_ran":"tools/collect_seed.sh in the scratch worktree: cargo build --features verif and cargo test --offline --lib with patch+demo applied; cargo test --offline --lib demo_ with and without patch.diff",
 "verif_feature_build_with_change":vb,"suite_with_change":suite,"failed_with_change":failed,"demo_with_change":dw,"demo_without_change":dwo}
json.dump(m,open(dst,"w"),indent=1)
EOF
