#!/usr/bin/python3
"""Compare a `cargo test` log with /root/.vp/BASELINE.json stable_pass list."""
import json, re, sys
log = open(sys.argv[1], errors='replace').read()
base = json.load(open('/root/.vp/BASELINE.json'))
# cargo test prints "Running unittests src/lib/lib.rs (...)" / "Running tests/x.rs (...)" then "test name ... ok"
cur = None; res = {}
for line in log.splitlines():
    m = re.search(r'Running (?:unittests )?(\S+) \(', line)
    if m:
        p = m.group(1)
        if p.startswith('tests/'):
            cur = 'nun-db::' + p[len('tests/'):-3]
        elif 'lib.rs' in p:
            cur = 'nun-db'
        else:
            cur = None
        continue
    m = re.match(r'^test (\S+) \.\.\. (ok|FAILED|ignored)?', line)
    if m and cur:
        name = cur + '::' + m.group(1)
        if m.group(2):
            res[name] = m.group(2)
        else:
            res.setdefault(name, 'ok')   # output interleaved with log lines; failures are listed again below
        continue
    m = re.match(r'^    (\S+)$', line)   # entries of the "failures:" summary
    if m and cur and (cur + '::' + m.group(1)) in res:
        res[cur + '::' + m.group(1)] = 'FAILED'
missing = [t for t in base['stable_pass'] if res.get(t) != 'ok']
print('stable_pass:', len(base['stable_pass']), 'ok in this run:', len(base['stable_pass']) - len(missing))
for t in missing:
    print('  NOT OK:', t, res.get(t))
sys.exit(1 if missing else 0)
